From RZ Require Import Base.Prelude Base.Stepper Model.Codec Proofs.CodecProofs Model.Engine
  Proofs.EngineProofs.
Local Open Scope N_scope.

Definition ping_out (cfg : ecfg) : eout :=
  OSend (enc_codec (cmd_frame (ping_body
           (match c_hb_timeout cfg with Some t => N.min (t / 1000000) u16_max | None => 0 end) []))) false.

Definition hb_active (g : engine) : Prop :=
  e_phase (g_st g) = PData /\ e_version (g_st g) <> Some V2.

Definition timed_out (cfg : ecfg) (g : engine) (now : N) : bool :=
  match c_hb_timeout cfg, h_last_ping (g_hb g) with
  | Some t, Some p => h_waiting (g_hb g) && (t <=? now - p)
  | _, _ => false
  end.
Definition ping_due (cfg : ecfg) (g : engine) (now : N) : bool :=
  match c_hb_ivl cfg with
  | Some ivl => negb (h_waiting (g_hb g)) && (ivl <=? now - h_last_activity (g_hb g))
  | None => false
  end.

(* complete decision rule of on_tick *)
Theorem tick_rule cfg g now : hb_active g ->
  e_tick cfg g now =
    if timed_out cfg g now then
      ({| g_st := closed (g_st g); g_acc := g_acc g; g_hb := g_hb g |}, [OErr ETimeout])
    else if ping_due cfg g now then
      ({| g_st := g_st g; g_acc := g_acc g;
          g_hb := {| h_last_activity := h_last_activity (g_hb g); h_last_ping := Some now; h_waiting := true |} |},
       [ping_out cfg])
    else (g, []).
Proof.
  intros [Hp Hv]. unfold e_tick, timed_out, ping_due, ping_out. rewrite Hp.
  destruct (e_version (g_st g)) as [[|]|]; try congruence;
  (destruct (match c_hb_timeout cfg with Some _ => _ | None => _ end); [reflexivity|];
   destruct (c_hb_ivl cfg); [|reflexivity]; destruct (_ && _); reflexivity).
Qed.

Theorem tick_inactive cfg g now : ~ hb_active g -> e_tick cfg g now = (g, []).
Proof.
  unfold hb_active, e_tick. intros H.
  destruct (e_phase (g_st g)) eqn:Ep; try reflexivity.
  destruct (e_version (g_st g)) as [[|]|] eqn:Ev; try reflexivity; exfalso; apply H; split; congruence.
Qed.

(* no heartbeat on ZMTP/2.0 *)
Theorem v2_never_pings cfg g now : e_version (g_st g) = Some V2 -> e_tick cfg g now = (g, []).
Proof. intros H. apply tick_inactive. intros [_ Hv]. congruence. Qed.

Lemma starts_with_app0 p r : starts_with p (p ++ r) = true.
Proof. induction p as [|x p IH]; [destruct r; reflexivity|]. cbn. rewrite N.eqb_refl, IH. reflexivity. Qed.

Lemma classic_active g : hb_active g \/ ~ hb_active g.
Proof.
  unfold hb_active. destruct (e_phase (g_st g)); try (right; intros [H _]; discriminate).
  destruct (e_version (g_st g)) as [[|]|]; [right; intros [_ H]; congruence | left; split; congruence | left; split; congruence].
Qed.

(* a PING is emitted only when idle for at least the interval and none is outstanding *)
Theorem ping_not_early cfg g now x :
  In x (snd (e_tick cfg g now)) -> (exists b z, x = OSend b z) ->
  exists ivl, c_hb_ivl cfg = Some ivl /\ h_waiting (g_hb g) = false /\ ivl <= now - h_last_activity (g_hb g).
Proof.
  intros Hin [b [z ->]].
  destruct (classic_active g) as [Ha|Hn].
  2:{ rewrite tick_inactive in Hin by exact Hn. destruct Hin. }
  rewrite tick_rule in Hin by exact Ha.
  destruct (timed_out cfg g now); [destruct Hin as [H|[]]; discriminate|].
  unfold ping_due in *. destruct (c_hb_ivl cfg) as [ivl|]; [|destruct Hin].
  destruct (negb (h_waiting (g_hb g))) eqn:Ew; [|destruct Hin].
  destruct (ivl <=? now - h_last_activity (g_hb g)) eqn:El; [|destruct Hin].
  exists ivl. split; [reflexivity|]. split; [destruct (h_waiting (g_hb g)); [discriminate|reflexivity]|]. lia.
Qed.

(* if ticks are at most one interval apart, a PING is out within two intervals of the last activity:
   a tick at `prev` that found the connection not yet idle for a full interval, followed by the next
   tick at most one interval later but at or after the idle deadline, pings - and that is < la + 2 ivl *)
Theorem ping_within_two_ivl cfg g prev now ivl :
  hb_active g -> c_hb_ivl cfg = Some ivl -> h_waiting (g_hb g) = false -> timed_out cfg g now = false ->
  prev < h_last_activity (g_hb g) + ivl -> now <= prev + ivl -> h_last_activity (g_hb g) + ivl <= now ->
  snd (e_tick cfg g now) = [ping_out cfg] /\ now < h_last_activity (g_hb g) + 2 * ivl.
Proof.
  intros Ha Hi Hw Ht Hp Hn Hd. rewrite tick_rule by exact Ha. rewrite Ht.
  unfold ping_due. rewrite Hi, Hw. cbn [negb andb].
  assert (ivl <=? now - h_last_activity (g_hb g) = true) as -> by lia.
  split; [reflexivity|lia].
Qed.

(* no PONG within the timeout of the PING => the next tick closes the connection with Timeout *)
Theorem dead_peer_closed cfg g now t p :
  hb_active g -> c_hb_timeout cfg = Some t -> h_waiting (g_hb g) = true -> h_last_ping (g_hb g) = Some p ->
  p + t <= now ->
  snd (e_tick cfg g now) = [OErr ETimeout] /\ e_phase (g_st (fst (e_tick cfg g now))) = PClosed.
Proof.
  intros Ha Ht Hw Hp Hd. rewrite tick_rule by exact Ha. unfold timed_out. rewrite Ht, Hp, Hw. cbn [andb].
  assert (t <=? now - p = true) as -> by lia. split; reflexivity.
Qed.

(* the heartbeat logic closes a connection ONLY when a PING has been outstanding for the timeout *)
Theorem timeout_only_when_unanswered cfg g now :
  In (OErr ETimeout) (snd (e_tick cfg g now)) ->
  exists t p, c_hb_timeout cfg = Some t /\ h_waiting (g_hb g) = true /\ h_last_ping (g_hb g) = Some p /\ t <= now - p.
Proof.
  intros Hin. destruct (classic_active g) as [Ha|Hn].
  2:{ rewrite tick_inactive in Hin by exact Hn. destruct Hin. }
  rewrite tick_rule in Hin by exact Ha. unfold timed_out in *.
  destruct (c_hb_timeout cfg) as [t|] eqn:Et.
  - destruct (h_last_ping (g_hb g)) as [p|] eqn:Ep.
    + destruct (h_waiting (g_hb g)) eqn:Ew; cbn [andb] in Hin.
      * destruct (t <=? now - p) eqn:El.
        { exists t, p. repeat split; auto. lia. }
        { destruct (ping_due cfg g now); [destruct Hin as [H|[]]; unfold ping_out in H; discriminate|destruct Hin]. }
      * destruct (ping_due cfg g now); [destruct Hin as [H|[]]; unfold ping_out in H; discriminate|destruct Hin].
    + destruct (ping_due cfg g now); [destruct Hin as [H|[]]; unfold ping_out in H; discriminate|destruct Hin].
  - destruct (ping_due cfg g now); [destruct Hin as [H|[]]; unfold ping_out in H; discriminate|destruct Hin].
Qed.

(* a PONG clears the outstanding-PING flag; any frame refreshes the activity stamp *)
Theorem pong_clears_waiting cfg g d now st r o :
  pump (estep cfg) emu EMU_MAX (g_st g) (g_acc g ++ d) = (st, r, o) -> has_pong o = true ->
  h_waiting (g_hb (fst (e_net cfg g d now))) = false.
Proof. intros Hp Ho. unfold e_net. rewrite Hp. cbn. rewrite Ho. reflexivity. Qed.

(* a PONG command in the Data phase (ZMTP/3) is such a step *)
Lemma parse_pong ctx : parse_cmd (cmd_frame (pong_body ctx)) = CPong ctx.
Proof.
  unfold parse_cmd, cmd_frame, pong_body. cbn [f_cmd f_more f_payload negb orb].
  assert (starts_with (4 :: s_PING) ((4 :: s_PONG) ++ ctx) = false) as -> by reflexivity.
  cbn [andb]. rewrite (starts_with_app0 (4 :: s_PONG)).
  rewrite app_length. replace (5 <=? length ((4 :: s_PONG)%N) + length ctx)%nat with true by reflexivity.
  cbn [andb]. reflexivity.
Qed.

(* network input never produces a Timeout error (only on_tick does) *)
Definition no_to (o : list eout) : Prop := ~ In (OErr ETimeout) o.
Ltac nt := unfold no_to; cbn; intuition discriminate.
Lemma no_to_app a b : no_to a -> no_to b -> no_to (a ++ b).
Proof. unfold no_to. intros Ha Hb H. apply in_app_or in H. tauto. Qed.

Lemma estep_no_timeout cfg st b st' n o : estep cfg st b = Step st' n o -> no_to o.
Proof.
  unfold estep. destruct (e_phase st); try discriminate.
  - destruct (negb (e_rev_sent st)).
    + destruct (length b <? 10)%nat; [discriminate|]. destruct (_ && _); intros; inv_step; nt.
    + destruct (e_version st) as [[|]|]; try discriminate.
      * destruct (length b <? 64)%nat; [discriminate|].
        destruct (greeting_decode _) as [[fld ?]|]; [|intros; inv_step; nt].
        destruct (negotiate cfg fld) as [m|e] eqn:En.
        { destruct (mech_complete _); [destruct (c_server cfg)|]; intros; inv_step; nt. }
        { intros; inv_step. unfold negotiate in En.
          repeat match type of En with (if ?c then _ else _) = _ => destruct c end; inversion En; nt. }
      * destruct (length b <? 11)%nat; [discriminate|].
        destruct (3 <=? nth 10 b 0); [intros; inv_step; nt|].
        destruct (nth 10 b 0 =? 1); [|intros; inv_step; nt].
        destruct (negb (c_allow_v2 cfg)); [intros; inv_step; nt|].
        destruct (c_sec_enabled cfg); [intros; inv_step; nt|].
        destruct (length b <? 12)%nat; [discriminate|].
        destruct (negb (v2_compat _ _)); [intros; inv_step; nt|].
        destruct (stype_code _); intros; inv_step; nt.
  - destruct (m_produce cfg (e_mech st)) as [m' [ | tok | ]]; try (intros; inv_step; nt).
    destruct (mech_complete (e_mech st)); [destruct (c_server cfg); intros; inv_step; nt|].
    destruct (dec_buffer (c_maxsz cfg) b) as [| | |f k]; try discriminate; try (intros; inv_step; nt).
    destruct (m_process cfg (e_mech st) (f_payload f)) as [m'' [e|]] eqn:Ep.
    { intros; inv_step. assert (e <> ETimeout) as Hne.
      { clear - Ep. destruct (e_mech st) as [|s ps|s snt fl]; unfold m_process in Ep.
        - inversion Ep.
        - destruct (f_payload f) as [|cl r]; [inversion Ep; discriminate|].
          destruct (length r <? N.to_nat cl)%nat; [inversion Ep; discriminate|].
          destruct s.
          + destruct ps; try (inversion Ep; discriminate).
            destruct (bytes_eqb _ s_HELLO); [|inversion Ep; discriminate].
            destruct (parse_hello _) as [[u p]|]; [|inversion Ep; discriminate].
            destruct (_ && _); inversion Ep; discriminate.
          + destruct ps; try (inversion Ep; discriminate).
            destruct (bytes_eqb _ s_WELCOME); [inversion Ep|].
            destruct (bytes_eqb _ s_ERROR); inversion Ep; discriminate.
        - inversion Ep; discriminate. }
      unfold no_to. cbn. intros [H|[]]. inversion H. congruence. }
    destruct (mech_is_error m''); intros; inv_step; nt.
  - destruct (dec_buffer (c_maxsz cfg) b) as [| | |f k]; try discriminate; try (intros; inv_step; nt).
    destruct (parse_cmd f); try destruct (ready_incompatible _ _); try (intros; inv_step; nt).
    intros; inv_step. unfold no_to, cork_out. destruct (c_server cfg); destruct (_ && _); cbn; intuition discriminate.
  - destruct (negb (e_v2_sent st)); try (intros; inv_step; nt).
    destruct (dec_buffer (c_maxsz cfg) b) as [| | |f k]; try discriminate; try (intros; inv_step; nt).
    destruct (f_cmd f || f_more f); [intros; inv_step; nt|].
    destruct (255 <? length (f_payload f))%nat; [intros; inv_step; nt|].
    intros; inv_step. unfold no_to, cork_out. destruct (_ && _); cbn; intuition discriminate.
  - destruct (dec_buffer (c_maxsz cfg) b) as [| | |f k]; try discriminate; try (intros; inv_step; nt).
    destruct (f_cmd f).
    + destruct (e_version st) as [[|]|]; try (intros; inv_step; nt);
        destruct (parse_cmd f); try destruct (ready_incompatible _ _); intros; inv_step; nt.
    + destruct (MAX_FRAMES <=? length (e_partial st))%nat; [intros; inv_step; nt|].
      destruct (f_more f); intros; inv_step; nt.
Qed.

Lemma Run_no_timeout cfg st b st' r o : Run (estep cfg) st b st' r o -> no_to o.
Proof.
  induction 1 as [|s b0 s1 n o1 s2 r0 o2 Hs HR IH]; [nt|].
  apply no_to_app; auto. eapply estep_no_timeout; eauto.
Qed.

Lemma e_net_no_timeout cfg g d t : no_to (snd (e_net cfg g d t)).
Proof.
  unfold e_net.
  pose proof (sk_pump_Run (engine_ok cfg) (g_st g) (g_acc g ++ d)) as HR.
  destruct (pump (estep cfg) emu EMU_MAX (g_st g) (g_acc g ++ d)) as [[st' r] o]. cbn [snd].
  pose proof (Run_no_timeout _ _ _ _ _ _ HR) as H. unfold no_to, visible in *. intros Hin.
  apply filter_In in Hin. tauto.
Qed.

(* live peer: a run in which no tick finds a PING outstanding for the timeout never closes the
   connection through the heartbeat logic *)
Fixpoint answered_run (cfg : ecfg) (g : engine) (is : list einput) : bool :=
  match is with
  | [] => true
  | i :: rest =>
      (match i with ITick now => negb (timed_out cfg g now) | _ => true end)
      && answered_run cfg (fst (e_input cfg g i)) rest
  end.

Theorem live_peer_safe cfg : forall is g,
  answered_run cfg g is = true -> Forall no_to (snd (e_run cfg g is)).
Proof.
  induction is as [|i is IH]; intros g H; [constructor|].
  cbn [answered_run] in H. apply andb_true_iff in H. destruct H as [Hi Hr].
  cbn [e_run]. specialize (IH (fst (e_input cfg g i)) Hr).
  assert (no_to (snd (e_input cfg g i))) as Ho.
  { destruct i as [d t|m|t| |w]; cbn [e_input].
    - apply e_net_no_timeout.
    - unfold e_app. destruct (e_phase (g_st g)); nt.
    - destruct (classic_active g) as [Ha|Hn].
      + rewrite tick_rule by exact Ha. apply negb_true_iff in Hi. rewrite Hi.
        destruct (ping_due cfg g t); unfold ping_out; nt.
      + rewrite tick_inactive by exact Hn. nt.
    - nt.
    - nt. }
  destruct (e_input cfg g i) as [g1 o]. cbn [fst snd] in *. destruct (e_run cfg g1 is) as [g2 os].
  cbn [snd] in *. constructor; auto.
Qed.

Lemma not_waiting_no_timeout cfg g now : h_waiting (g_hb g) = false -> timed_out cfg g now = false.
Proof. unfold timed_out. intros ->. destruct (c_hb_timeout cfg), (h_last_ping (g_hb g)); reflexivity. Qed.

(* clause 2: traffic keeps flowing. While no PING is outstanding, a tick that finds the connection
   idle for less than the interval does nothing at all. *)
Theorem traffic_keeps_alive cfg g now ivl :
  c_hb_ivl cfg = Some ivl -> h_waiting (g_hb g) = false -> now - h_last_activity (g_hb g) < ivl ->
  e_tick cfg g now = (g, []).
Proof.
  intros Hi Hw Hl. destruct (classic_active g) as [Ha|Hn]; [|apply tick_inactive; exact Hn].
  rewrite tick_rule by exact Ha. rewrite not_waiting_no_timeout by exact Hw.
  unfold ping_due. rewrite Hi, Hw. cbn [negb andb].
  assert (ivl <=? now - h_last_activity (g_hb g) = false) as -> by lia. reflexivity.
Qed.

(* ---------- PING -> PONG with the same context ---------- *)
Lemma starts_with_app p r : starts_with p (p ++ r) = true.
Proof. induction p as [|x p IH]; [destruct r; reflexivity|]. cbn. rewrite N.eqb_refl, IH. reflexivity. Qed.

Lemma parse_ping ttl ctx : parse_cmd (cmd_frame (ping_body ttl ctx)) = CPing ctx.
Proof.
  unfold parse_cmd, cmd_frame, ping_body. cbn [f_cmd f_more f_payload negb orb].
  rewrite (starts_with_app0 (4 :: s_PING)).
  assert (length ((4 :: s_PING) ++ be_bytes 2 (ttl mod 65536)) = 7%nat) as H7.
  { rewrite app_length, be_bytes_length. reflexivity. }
  rewrite app_assoc, app_length, H7.
  replace (7 <=? 7 + length ctx)%nat with true by (symmetry; apply Nat.leb_le; lia).
  cbn [andb]. f_equal.
Qed.

Theorem pong_echoes_context cfg st ttl ctx rest :
  e_phase st = PData -> e_version st <> Some V2 ->
  admitted (c_maxsz cfg) (cmd_frame (ping_body ttl ctx)) ->
  estep cfg st (enc_codec (cmd_frame (ping_body ttl ctx)) ++ rest) =
  Step st (length (enc_codec (cmd_frame (ping_body ttl ctx))))
       [OActivity; OSend (enc_codec (cmd_frame (pong_body ctx))) false].
Proof.
  intros Hp Hv Ha. unfold estep. rewrite Hp. rewrite dec_buffer_enc by exact Ha.
  change (f_cmd (cmd_frame (ping_body ttl ctx))) with true. cbn iota. rewrite parse_ping.
  destruct (e_version st) as [[|]|]; try congruence; reflexivity.
Qed.

(* a PING command too short to carry a TTL is not answered (and does no harm) *)
Theorem malformed_ping_ignored cfg st short rest :
  e_phase st = PData -> e_version st <> Some V2 -> (length short < 2)%nat ->
  admitted (c_maxsz cfg) (cmd_frame ((4 :: s_PING) ++ short)) ->
  estep cfg st (enc_codec (cmd_frame ((4 :: s_PING) ++ short)) ++ rest) =
  Step st (length (enc_codec (cmd_frame ((4 :: s_PING) ++ short)))) [OActivity].
Proof.
  intros Hp Hv Hl Ha. unfold estep. rewrite Hp. rewrite dec_buffer_enc by exact Ha.
  assert (parse_cmd (cmd_frame ((4 :: s_PING) ++ short)) = CUnknown) as Hpc.
  { unfold parse_cmd, cmd_frame. cbn [f_cmd f_more f_payload negb orb].
    rewrite (starts_with_app0 (4 :: s_PING)).
    destruct short as [|a [|b0 t]]; cbn in Hl; try lia; reflexivity. }
  change (f_cmd (cmd_frame ((4 :: s_PING) ++ short))) with true. cbn iota.
  rewrite Hpc. destruct (e_version st) as [[|]|]; try congruence; reflexivity.
Qed.

(* ---------- outbound writes (record_activity) and the PONG deadline ---------- *)
(* an outbound write refreshes the activity stamp and nothing else: in particular it does NOT move the
   outstanding PING or its deadline *)
Theorem wrote_only_refreshes_activity cfg g w :
  let g' := fst (e_wrote cfg g w) in
  g_st g' = g_st g /\ g_acc g' = g_acc g /\ h_last_activity (g_hb g') = w /\
  h_last_ping (g_hb g') = h_last_ping (g_hb g) /\ h_waiting (g_hb g') = h_waiting (g_hb g) /\
  snd (e_wrote cfg g w) = [].
Proof. cbn. repeat split; reflexivity. Qed.

(* no PING sooner than one interval after an outbound write either *)
Theorem ping_not_early_after_write cfg g w now x :
  In x (snd (e_tick cfg (fst (e_wrote cfg g w)) now)) -> (exists b z, x = OSend b z) ->
  exists ivl, c_hb_ivl cfg = Some ivl /\ ivl <= now - w.
Proof.
  intros Hin Hx. destruct (ping_not_early _ _ _ _ Hin Hx) as [ivl [Hi [_ Hl]]].
  exists ivl. split; [exact Hi|]. cbn in Hl. exact Hl.
Qed.

(* the session's backstop timer: PING time + timeout, whatever the activity stamp says *)
Theorem pong_deadline_from_ping cfg g p :
  h_waiting (g_hb g) = true -> h_last_ping (g_hb g) = Some p ->
  e_pong_deadline cfg g = Some (p + match c_hb_timeout cfg with Some t => t | None => 30000000000 end).
Proof. unfold e_pong_deadline. intros -> ->. reflexivity. Qed.
Theorem pong_deadline_ignores_writes cfg g w :
  e_pong_deadline cfg (fst (e_wrote cfg g w)) = e_pong_deadline cfg g.
Proof. reflexivity. Qed.
Theorem pong_deadline_none_when_not_waiting cfg g :
  h_waiting (g_hb g) = false -> e_pong_deadline cfg g = None.
Proof. unfold e_pong_deadline. intros ->. reflexivity. Qed.

(* a run in which the PING stays unanswered: no PONG is parsed, no tick reaches the deadline, nobody closes *)
Definition unanswered_input (cfg : ecfg) (g : engine) (i : einput) : bool :=
  match i with
  | INet d _ => let '(_, _, o) := pump (estep cfg) emu EMU_MAX (g_st g) (g_acc g ++ d) in negb (has_pong o)
  | ITick now => negb (timed_out cfg g now)
  | IClose => false
  | IApp _ | IWrote _ => true
  end.
Fixpoint unanswered_run (cfg : ecfg) (g : engine) (is : list einput) : bool :=
  match is with
  | [] => true
  | i :: rest => unanswered_input cfg g i && unanswered_run cfg (fst (e_input cfg g i)) rest
  end.

Lemma fst_e_run_cons cfg g i is : fst (e_run cfg g (i :: is)) = fst (e_run cfg (fst (e_input cfg g i)) is).
Proof. cbn [e_run]. destruct (e_input cfg g i) as [g1 o]. cbn [fst]. destruct (e_run cfg g1 is). reflexivity. Qed.

Lemma unanswered_keeps_ping cfg g i p :
  h_waiting (g_hb g) = true -> h_last_ping (g_hb g) = Some p -> unanswered_input cfg g i = true ->
  h_waiting (g_hb (fst (e_input cfg g i))) = true /\ h_last_ping (g_hb (fst (e_input cfg g i))) = Some p.
Proof.
  intros Hw Hp Hu. destruct i as [d t|m|t| |w]; cbn [e_input unanswered_input] in *.
  - unfold e_net. destruct (pump (estep cfg) emu EMU_MAX (g_st g) (g_acc g ++ d)) as [[st' r] o].
    cbn [fst g_hb h_waiting h_last_ping]. apply negb_true_iff in Hu. rewrite Hu. split; assumption.
  - unfold e_app. destruct (e_phase (g_st g)); cbn [fst]; split; assumption.
  - apply negb_true_iff in Hu. destruct (classic_active g) as [Ha|Hn].
    + rewrite tick_rule by exact Ha. rewrite Hu. unfold ping_due. rewrite Hw.
      destruct (c_hb_ivl cfg); cbn [negb andb fst]; split; assumption.
    + rewrite tick_inactive by exact Hn. cbn [fst]. split; assumption.
  - discriminate.
  - cbn. split; assumption.
Qed.

(* clause "closed if no PONG arrives within HEARTBEAT_TIMEOUT of that PING", at trace level: whatever else
   happens after the PING at p - outbound writes, application sends, inbound frames that are not a PONG,
   earlier ticks - the first tick at or after p + timeout closes the connection with Timeout *)
Theorem dead_peer_closed_despite_traffic cfg t p now : forall is g,
  c_hb_timeout cfg = Some t -> h_waiting (g_hb g) = true -> h_last_ping (g_hb g) = Some p ->
  unanswered_run cfg g is = true ->
  hb_active (fst (e_run cfg g is)) -> p + t <= now ->
  snd (e_tick cfg (fst (e_run cfg g is)) now) = [OErr ETimeout] /\
  e_phase (g_st (fst (e_tick cfg (fst (e_run cfg g is)) now))) = PClosed.
Proof.
  induction is as [|i is IH]; intros g Ht Hw Hp Hu Ha Hn.
  - cbn [e_run fst] in *. eapply dead_peer_closed; eauto.
  - cbn [unanswered_run] in Hu. apply andb_true_iff in Hu. destruct Hu as [Hi Hr].
    rewrite fst_e_run_cons in *.
    destruct (unanswered_keeps_ping cfg g i p Hw Hp Hi) as [Hw' Hp'].
    apply IH; assumption.
Qed.
