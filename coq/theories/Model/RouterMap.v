(* ROUTER identity maps, written after core/src/socket/patterns/router.rs (struct RouterMap).
   Two hash maps:  identity_to_peer_info : Blob -> PeerInfo{uri, strategy, pipe_read_id}   ("forward")
                   read_pipe_to_identity : usize -> Blob                                   ("reverse")
   modelled as association lists with unique keys (insert = remove old binding + cons).
   Executable definitions only; proofs are in Proofs/RouterMapProofs.v. *)
From RZ Require Import Base.Prelude.
Local Open Scope N_scope.

Definition ident := list N.      (* Blob: identity bytes *)
Definition pipe := N.            (* pipe_read_id : usize *)
Definition uri := N.             (* endpoint uri (String), abstracted to a number *)

(* strategies submodule: which RouterSendStrategy object a PeerInfo carries *)
Inductive strat := SDefault | SReq | SDealer | SRouter.
(* peer_socket_type: Option<&str> as seen by update_peer_identity *)
Inductive ptype := TReq | TDealer | TRouter | TOther.

(* PeerInfo { uri, strategy, pipe_read_id }: the last component is the pipe that OWNS the entry
   (the pipe whose add_peer / update_peer_identity wrote it) *)
Definition info : Type := uri * strat * pipe.
Definition owner (x : info) : pipe := snd x.

Fixpoint ident_eqb (a b : ident) : bool :=
  match a, b with
  | [], [] => true
  | x :: a', y :: b' => (x =? y) && ident_eqb a' b'
  | _, _ => false
  end.

Section Alist.
  Context {K V : Type} (eqb : K -> K -> bool).
  (* HashMap::get *)
  Fixpoint aget (k : K) (l : list (K * V)) : option V :=
    match l with
    | [] => None
    | (k', v) :: t => if eqb k k' then Some v else aget k t
    end.
  (* HashMap::remove (the returned old value is aget) *)
  Fixpoint aremove (k : K) (l : list (K * V)) : list (K * V) :=
    match l with
    | [] => []
    | (k', v) :: t => if eqb k k' then aremove k t else (k', v) :: aremove k t
    end.
  (* HashMap::insert (the returned old value is aget on the old map) *)
  Definition aset (k : K) (v : V) (l : list (K * V)) : list (K * V) := (k, v) :: aremove k l.
End Alist.

(* `forward.get(id).map_or(false, |i| i.pipe_read_id == p)`: the forward entry of id exists and is owned by p *)
Definition owned_by (p : pipe) (id : ident) (f : list (ident * info)) : bool :=
  match aget ident_eqb id f with
  | Some x => owner x =? p
  | None => false
  end.
(* `if forward.get(id).map_or(false, |i| i.pipe_read_id == p) { forward.remove(id); }`: the guarded
   removal all three pipe-driven operations use - an entry that meanwhile belongs to another pipe stays *)
Definition remove_if_owner (p : pipe) (id : ident) (f : list (ident * info)) : list (ident * info) :=
  if owned_by p id f then aremove ident_eqb id f else f.

Record rmap := { fwd : list (ident * info); rev : list (pipe * ident) }.
Definition rm_empty : rmap := {| fwd := []; rev := [] |}.

Definition fget (i : ident) (m : rmap) : option info := aget ident_eqb i (fwd m).
Definition rget (p : pipe) (m : rmap) : option ident := aget N.eqb p (rev m).

(* RouterMap::add_peer(identity, pipe_read_id, endpoint_uri):
   forward insert first (Default strategy, owner = this pipe; last wins); then reverse insert; if the
   pipe previously had a DIFFERENT identity, that identity's forward entry is removed - but only if
   this pipe still owns it. *)
Definition add_peer (id : ident) (p : pipe) (u : uri) (m : rmap) : rmap :=
  let fwd1 := aset ident_eqb id (u, SDefault, p) (fwd m) in
  let old := aget N.eqb p (rev m) in
  let rev1 := aset N.eqb p id (rev m) in
  match old with
  | Some oid => if ident_eqb oid id then {| fwd := fwd1; rev := rev1 |}
                else {| fwd := remove_if_owner p oid fwd1; rev := rev1 |}
  | None => {| fwd := fwd1; rev := rev1 |}
  end.

Definition strat_of_type (t : option ptype) : strat :=
  match t with
  | Some TReq => SReq
  | Some TDealer => SDealer
  | Some TRouter => SRouter
  | _ => SDefault
  end.

(* RouterMap::update_peer_identity(pipe_read_id, new_identity, endpoint_uri, peer_socket_type):
   remove the forward entry of the pipe's old identity if different AND still owned by this pipe;
   reverse insert; forward insert (owner = this pipe). *)
Definition update_peer_identity (p : pipe) (id : ident) (u : uri) (t : option ptype) (m : rmap) : rmap :=
  let fwd1 := match aget N.eqb p (rev m) with
              | Some oid => if ident_eqb oid id then fwd m else remove_if_owner p oid (fwd m)
              | None => fwd m
              end in
  {| fwd := aset ident_eqb id (u, strat_of_type t, p) fwd1; rev := aset N.eqb p id (rev m) |}.

(* RouterMap::remove_peer_by_read_pipe: remove the reverse entry, then remove the forward entry of
   that identity ONLY IF it is owned by this pipe (an entry a later pipe took over stays). *)
Definition remove_peer_by_read_pipe (p : pipe) (m : rmap) : rmap :=
  match aget N.eqb p (rev m) with
  | Some id => {| fwd := remove_if_owner p id (fwd m); rev := aremove N.eqb p (rev m) |}
  | None => m
  end.

(* pipes whose reverse entry equals id *)
Definition candidates (id : ident) (m : rmap) : list pipe :=
  map fst (filter (fun pv => ident_eqb (snd pv) id) (rev m)).

(* RouterMap::remove_peer_by_identity: if the forward entry exists it is removed (whoever owns it),
   then the FIRST reverse entry (in HashMap iteration order, which is unspecified) whose value
   equals the identity is removed.  The iteration order is an oracle input: `hint` names the pipe
   the iteration meets first; if it is not a candidate the first candidate of the association list
   is taken.  Every candidate can be selected by some hint, and only candidates are ever selected. *)
Definition pick (hint : pipe) (cands : list pipe) : option pipe :=
  if existsb (N.eqb hint) cands then Some hint else hd_error cands.
Definition remove_peer_by_identity (hint : pipe) (id : ident) (m : rmap) : rmap :=
  match aget ident_eqb id (fwd m) with
  | None => m
  | Some _ =>
      {| fwd := aremove ident_eqb id (fwd m);
         rev := match pick hint (candidates id m) with
                | Some k => aremove N.eqb k (rev m)
                | None => rev m
                end |}
  end.

(* ------------------------------------------------------------------------------------------
   Event histories as RouterSocket drives the map (router_socket.rs: pipe_attached,
   update_peer_identity, pipe_detached, and the stale-entry cleanup in send/send_multipart). *)
Inductive ev :=
| EAttach (p : pipe) (ido : option ident)                         (* pipe_attached(p, _, peer_identity_opt) *)
| EAnnounce (p : pipe) (ido : option ident) (t : option ptype)    (* update_peer_identity(p, new_identity_opt) *)
| EDetach (p : pipe)                                              (* pipe_detached(p) *)
| EStale (hint : pipe) (id : ident).                              (* send: endpoint of fwd[id] is gone *)

Section Events.
  (* pipe -> endpoint uri (core_state.pipe_read_id_to_endpoint_uri) and pipe -> "pipe:N" placeholder *)
  Variable uri_of : pipe -> uri.
  Variable placeholder : pipe -> ident.

  (* `Some(id) if !id.is_empty() => id, _ => placeholder` *)
  Definition eff_id (p : pipe) (ido : option ident) : ident :=
    match ido with
    | Some (x :: r) => x :: r
    | _ => placeholder p
    end.

  Definition ev_step (m : rmap) (e : ev) : rmap :=
    match e with
    | EAttach p ido => add_peer (eff_id p ido) p (uri_of p) m
    | EAnnounce p ido t => update_peer_identity p (eff_id p ido) (uri_of p) t m
    | EDetach p => remove_peer_by_read_pipe p m
    | EStale h id => remove_peer_by_identity h id m
    end.
  Definition run_from (m : rmap) (h : list ev) : rmap := fold_left ev_step h m.
  Definition run (h : list ev) : rmap := run_from rm_empty h.

  (* Specification state: the live pipes with the identity and strategy of their latest
     attach/announcement.  A stale cleanup of identity id concerns the pipe(s) known under id. *)
  Definition spec := list (pipe * (ident * strat)).
  Definition spec_step (s : spec) (e : ev) : spec :=
    match e with
    | EAttach p ido => aset N.eqb p (eff_id p ido, SDefault) s
    | EAnnounce p ido t => aset N.eqb p (eff_id p ido, strat_of_type t) s
    | EDetach p => aremove N.eqb p s
    | EStale _ id => filter (fun pv => negb (ident_eqb (fst (snd pv)) id)) s
    end.
  Definition spec_run_from (s : spec) (h : list ev) : spec := fold_left spec_step h s.
  Definition spec_run (h : list ev) : spec := spec_run_from [] h.

  (* pipes other than p that currently carry identity id *)
  Definition others_with (id : ident) (p : pipe) (s : spec) : list pipe :=
    map fst (filter (fun pv => negb (fst pv =? p) && ident_eqb (fst (snd pv)) id) s).

  (* "announced identities are pairwise distinct among live pipes": whenever a pipe takes an
     identity, no OTHER live pipe carries it at that moment. *)
  Fixpoint distinct_from (s : spec) (h : list ev) : bool :=
    match h with
    | [] => true
    | e :: h' =>
        (match e with
         | EAttach p ido | EAnnounce p ido _ =>
             match others_with (eff_id p ido) p s with [] => true | _ => false end
         | _ => true
         end) && distinct_from (spec_step s e) h'
    end.
  Definition distinct_hist (h : list ev) : bool := distinct_from [] h.
End Events.

(* "pipe:N": the placeholder RouterSocket::pipe_id_to_placeholder_identity builds (decimal ASCII) *)
Fixpoint dec_digits (fuel : nat) (n : N) (acc : list N) : list N :=
  match fuel with
  | O => acc
  | S f => let acc' := (48 + n mod 10) :: acc in
           if n / 10 =? 0 then acc' else dec_digits f (n / 10) acc'
  end.
Definition placeholder_id (p : pipe) : ident :=
  [112; 105; 112; 101; 58] ++ dec_digits (S (N.to_nat (N.log2 p))) p [].
