(* Executable model of rzmq's reconnect back-off arithmetic.
   Source: core/src/socket/core/state.rs  (struct ReconnectState, on_connection_failure,
   on_connection_success, is_due), plus the std primitives it calls:
     u32::saturating_pow, u32::min, u32::saturating_add,
     core::time::Duration::saturating_mul(u32), Duration::min, Instant + Duration.
   Durations are nanoseconds in N; a Rust Duration is (secs : u64, nanos : u32 < 10^9), so the
   largest one is DUR_MAX = (2^64-1)*10^9 + 999_999_999 ns. *)
From RZ Require Import Base.Prelude.
Local Open Scope N_scope.

Definition NS : N := 1000000000.
Definition U32MAX : N := 4294967295.                 (* 2^32 - 1 *)
Definition U64MAX : N := 18446744073709551615.       (* 2^64 - 1 *)
Definition I64MAX : N := 9223372036854775807.        (* 2^63 - 1 *)
Definition DUR_MAX : N := U64MAX * NS + 999999999.

(* ---- std primitives ---- *)

(* 2u32.saturating_pow(e): 2^e when it fits a u32 (e <= 31), u32::MAX otherwise.
   Written with the comparison on the exponent so that it stays computable for e near 2^32;
   Proofs/BackoffProofs.v shows it equals N.min (2^e) U32MAX. *)
Definition sat_pow2_u32 (e : N) : N := if e <? 32 then 2 ^ e else U32MAX.

(* u32::saturating_add *)
Definition u32_sat_add (a b : N) : N := N.min (a + b) U32MAX.

(* core::time::Duration::checked_mul(self, rhs: u32), on the (secs, nanos) representation:
     total_nanos = nanos as u64 * rhs as u64;  extra_secs = total_nanos / NS;  nanos = total_nanos % NS;
     secs.checked_mul(rhs as u64)?.checked_add(extra_secs)?   *)
Definition std_dur_checked_mul (secs nanos rhs : N) : option (N * N) :=
  let total_nanos := nanos * rhs in
  let extra_secs := total_nanos / NS in
  let nanos' := total_nanos mod NS in
  let s := secs * rhs in
  if U64MAX <? s then None
  else let s' := s + extra_secs in
       if U64MAX <? s' then None else Some (s', nanos').
(* Duration::saturating_mul = checked_mul(..).unwrap_or(Duration::MAX) *)
Definition std_dur_sat_mul (secs nanos rhs : N) : N * N :=
  match std_dur_checked_mul secs nanos rhs with
  | Some r => r
  | None => (U64MAX, 999999999)
  end.
Definition dur_ns (d : N * N) : N := fst d * NS + snd d.
Definition dur_of_ns (n : N) : N * N := (n / NS, n mod NS).

(* the same on nanoseconds (what the rest of the model uses) *)
Definition dur_sat_mul (d m : N) : N := N.min (d * m) DUR_MAX.

(* Instant + Duration on Linux (Timespec { tv_sec : i64, tv_nsec < 10^9 }):
   `checked_add_duration(..).expect("overflow when adding duration to instant")`.
   None = the panic. Instants are (sec, nsec) with sec >= 0 (CLOCK_MONOTONIC). *)
Definition instant_add (now : N * N) (d : N) : option (N * N) :=
  let '(s, ns) := now in
  let s1 := s + d / NS in
  if I64MAX <? s1 then None
  else let ns1 := ns + d mod NS in
       if NS <=? ns1
       then (if I64MAX <? s1 + 1 then None else Some (s1 + 1, ns1 - NS))
       else Some (s1, ns1).

(* ---- ReconnectState ---- *)

Record rstate := { attempts : N;                     (* current_attempts : u32 *)
                   next_at : option (N * N) }.       (* next_attempt_at : Option<Instant> *)

Definition rstate_default : rstate := {| attempts := 0; next_at := None |}.

(* the delay computed by on_connection_failure (steps 1 and 2 of the Rust function) *)
Definition delay (base max att : N) : N :=
  let multiplier := sat_pow2_u32 (N.min att 31) in        (* 2u32.saturating_pow(attempts.min(31)) *)
  let d := dur_sat_mul base multiplier in                 (* base_ivl.saturating_mul(multiplier) *)
  if 0 <? max then N.min d max else d.                    (* if max_ivl > ZERO { delay.min(max_ivl) } *)

Inductive outcome (A : Type) := Done (a : A) | Panic.
Arguments Done {A}. Arguments Panic {A}.

(* on_connection_failure: returns (delay, new state), or Panic when `Instant::now() + delay` overflows *)
Definition on_failure (base max : N) (now : N * N) (st : rstate) : outcome (N * rstate) :=
  let d := delay base max (attempts st) in
  let att' := u32_sat_add (attempts st) 1 in             (* step 3; happens before the Instant add *)
  match instant_add now d with
  | None => Panic
  | Some t => Done (d, {| attempts := att'; next_at := Some t |})
  end.

Definition on_success (st : rstate) : rstate := {| attempts := 0; next_at := None |}.

(* Instant ordering, is_due *)
Definition instant_leb (a b : N * N) : bool :=
  (fst a <? fst b) || ((fst a =? fst b) && (snd a <=? snd b)).
Definition is_due (st : rstate) (now : N * N) : bool :=
  match next_at st with Some t => instant_leb t now | None => false end.

(* ---- a connection's life as seen by ReconnectState: a sequence of failures / successes ---- *)
Inductive rop := OpFail | OpSucc.

(* delays handed out along an op sequence (time is not advanced: `now` only matters for Panic) *)
Fixpoint run_ops (base max : N) (now : N * N) (st : rstate) (ops : list rop) : outcome (list N * rstate) :=
  match ops with
  | [] => Done ([], st)
  | OpSucc :: r => run_ops base max now (on_success st) r
  | OpFail :: r =>
      match on_failure base max now st with
      | Panic => Panic
      | Done (d, st') =>
          match run_ops base max now st' r with
          | Panic => Panic
          | Done (ds, st'') => Done (d :: ds, st'')
          end
      end
  end.

(* ---- the second back-off site: TcpConnecter::run_connect_loop (core/src/transport/tcp.rs),
   used while the peer REFUSES connections (the connecter actor stays alive and sleeps itself).
   `cur * 2` is Duration * u32, which panics on overflow: None. ---- *)
Definition dur_mul2 (d : N) : option N := if DUR_MAX <? d * 2 then None else Some (d * 2).

(* fast-forward at actor start: only when base > 0 and max is Some(m) with m > 0;
   `for _ in 0..initial_attempts.min(31) { cur = (cur * 2).min(max) }` *)
Fixpoint conn_ff (k : nat) (cur max : N) : option N :=
  match k with
  | O => Some cur
  | S k' => match dur_mul2 cur with
            | None => None
            | Some c2 => conn_ff k' (N.min c2 max) max
            end
  end.
Definition conn_initial (base : N) (maxopt : option N) (initial_attempts : N) : option N :=
  if 0 <? base then
    match maxopt with
    | Some m => if 0 <? m then conn_ff (N.to_nat (N.min initial_attempts 31)) base m else Some base
    | None => Some base
    end
  else Some base.

(* update of current_retry_delay after each wait inside the loop *)
Definition conn_next (base cur : N) (maxopt : option N) : option N :=
  if (0 <? cur) && (match maxopt with None => true | Some m => 0 <? m end) then
    match maxopt with
    | Some m => match dur_mul2 cur with None => None | Some c2 => Some (N.min c2 m) end
    | None => Some base
    end
  else if (match maxopt with None => false | Some m => 0 <? m end) then maxopt
  else Some cur.
