(* Small-step interleaving model of core/src/socket/patterns/ready_pipe_queue.rs.

   Shared state, per pipe p (one PipeSlot): the bounded spsc channel `chan p` (FIFO, capacity
   `cap p`), the atomics `queued p` / `reserved p` (Z: a fetch_sub below zero would wrap in
   Rust; the theorems show it never happens), `reg p` (the slot is in the `pipes` map);
   globally the ready list `ready` (bounded mpmc channel of slot handles, capacity `rcap`).

   Threads: one producer per pipe (the channel is spsc) running a program over
   Send / TrySend / TrySendBatch, `nc` consumers running Pop / TryPop.  Every operation is cut
   into exactly the atomic actions of the code; the program counters below name the action a
   thread performs NEXT.  The cfg(rzmq_verif) schedule points of the real code sit between the
   same actions (names in comments), which is what the correspondence run compares.

     send(x):        U upgrade Weak            [rpq_send_reserve]
                     R reserved += 1           [rpq_send_write]
                     W tx.try_send(x)          Ok -> [rpq_send_count]   Full -> [rpq_send_block]
                     Wb tx.send(x).await       (pending while full; a pending future may be dropped:
                                                SendReservation::drop => reserved -= 1)
                     I prev = queued++         prev == 0 -> [rpq_send_arm]   else return Ok
                     A ready_tx.send(slot).await (pending while the ready list is full)
     try_send(x):    U [rpq_trysend_reserve] R [rpq_trysend_write] W (Full: reserved -= 1 in the
                     same step, the `?` runs the drop glue) [rpq_trysend_count] I [rpq_trysend_arm]
                     A = spin on ready_tx.try_send [rpq_trysend_spin]
     try_send_batch: U (n = 0 -> return) [rpq_batch_reserve] R reserved += n
                     { [rpq_batch_write] W  Ok -> [rpq_batch_count] I (hz |= prev == 0) ; Full -> break }
                     [rpq_batch_rollback] reserved -= n - sent   (only if sent < n)
                     [rpq_batch_arm] A spin (only if hz)   [rpq_batch_spin]
     pop():          T ready_rx.recv().await   (pending while empty; droppable)   [rpq_pop_recv]
                     X slot.rx.try_recv()      Ok -> [rpq_pop_decq]  Empty -> [rpq_pop_stale], again T
                     D prev = queued--         [rpq_pop_decr]
                     E reserved--              prev > 1 -> [rpq_pop_rearm]  else return
                     A ready_tx.send(slot).await
     try_pop():      T ready_rx.try_recv()  (Err -> None) [rpq_trypop_recv] X (Empty -> None)
                     [rpq_trypop_decq] D [rpq_trypop_decr] E  prev > 1 -> [rpq_trypop_rearm]
                     A `let _ = ready_tx.try_send(slot)`  (ONE attempt, failure ignored)

   Environment events: Cancel of a thread whose future is pending (drop glue runs), and
   deregister_pipe(p) (removes the map's strong reference; the slot lives on while the ready
   list, a consumer or the producer holds an Arc - `alive`).

   Ghost state (not read by any transition): `pushed p` = items written to pipe p's channel in
   order; `taken` = (pipe, item) in the order the consumers' try_recv took them; `out` =
   results of finished operations (newest first).

   Channel abstraction: both fibre channels are linearizable bounded FIFO queues; a pending
   send/recv future becomes runnable when room/an element is available (wake-ups of the channel
   implementation itself are not modelled; the harness tracks real wakers separately). *)
From RZ Require Import Base.Prelude.

Inductive sop := Send (x : N) | TrySend (x : N) | TrySendBatch (xs : list N).
Inductive rop := Pop | TryPop.

Inductive ppc :=
| PIdle
| SRes (x : N) | SWrite (x : N) | SBlock (x : N) (parked : bool) | SCount | SArm (parked : bool)
| TRes (x : N) | TWrite (x : N) | TCount | TArm
| BRes (xs : list N)
| BWrite (x : N) (r : list N) (sent : nat) (hz : bool)
| BCount (r : list N) (sent : nat) (hz : bool)
| BRoll (k : nat) (sent : nat) (hz : bool)
| BArm (sent : nat).

(* b = true: pop(), b = false: try_pop() *)
Inductive cpc :=
| CIdle | CWait | CStale
| CRecv (b : bool) (q : nat)
| CDecQ (b : bool) (q : nat) (x : N)
| CDecR (b : bool) (q : nat) (x : N) (prev : Z)
| CArm (b : bool) (q : nat) (x : N) (parked : bool).

Record cfg := mkCfg { np : nat; nc : nat; cap : nat -> nat; rcap : nat }.

Record st := mkSt {
  chan : nat -> list N; queued : nat -> Z; reserved : nat -> Z; reg : nat -> bool;
  ready : list nat;
  prod : nat -> ppc; pprog : nat -> list sop;
  cons : nat -> cpc; cprog : nat -> list rop;
  pushed : nat -> list N; taken : list (nat * N);
  out : list (list N) }.

Definition upd {A} (f : nat -> A) (i : nat) (v : A) : nat -> A :=
  fun j => if Nat.eqb j i then v else f j.

Definition set_chan s v := mkSt v (queued s) (reserved s) (reg s) (ready s) (prod s) (pprog s) (cons s) (cprog s) (pushed s) (taken s) (out s).
Definition set_queued s v := mkSt (chan s) v (reserved s) (reg s) (ready s) (prod s) (pprog s) (cons s) (cprog s) (pushed s) (taken s) (out s).
Definition set_reserved s v := mkSt (chan s) (queued s) v (reg s) (ready s) (prod s) (pprog s) (cons s) (cprog s) (pushed s) (taken s) (out s).
Definition set_reg s v := mkSt (chan s) (queued s) (reserved s) v (ready s) (prod s) (pprog s) (cons s) (cprog s) (pushed s) (taken s) (out s).
Definition set_ready s v := mkSt (chan s) (queued s) (reserved s) (reg s) v (prod s) (pprog s) (cons s) (cprog s) (pushed s) (taken s) (out s).
Definition set_prod s v := mkSt (chan s) (queued s) (reserved s) (reg s) (ready s) v (pprog s) (cons s) (cprog s) (pushed s) (taken s) (out s).
Definition set_pprog s v := mkSt (chan s) (queued s) (reserved s) (reg s) (ready s) (prod s) v (cons s) (cprog s) (pushed s) (taken s) (out s).
Definition set_cons s v := mkSt (chan s) (queued s) (reserved s) (reg s) (ready s) (prod s) (pprog s) v (cprog s) (pushed s) (taken s) (out s).
Definition set_cprog s v := mkSt (chan s) (queued s) (reserved s) (reg s) (ready s) (prod s) (pprog s) (cons s) v (pushed s) (taken s) (out s).
Definition set_pushed s v := mkSt (chan s) (queued s) (reserved s) (reg s) (ready s) (prod s) (pprog s) (cons s) (cprog s) v (taken s) (out s).
Definition set_taken s v := mkSt (chan s) (queued s) (reserved s) (reg s) (ready s) (prod s) (pprog s) (cons s) (cprog s) (pushed s) v (out s).
Definition set_out s v := mkSt (chan s) (queued s) (reserved s) (reg s) (ready s) (prod s) (pprog s) (cons s) (cprog s) (pushed s) (taken s) v.

(* ---- elementary actions ---- *)
Definition room (c : cfg) (s : st) (p : nat) : bool := length (chan s p) <? cap c p.
Definition rroom (c : cfg) (s : st) : bool := length (ready s) <? rcap c.
Definition write (s : st) (p : nat) (x : N) : st :=
  set_pushed (set_chan s (upd (chan s) p (chan s p ++ [x]))) (upd (pushed s) p (pushed s p ++ [x])).
Definition add_res (s : st) (p : nat) (d : Z) : st := set_reserved s (upd (reserved s) p (reserved s p + d)%Z).
Definition add_q (s : st) (p : nat) (d : Z) : st := set_queued s (upd (queued s) p (queued s p + d)%Z).
Definition arm (s : st) (p : nat) : st := set_ready s (ready s ++ [p]).
Definition pto (s : st) (p : nat) (pc : ppc) : st := set_prod s (upd (prod s) p pc).
Definition cto (s : st) (i : nat) (pc : cpc) : st := set_cons s (upd (cons s) i pc).
(* result rows: producer p -> 0 :: p :: res ; consumer i -> 1 :: i :: res *)
Definition pdone (s : st) (p : nat) (res : list N) : st :=
  set_out (pto s p PIdle) ((0 :: N.of_nat p :: res)%N :: out s).
Definition cdone (s : st) (i : nat) (res : list N) : st :=
  set_out (cto s i CIdle) ((1 :: N.of_nat i :: res)%N :: out s).

(* result codes: send [1; 0 ok | 1 closed | 2 cancelled]; try_send [2; 0 ok | 1 closed | 3 full];
   batch [3; sent]; pop [4; 0; pipe; item] | [4; 2] cancelled; try_pop [5; 0; pipe; item] | [5; 4] none *)
Definition pop_res (b : bool) (q : nat) (x : N) : list N := [if b then 4 else 5; 0; N.of_nat q; x]%N.

(* does the thread hold an Arc<PipeSlot> ? *)
Definition p_holds (pc : ppc) : bool := match pc with PIdle => false | _ => true end.
Definition c_pipe (pc : cpc) : option nat :=
  match pc with CRecv _ q | CDecQ _ q _ | CDecR _ q _ _ | CArm _ q _ _ => Some q | _ => None end.
Definition c_holds (p : nat) (pc : cpc) : bool :=
  match c_pipe pc with Some q => q =? p | None => false end.

(* Weak::upgrade succeeds iff some strong reference exists *)
Definition alive (c : cfg) (s : st) (p : nat) : bool :=
  reg s p || existsb (Nat.eqb p) (ready s) || p_holds (prod s p)
  || existsb (fun i => c_holds p (cons s i)) (seq 0 (nc c)).

(* ---- producer of pipe p ---- *)
Definition pstart (c : cfg) (s : st) (p : nat) : option st :=
  match pprog s p with
  | [] => None
  | o :: r =>
      let s1 := set_pprog s (upd (pprog s) p r) in
      Some (match o with
            | Send x => if alive c s p then pto s1 p (SRes x) else pdone s1 p [1; 1]%N
            | TrySend x => if alive c s p then pto s1 p (TRes x) else pdone s1 p [2; 1]%N
            | TrySendBatch xs =>
                if alive c s p then
                  match xs with [] => pdone s1 p [3; 0]%N | _ :: _ => pto s1 p (BRes xs) end
                else pdone s1 p [3; 0]%N
            end)
  end.

Definition pstep (c : cfg) (s : st) (p : nat) : option st :=
  match prod s p with
  | PIdle => pstart c s p
  | SRes x => Some (pto (add_res s p 1) p (SWrite x))
  | SWrite x => Some (if room c s p then pto (write s p x) p SCount else pto s p (SBlock x false))
  | SBlock x parked =>
      if room c s p then Some (pto (write s p x) p SCount)
      else if parked then None else Some (pto s p (SBlock x true))
  | SCount =>
      let prev := queued s p in
      let s1 := add_q s p 1 in
      Some (if (prev =? 0)%Z then pto s1 p (SArm false) else pdone s1 p [1; 0]%N)
  | SArm parked =>
      if rroom c s then Some (pdone (arm s p) p [1; 0]%N)
      else if parked then None else Some (pto s p (SArm true))
  | TRes x => Some (pto (add_res s p 1) p (TWrite x))
  | TWrite x =>
      Some (if room c s p then pto (write s p x) p TCount else pdone (add_res s p (-1)) p [2; 3]%N)
  | TCount =>
      let prev := queued s p in
      let s1 := add_q s p 1 in
      Some (if (prev =? 0)%Z then pto s1 p TArm else pdone s1 p [2; 0]%N)
  | TArm => if rroom c s then Some (pdone (arm s p) p [2; 0]%N) else None
  | BRes xs =>
      match xs with
      | [] => Some (pdone s p [3; 0]%N)   (* not reachable: pstart filters n = 0 *)
      | x :: r => Some (pto (add_res s p (Z.of_nat (length xs))) p (BWrite x r 0 false))
      end
  | BWrite x r sent hz =>
      Some (if room c s p then pto (write s p x) p (BCount r (S sent) hz)
            else pto s p (BRoll (S (length r)) sent hz))
  | BCount r sent hz =>
      let prev := queued s p in
      let s1 := add_q s p 1 in
      let hz' := hz || (prev =? 0)%Z in
      Some (match r with
            | x :: r' => pto s1 p (BWrite x r' sent hz')
            | [] => if hz' then pto s1 p (BArm sent) else pdone s1 p [3; N.of_nat sent]%N
            end)
  | BRoll k sent hz =>
      let s1 := add_res s p (- Z.of_nat k) in
      Some (if hz then pto s1 p (BArm sent) else pdone s1 p [3; N.of_nat sent]%N)
  | BArm sent => if rroom c s then Some (pdone (arm s p) p [3; N.of_nat sent]%N) else None
  end.

(* dropping the pending send future *)
Definition pcancel (s : st) (p : nat) : option st :=
  match prod s p with
  | SBlock _ true => Some (pdone (add_res s p (-1)) p [1; 2]%N)
  | SArm true => Some (pdone s p [1; 2]%N)       (* the arming token is gone with the future *)
  | _ => None
  end.

(* ---- consumer i ---- *)
(* ready_rx.recv(): first poll *)
Definition crecv_first (s : st) (i : nat) : st :=
  match ready s with
  | q :: rd => cto (set_ready s rd) i (CRecv true q)
  | [] => cto s i CWait
  end.

Definition cstart (s : st) (i : nat) : option st :=
  match cprog s i with
  | [] => None
  | o :: r =>
      let s1 := set_cprog s (upd (cprog s) i r) in
      Some (match o with
            | Pop => crecv_first s1 i
            | TryPop =>
                match ready s1 with
                | q :: rd => cto (set_ready s1 rd) i (CRecv false q)
                | [] => cdone s1 i [5; 4]%N
                end
            end)
  end.

Definition cstep (c : cfg) (s : st) (i : nat) : option st :=
  match cons s i with
  | CIdle => cstart s i
  | CWait => match ready s with q :: rd => Some (cto (set_ready s rd) i (CRecv true q)) | [] => None end
  | CStale => Some (crecv_first s i)
  | CRecv b q =>
      match chan s q with
      | x :: l => Some (cto (set_taken (set_chan s (upd (chan s) q l)) (taken s ++ [(q, x)])) i (CDecQ b q x))
      | [] => Some (if b then cto s i CStale else cdone s i [5; 4]%N)
      end
  | CDecQ b q x => Some (cto (add_q s q (-1)) i (CDecR b q x (queued s q)))
  | CDecR b q x prev =>
      let s1 := add_res s q (-1) in
      Some (if (1 <? prev)%Z then cto s1 i (CArm b q x false) else cdone s1 i (pop_res b q x))
  | CArm b q x parked =>
      if rroom c s then Some (cdone (arm s q) i (pop_res b q x))
      else if b then (if parked then None else Some (cto s i (CArm b q x true)))
      else Some (cdone s i (pop_res b q x))     (* try_pop: `let _ = try_send` - the token is dropped *)
  end.

(* dropping the pending pop future *)
Definition ccancel (s : st) (i : nat) : option st :=
  match cons s i with
  | CWait => Some (cdone s i [4; 2]%N)
  | CArm true _ _ true => Some (cdone s i [4; 2]%N)   (* item and token are gone with the future *)
  | _ => None
  end.

Inductive ev := RunP (p : nat) | RunC (i : nat) | CancelP (p : nat) | CancelC (i : nat) | Dereg (p : nat).

Definition step (c : cfg) (s : st) (e : ev) : option st :=
  match e with
  | RunP p => if p <? np c then pstep c s p else None
  | RunC i => if i <? nc c then cstep c s i else None
  | CancelP p => if p <? np c then pcancel s p else None
  | CancelC i => if i <? nc c then ccancel s i else None
  | Dereg p => Some (set_reg s (upd (reg s) p false))
  end.

(* a schedule is any list of events; an event that is not enabled leaves the state unchanged *)
Definition step' (c : cfg) (s : st) (e : ev) : st := match step c s e with Some s' => s' | None => s end.
Definition run (c : cfg) (es : list ev) (s : st) : st := fold_left (step' c) es s.

Definition init (pp : nat -> list sop) (cp : nat -> list rop) : st :=
  mkSt (fun _ => []) (fun _ => 0%Z) (fun _ => 0%Z) (fun _ => true) []
       (fun _ => PIdle) pp (fun _ => CIdle) cp (fun _ => []) [] [].

(* items taken from pipe p, in order *)
Definition taken_of (p : nat) (s : st) : list N :=
  map snd (filter (fun qx => fst qx =? p) (taken s)).

(* ---- bookkeeping read off the program counters (used by the invariant) ---- *)
(* the producer owes the ready list an entry (it saw prev = 0) *)
Definition p_arm (pc : ppc) : Z :=
  match pc with
  | SArm _ | TArm | BArm _ => 1
  | BWrite _ _ _ true | BCount _ _ true | BRoll _ _ true => 1
  | _ => 0
  end.
(* an item is in the channel but queued has not been incremented for it yet *)
Definition p_unc (pc : ppc) : Z := match pc with SCount | TCount | BCount _ _ _ => 1 | _ => 0 end.
(* reservations of the producer not yet matched by queued *)
Definition p_infl (pc : ppc) : Z :=
  match pc with
  | SWrite _ | SBlock _ _ | SCount | TWrite _ | TCount => 1
  | BWrite _ r _ _ | BCount r _ _ => Z.of_nat (S (length r))
  | BRoll k _ _ => Z.of_nat k
  | _ => 0
  end.
Definition b2z (b : bool) : Z := if b then 1%Z else 0%Z.
(* the consumer holds pipe p's ready token *)
Definition c_tok (p : nat) (pc : cpc) : Z :=
  match pc with
  | CRecv _ q | CDecQ _ q _ | CArm _ q _ _ => b2z (q =? p)
  | CDecR _ q _ prev => b2z ((q =? p) && (1 <? prev)%Z)
  | _ => 0%Z
  end.
(* taken an item, queued not yet decremented *)
Definition c_tns (p : nat) (pc : cpc) : Z := match pc with CDecQ _ q _ => b2z (q =? p) | _ => 0%Z end.
(* queued decremented, reserved not yet *)
Definition c_c3 (p : nat) (pc : cpc) : Z := match pc with CDecR _ q _ _ => b2z (q =? p) | _ => 0%Z end.

Fixpoint csum (f : cpc -> Z) (cs : nat -> cpc) (n : nat) : Z :=
  match n with O => 0%Z | S k => (csum f cs k + f (cs k))%Z end.
Fixpoint cnt (p : nat) (l : list nat) : Z :=
  match l with [] => 0%Z | q :: r => (b2z (Nat.eqb q p) + cnt p r)%Z end.

Definition tokens (c : cfg) (s : st) (p : nat) : Z :=
  (cnt p (ready s) + p_arm (prod s p) + csum (c_tok p) (cons s) (nc c))%Z.

(* ---- enabledness / quiescence (used by the liveness statements) ---- *)
Definition enabled (c : cfg) (s : st) (e : ev) : bool := match step c s e with Some _ => true | None => false end.
Definition c_midop (pc : cpc) : bool := match pc with CIdle | CWait => false | _ => true end.
(* the consumer is inside pop() waiting for a ready entry, or still has receive operations to run *)
Definition c_wants (s : st) (i : nat) : bool :=
  match cons s i with CIdle => negb (match cprog s i with [] => true | _ => false end) | _ => true end.
