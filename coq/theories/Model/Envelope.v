(* Envelope handling of DEALER / REQ / REP / ROUTER as pure frame-list functions, each written after
   the Rust function named in its comment.  A frame is (MORE flag, payload bytes).
   Executable definitions only; proofs are in Proofs/EnvelopeProofs.v. *)
From RZ Require Import Base.Prelude Model.RouterMap.
Local Open Scope N_scope.

Definition frame : Type := bool * list N.
Definition fmore (f : frame) : bool := fst f.
Definition fdata (f : frame) : list N := snd f.
Definition fempty (f : frame) : bool := match snd f with [] => true | _ => false end.   (* size() == 0 *)
Definition nonnil {A} (l : list A) : bool := match l with [] => false | _ => true end.  (* !is_empty() *)
Definition delim (more : bool) : frame := (more, []).                                   (* Msg::new() (+MORE) *)
Definition with_more (f : frame) : frame := (true, snd f).                              (* flags | MORE *)
Definition no_more (f : frame) : frame := (false, snd f).                               (* flags & !MORE *)
Definition datas (fs : list frame) : list (list N) := map snd fs.

(* `if let Some(last) = frames.last_mut() { last.set_flags(flags & !MORE) }` *)
Fixpoint clear_last (fs : list frame) : list frame :=
  match fs with
  | [] => []
  | [f] => [no_more f]
  | f :: t => f :: clear_last t
  end.
(* `for (i, f) in frames.iter_mut().enumerate() { if i < len-1 { |MORE } else { &!MORE } }` *)
Fixpoint norm_flags (fs : list frame) : list frame :=
  match fs with
  | [] => []
  | [f] => [no_more f]
  | f :: t => with_more f :: norm_flags t
  end.

(* ---------------------------------------------------------------- patterns/framing.rs *)
Definition router_auto_encode (fs : list frame) : list frame :=
  match fs with
  | [] => []
  | f0 :: rest => with_more f0 :: delim (nonnil rest) :: rest
  end.
Definition router_auto_decode (fs : list frame) : list frame :=
  match fs with
  | f0 :: _ :: rest => f0 :: rest
  | _ => fs
  end.
Definition dealer_auto_encode (fs : list frame) : list frame := delim (nonnil fs) :: fs.
Definition dealer_auto_decode (fs : list frame) : list frame :=
  match fs with [] => [] | _ :: rest => rest end.
(* FramingLatch::{encode,decode}: table lookup on the mode; manual = no-op *)
Definition latch_encode (router manual : bool) (fs : list frame) : list frame :=
  if manual then fs else if router then router_auto_encode fs else dealer_auto_encode fs.
Definition latch_decode (router manual : bool) (fs : list frame) : list frame :=
  if manual then fs else if router then router_auto_decode fs else dealer_auto_decode fs.

(* ---------------------------------------------------------------- patterns/router.rs, mod strategies *)
(* RouterSendStrategy::prepare_wire_frames(destination_identity_msg, payload_frames, framing) *)
Definition strat_prepare (s : strat) (manual : bool) (idm : frame) (payload : list frame) : list frame :=
  match s with
  | SReq => delim (nonnil payload) :: payload
  | SDealer =>
      if manual then payload
      else latch_encode true manual ((if nonnil payload then with_more idm else idm) :: payload)
  | SRouter => payload
  | SDefault => latch_encode true manual ((if nonnil payload then with_more idm else idm) :: payload)
  end.

(* ---------------------------------------------------------------- dealer_socket.rs *)
(* prepare_full_multipart_send_sequence *)
Definition dealer_prepare (manual : bool) (fs : list frame) : list frame :=
  if manual then norm_flags fs
  else match fs with
       | [] => [delim true; delim false]
       | _ => norm_flags (latch_encode false manual fs)
       end.
(* process_incoming_zmtp_message_for_dealer *)
Definition dealer_process_incoming (manual : bool) (fs : list frame) : list frame :=
  match fs with
  | [] => []
  | f0 :: rest =>
      if manual then fs
      else if negb (fempty f0) then
             (* "Discarding first non-empty frame (assumed identity from ROUTER)" *)
             match rest with
             | [] => []
             | f1 :: rest' => if negb (fempty f1) then rest else rest'
             end
           else rest
  end.

(* ---------------------------------------------------------------- req_socket.rs *)
(* send: MORE cleared, [empty delimiter(MORE), msg] *)
Definition req_send (msg : frame) : list frame := [delim true; no_more msg].
(* process_incoming_zmtp_message_for_req *)
Definition req_process_incoming (fs : list frame) : list frame :=
  match fs with
  | f0 :: rest => if fempty f0 then rest else fs
  | [] => []
  end.
(* recv(): only the first frame of the stripped reply is returned *)
Definition req_recv (fs : list frame) : frame :=
  match req_process_incoming fs with [] => (false, []) | f :: _ => f end.
Definition req_recv_multipart (fs : list frame) : list frame := req_process_incoming fs.

(* ---------------------------------------------------------------- rep_socket.rs *)
(* extract_routing_prefix: prefix = frames up to and including the first empty one *)
Fixpoint rep_split (fs : list frame) : option (list frame * list frame) :=
  match fs with
  | [] => None
  | f :: t => if fempty f then Some ([f], t)
              else match rep_split t with
                   | Some (p, q) => Some (f :: p, q)
                   | None => None
                   end
  end.
Definition rep_extract (fs : list frame) : list frame * list frame :=
  match rep_split fs with Some pq => pq | None => ([], fs) end.
(* send_multipart: empty payload becomes one empty frame; saved prefix replayed; flags normalised *)
Definition rep_send_multipart (prefix payload : list frame) : list frame :=
  norm_flags (prefix ++ match payload with [] => [delim false] | _ => payload end).
Definition rep_send (prefix : list frame) (msg : frame) : list frame :=
  rep_send_multipart prefix [no_more msg].

(* ---------------------------------------------------------------- router_socket.rs, receive side *)
(* process_incoming_zmtp_message: the payload part *)
Definition router_process_incoming (manual : bool) (pt : option ptype) (raw : list frame) : list frame :=
  if manual then raw
  else match pt with
       | Some TReq | Some TDealer =>
           match raw with
           | f0 :: rest => if fempty f0 then rest else raw
           | [] => raw
           end
       | Some TRouter => raw
       | _ =>
           match raw with
           | f0 :: rest => if fempty f0 then rest else raw
           | [] => raw
           end
       end.
(* transform_qitem_to_app_frames *)
Definition router_transform (id : ident) (payload : list frame) : list frame :=
  clear_last ((nonnil payload, id) :: payload).
(* recv_multipart: label = identity recorded for the pipe (placeholder if none) *)
Definition router_recv (manual : bool) (pt : option ptype) (id : ident) (raw : list frame) : list frame :=
  router_transform id (router_process_incoming manual pt raw).

(* ---------------------------------------------------------------- router_socket.rs, send side *)
Inductive conn_state := CGone | CClosed | COk.   (* endpoints.get(uri): missing | send fails ConnectionClosed | fine *)
Inductive send_outcome :=
| SInvalid                                    (* Err(InvalidMessage) *)
| SUnreachable                                (* Err(HostUnreachable) *)
| SDropped                                    (* Ok(()) and nothing reaches any peer *)
| SSent (u : uri) (wire : list frame).        (* Ok(()) and `wire` was handed to the connection of u *)

(* send_multipart step 4 + the flag loop after it: the strategy's frames, then
   `for (i, f) in wire.iter_mut().enumerate() { if i < n-1 { |MORE } else { &!MORE } }`
   (on an empty wire the loop body, and with it `n - 1`, is never evaluated) *)
Definition router_wire (s : strat) (manual : bool) (idm : frame) (payload : list frame) : list frame :=
  norm_flags (strat_prepare s manual idm payload).

(* send_multipart(frames): first frame is the destination identity *)
Definition router_send_multipart (mandatory manual : bool) (conn : uri -> conn_state) (hint : pipe)
           (m : rmap) (frames : list frame) : rmap * send_outcome :=
  match frames with
  | [] => (m, SInvalid)
  | idm :: payload =>
      match snd idm with
      | [] => (m, SInvalid)
      | _ =>
          match fget (snd idm) m with
          | None => (m, if mandatory then SUnreachable else SDropped)
          | Some (u, s, _) =>
              match conn u with
              | CGone => (remove_peer_by_identity hint (snd idm) m, if mandatory then SUnreachable else SDropped)
              | CClosed => (m, if mandatory then SUnreachable else SDropped)
              | COk => (m, SSent u (router_wire s manual idm payload))
              end
          end
      end
  end.

(* send(msg), one part at a time; state = current_send_target (uri of the peer the parts go to) *)
Inductive part_outcome :=
| PInvalid | PUnreachable | PDropped
| PSent (u : uri) (wire : list frame).
Definition router_send_part (mandatory manual : bool) (conn : uri -> conn_state) (hint : pipe)
           (st : rmap * option uri) (f : frame) : (rmap * option uri) * part_outcome :=
  let '(m, cur) := st in
  match cur with
  | Some u =>
      match conn u with
      | CGone => ((m, None), if mandatory then PUnreachable else PDropped)
      | CClosed => ((m, None), if mandatory then PUnreachable else PDropped)
      | COk => ((m, if fmore f then Some u else None), PSent u [f])
      end
  | None =>
      if negb (fmore f) then ((m, None), PInvalid)
      else match snd f with
           | [] => ((m, None), PInvalid)
           | _ =>
               match fget (snd f) m with
               | None => ((m, None), if mandatory then PUnreachable else PDropped)
               | Some (u, _, _) =>
                   match conn u with
                   | CGone => ((remove_peer_by_identity hint (snd f) m, None),
                               if mandatory then PUnreachable else PDropped)
                   | CClosed => ((m, None), if mandatory then PUnreachable else PDropped)
                   | COk => ((m, Some u), PSent u (f :: if manual then [] else [delim true]))
                   end
               end
           end
  end.
Fixpoint router_send_parts (mandatory manual : bool) (conn : uri -> conn_state) (hint : pipe)
         (st : rmap * option uri) (fs : list frame) : (rmap * option uri) * list part_outcome :=
  match fs with
  | [] => (st, [])
  | f :: t =>
      let '(st1, o) := router_send_part mandatory manual conn hint st f in
      let '(st2, os) := router_send_parts mandatory manual conn hint st1 t in
      (st2, o :: os)
  end.
(* frames that reached the connection of u, in order *)
Fixpoint wire_to (u : uri) (os : list part_outcome) : list frame :=
  match os with
  | [] => []
  | PSent v w :: t => if v =? u then w ++ wire_to u t else wire_to u t
  | _ :: t => wire_to u t
  end.

(* ---------------------------------------------------------------- transport view *)
(* On a byte-stream transport the receiver cuts messages after every frame without MORE. *)
Fixpoint wire_split_aux (cur : list frame) (fs : list frame) : list (list frame) :=
  match fs with
  | [] => match cur with [] => [] | _ => [List.rev cur] end
  | f :: t => if fmore f then wire_split_aux (f :: cur) t
              else List.rev (f :: cur) :: wire_split_aux [] t
  end.
Definition wire_split (fs : list frame) : list (list frame) := wire_split_aux [] fs.
(* exactly one message on the wire *)
Definition one_message (fs : list frame) : Prop := wire_split fs = [fs].
(* application supplied MORE on every frame but the last *)
Definition more_ok (fs : list frame) : Prop := norm_flags fs = fs.
