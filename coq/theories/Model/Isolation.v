(* How a SocketCore reacts to what happens on its connections and on the context's event bus:
   the decision table "which inputs make the whole socket shut down", transcribed from
     core/src/socket/core/command_loop.rs     (run_command_loop: the three select! arms)
     core/src/socket/core/event_processor.rs  (process_system_event)
     core/src/socket/core/command_processor.rs(process_socket_command, handle_new_connection_established,
                                               handle_connect_failed_event)
     core/src/socket/core/shutdown.rs         (handle_actor_stopping_event, initiate_core_shutdown)
     core/src/socket/core/pipe_manager.rs     (cleanup_stopped_child_resources,
                                               process_inproc_binding_request_event)
     core/src/transport/tcp.rs                (is_fatal_connect_error)
   Everything that is I/O (pipes, tasks, monitor events) is left out; what is kept is the shutdown
   phase, the endpoint map and the per-URI reconnect state. *)
From RZ Require Import Base.Prelude Model.Backoff.
Local Open Scope N_scope.

Inductive phase := Running | StoppingChildren | Lingering | CleaningPipes | Finished.
Definition phase_eqb (a b : phase) : bool :=
  match a, b with
  | Running, Running | StoppingChildren, StoppingChildren | Lingering, Lingering
  | CleaningPipes, CleaningPipes | Finished, Finished => true
  | _, _ => false
  end.

Inductive ekind := Listener | Session.

(* EndpointInfo: handle_id, endpoint_uri (a number here), type, is_outbound_connection *)
Record endpoint := { e_id : N; e_uri : N; e_kind : ekind; e_outbound : bool }.

(* the ZmqError variants the decisions look at *)
Inductive errclass :=
| ErrProtocol        (* ProtocolViolation: malformed greeting / command / frame *)
| ErrAuth            (* AuthenticationFailure *)
| ErrSecurity        (* SecurityError *)
| ErrIncompatType    (* InvalidSocketType: incompatible peer socket type *)
| ErrReset           (* IoError ConnectionReset / BrokenPipe *)
| ErrClosed          (* ConnectionClosed (EOF) *)
| ErrTimeout
| ErrRefused         (* IoError ConnectionRefused / ConnectionRefused(..) *)
| ErrFatalIo         (* IoError AddrNotAvailable | AddrInUse | InvalidInput | PermissionDenied *)
| ErrInvalidEndpoint (* InvalidEndpoint | UnsupportedTransport *)
| ErrDns
| ErrInternal.

(* transport::tcp::is_fatal_connect_error *)
Definition is_fatal_connect_error (e : errclass) : bool :=
  match e with ErrFatalIo | ErrInvalidEndpoint | ErrDns => true | _ => false end.

(* options read by the handlers *)
Record cfg := { reconnect_ivl : option N; reconnect_ivl_max : option N }.

Record core := {
  ph : phase;
  eps : list endpoint;                     (* CoreState::endpoints *)
  recon : list (N * (N * option N));       (* reconnect_states: uri -> (current_attempts, pending delay) *)
  inproc_names : list N                    (* bound_inproc_names *)
}.

(* what the command loop can receive *)
Inductive input :=
(* --- system events (arm 1) --- *)
| EvContextTerminating
| EvSocketClosing (is_me : bool)
| EvActorStopping (parent_is_me : bool) (child : N) (uri : option N) (err : option errclass)
| EvActorStarted
| EvPeerIdentity (parent_is_me : bool) (conn_uri : option N)   (* handshake completed on a connection *)
| EvConnAttemptFailed (parent_is_me : bool) (uri : N) (err : errclass)
| EvInprocRequest (name : N) (taken compatible mailbox_open : bool) (conn : endpoint)
| EvLagged                                  (* broadcast::RecvError::Lagged *)
| EvBusClosed                               (* broadcast::RecvError::Closed *)
(* --- mailbox commands (arm 2) --- *)
| CmdUserClose | CmdStop
| CmdUserOther                              (* bind/connect/disconnect/unbind/setopt/getopt/monitor: reply to the caller *)
| CmdNewConnSca (conn : endpoint) (sca_mailbox_open : bool)
| CmdNewConnInproc (conn : endpoint) (wellformed : bool)
| CmdNewConnUringNoFeature
| CmdMailboxClosed
(* --- maintenance tick (arm 3) --- *)
| TickReconnectDue (uri : N).               (* is_due: next_attempt_at := None, respawn the connecter *)

(* ---- helpers on the maps ---- *)
Fixpoint remove_by_id (id : N) (l : list endpoint) : list endpoint :=
  match l with
  | [] => []
  | e :: r => if e_id e =? id then r else e :: remove_by_id id r   (* HashMap::remove of the one key found *)
  end.
Definition find_by_id (id : N) (l : list endpoint) : option endpoint := find (fun e => e_id e =? id) l.

Fixpoint recon_get (u : N) (m : list (N * (N * option N))) : option (N * option N) :=
  match m with [] => None | (k, v) :: r => if k =? u then Some v else recon_get u r end.
Fixpoint recon_set (u : N) (v : N * option N) (m : list (N * (N * option N))) : list (N * (N * option N)) :=
  match m with
  | [] => [(u, v)]
  | (k, w) :: r => if k =? u then (k, v) :: r else (k, w) :: recon_set u v r
  end.

(* `reconnect_states.entry(uri).or_default().on_connection_failure(base, max)` with the instants abstracted *)
Definition recon_fail (c : cfg) (u : N) (m : list (N * (N * option N))) : list (N * (N * option N)) :=
  let base := match reconnect_ivl c with Some b => b | None => 100000000 end in          (* unwrap_or(100 ms) *)
  let max := match reconnect_ivl_max c with Some x => x | None => 60000000000 end in     (* unwrap_or(60 s) *)
  let att := match recon_get u m with Some (a, _) => a | None => 0 end in
  recon_set u (u32_sat_add att 1, Some (delay base max att)) m.
Definition recon_success (u : N) (m : list (N * (N * option N))) : list (N * (N * option N)) :=
  match recon_get u m with Some _ => recon_set u (0, None) m | None => m end.

Definition ivl_positive (c : cfg) : bool :=
  match reconnect_ivl c with Some d => 0 <? d | None => false end.

(* shutdown::initiate_core_shutdown, reduced to the phase (Running -> not Running; idempotent) *)
Definition initiate_shutdown (s : core) : core :=
  match ph s with
  | Running => {| ph := Lingering; eps := eps s; recon := recon s; inproc_names := inproc_names s |}
  | _ => s
  end.

(* pipe_manager::cleanup_stopped_child_resources + the Running arm of handle_actor_stopping_event *)
Definition actor_stopping (c : cfg) (s : core) (child : N) (uri : option N) (err : option errclass) : core :=
  let removed := find_by_id child (eps s) in
  let eps' := remove_by_id child (eps s) in
  let should_reconnect :=
    match removed, err with
    | Some e, Some er =>
        (match e_kind e with Session => true | Listener => false end) && e_outbound e
        && ivl_positive c && negb (is_fatal_connect_error er)
    | _, _ => false
    end in
  let recon' :=
    match ph s, should_reconnect, uri with
    | Running, true, Some u => recon_fail c u (recon s)
    | _, _, _ => recon s
    end in
  {| ph := ph s; eps := eps'; recon := recon'; inproc_names := inproc_names s |}.

(* command_processor::handle_connect_failed_event *)
Definition connect_failed (c : cfg) (s : core) (u : N) (er : errclass) : core :=
  if ivl_positive c && negb (is_fatal_connect_error er)
  then {| ph := ph s; eps := eps s; recon := recon_fail c u (recon s); inproc_names := inproc_names s |}
  else s.

(* `endpoints.insert(endpoint_uri, info)`: the map is keyed by URI, an entry with the same URI is replaced *)
Definition remove_by_uri (u : N) (l : list endpoint) : list endpoint :=
  filter (fun e => negb (e_uri e =? u)) l.
Definition add_endpoint (s : core) (e : endpoint) : core :=
  {| ph := ph s; eps := e :: remove_by_uri (e_uri e) (eps s); recon := recon s; inproc_names := inproc_names s |}.

(* One handler call: the new state and whether the handler returned Err (or the loop itself decided
   that the situation is fatal). *)
Definition handle (c : cfg) (s : core) (i : input) : core * bool :=
  let running := phase_eqb (ph s) Running in
  match i with
  | EvContextTerminating => (initiate_shutdown s, false)
  | EvSocketClosing me => if me then (initiate_shutdown s, false) else (s, false)
  | EvActorStopping mine child uri err =>
      if mine then (actor_stopping c s child uri err, false) else (s, false)
  | EvActorStarted => (s, false)
  | EvPeerIdentity mine uri =>
      if mine && running
      then (match uri with
            | Some u => {| ph := ph s; eps := eps s; recon := recon_success u (recon s); inproc_names := inproc_names s |}
            | None => s
            end, false)
      else (s, false)
  | EvConnAttemptFailed mine u er => if mine then (connect_failed c s u er, false) else (s, false)
  | EvInprocRequest name taken compatible mailbox_open conn =>
      if existsb (N.eqb name) (inproc_names s) then
        if running then
          (* process_inproc_binding_request_event(..).await?  -- every Err goes to the loop *)
          if taken then (s, true)                          (* "handshake_request already taken" *)
          else if negb compatible then (s, false)          (* reply Err to the connector, `return Ok(())` (after the fix: commit) *)
          else if negb mailbox_open then (s, true)         (* own mailbox closed *)
          else (s, false)                                  (* NewConnectionEstablished queued to self *)
        else (s, false)                                    (* rejected through the reply channel only *)
      else (s, false)
  | EvLagged => (s, running)                               (* Lagged: shut down if Running *)
  | EvBusClosed => (s, running)
  | CmdUserClose | CmdStop => (initiate_shutdown s, false)
  | CmdUserOther => (s, false)
  | CmdNewConnSca conn alive =>
      if running then
        if alive then (add_endpoint s conn, false)
        else (add_endpoint s conn, true)                   (* "Failed to send ScaInitializePipes" after the insert *)
      else (s, false)
  | CmdNewConnInproc conn wf =>
      if running then (if wf then (add_endpoint s conn, false) else (s, true)) else (s, false)
  | CmdNewConnUringNoFeature => (s, running)
  | CmdMailboxClosed => (s, running)
  | TickReconnectDue u =>
      if running
      then (match recon_get u (recon s) with
            | Some (a, _) => {| ph := ph s; eps := eps s; recon := recon_set u (a, None) (recon s); inproc_names := inproc_names s |}
            | None => s
            end, false)
      else (s, false)
  end.

(* the loop: an Err from a handler initiates the shutdown of the WHOLE socket *)
Definition step (c : cfg) (s : core) (i : input) : core :=
  let '(s', fatal) := handle c s i in
  if fatal then initiate_shutdown s' else s'.

Definition run (c : cfg) (s : core) (is : list input) : core := fold_left (step c) is s.

(* ---- the classification used by the theorems ---- *)

(* inputs that are the user's own request to close this socket / this context *)
Definition is_own_close (i : input) : bool :=
  match i with
  | EvContextTerminating | EvSocketClosing true | CmdUserClose | CmdStop => true
  | _ => false
  end.

(* inputs after which the code keeps the socket Running (from a Running state) *)
Definition keeps_running (names : list N) (i : input) : bool :=
  match i with
  | EvContextTerminating | CmdUserClose | CmdStop => false
  | EvSocketClosing me => negb me
  | EvInprocRequest name taken compatible mailbox_open _ =>
      negb (existsb (N.eqb name) names) || (negb taken && (negb compatible || mailbox_open))
  | EvLagged | EvBusClosed | CmdMailboxClosed | CmdNewConnUringNoFeature => false
  | CmdNewConnSca _ alive => alive
  | CmdNewConnInproc _ wf => wf
  | _ => true
  end.

(* ids of the connections / children that an input reports as failed or stopped *)
Definition stopped_id (i : input) : option N :=
  match i with EvActorStopping true child _ _ => Some child | _ => None end.
(* URIs (re)registered by an input *)
Definition added_uri (i : input) : option N :=
  match i with
  | CmdNewConnSca conn _ | CmdNewConnInproc conn _ => Some (e_uri conn)
  | _ => None
  end.

(* The fault classes named by property C17, as they reach the core of the socket that owns the
   failed connection: a session / connecter / listener child that stopped with an error, or a failed
   connection attempt. (An inproc connect that is refused produces NO input on the connector's core:
   transport/inproc/mod.rs answers the caller directly.) *)
Definition is_conn_fault (i : input) : bool :=
  match i with
  | EvActorStopping true _ _ (Some _) => true
  | EvConnAttemptFailed true _ _ => true
  | _ => false
  end.
