(* Two engines connected by two FIFO byte channels; a schedule delivers some pending bytes in one
   direction at a time. Executable; proofs in Proofs/HandshakeProofs.v. *)
From RZ Require Import Base.Prelude Base.Stepper Model.Codec Model.Engine.
Local Open Scope N_scope.

Definition sends (o : list eout) : bytes :=
  concat (map (fun x => match x with OSend b _ => b | _ => [] end) o).

(* bytes emitted so far by a fresh engine that has received `input` *)
Definition F (cfg : ecfg) (input : bytes) : bytes :=
  sends e_start ++ sends (snd (e_net cfg (e_new 0) input 0)).

Record psys := {
  pa : engine; pb : engine;
  ab : bytes;        (* in flight A -> B *)
  ba : bytes;        (* in flight B -> A *)
  da : bytes;        (* delivered to A so far *)
  db : bytes;        (* delivered to B so far *)
  oa : list eout;    (* everything A has emitted in response to network input *)
  ob : list eout
}.

Definition p_init : psys :=
  {| pa := e_new 0; pb := e_new 0; ab := sends e_start; ba := sends e_start; da := []; db := []; oa := []; ob := [] |}.

Inductive pstep_t := ToB (k : nat) (t : N) | ToA (k : nat) (t : N).

Definition pstep (ca cb : ecfg) (s : psys) (x : pstep_t) : psys :=
  match x with
  | ToB k t =>
      let d := firstn k (ab s) in
      let '(g, o) := e_net cb (pb s) d t in
      {| pa := pa s; pb := g; ab := skipn k (ab s); ba := ba s ++ sends o; da := da s; db := db s ++ d;
         oa := oa s; ob := ob s ++ o |}
  | ToA k t =>
      let d := firstn k (ba s) in
      let '(g, o) := e_net ca (pa s) d t in
      {| pa := g; pb := pb s; ab := ab s ++ sends o; ba := skipn k (ba s); da := da s ++ d; db := db s;
         oa := oa s ++ o; ob := ob s |}
  end.
Definition prun (ca cb : ecfg) (xs : list pstep_t) : psys := fold_left (pstep ca cb) xs p_init.

Definition drained (s : psys) : bool := match ab s, ba s with [], [] => true | _, _ => false end.

(* the eager schedule: deliver everything pending to B, then everything pending to A, ... *)
Fixpoint eager (ca cb : ecfg) (rounds : nat) (s : psys) : psys :=
  match rounds with
  | O => s
  | S r =>
      if drained s then s
      else eager ca cb r (pstep ca cb (pstep ca cb s (ToB (length (ab s)) 0)) (ToA (length (ba (pstep ca cb s (ToB (length (ab s)) 0)))) 0))
  end.

Definition handshakes (o : list eout) : list (option bytes * option bytes) :=
  concat (map (fun x => match x with OHandshake i t => [(i, t)] | _ => [] end) o).
Definition errors (o : list eout) : list errclass :=
  concat (map (fun x => match x with OErr e => [e] | _ => [] end) o).

(* outcome of a pair: (A phase, B phase, A's HandshakeComplete list, B's, A errors, B errors) *)
Definition outcome (s : psys) :=
  (e_phase (g_st (pa s)), e_phase (g_st (pb s)), handshakes (oa s), handshakes (ob s), errors (oa s), errors (ob s)).

(* configurations for the finite grid of the convergence theorem *)
Definition grid_cfg (server : bool) (stype : bytes) (rid : option bytes) (plain : bool)
                    (user pass : option bytes) : ecfg :=
  {| c_server := server; c_stype := stype; c_rid := rid; c_sec_enabled := plain; c_allow_v2 := true;
     c_use_plain := plain; c_use_curve := false; c_use_noise := false; c_plain_user := user; c_plain_pass := pass;
     c_opaque_ok := false; c_hb_ivl := None; c_hb_timeout := None; c_cork := false; c_zc := false; c_maxsz := (-1)%Z |}.

Definition all_types : list bytes := map snd stype_names.

(* ---------- finite grid used by the convergence theorem ---------- *)
Definition obytes_eqb (a b : option bytes) : bool :=
  match a, b with
  | None, None => true
  | Some x, Some y => bytes_eqb x y
  | _, _ => false
  end.
Definition phase_eqb (a b : phase) : bool :=
  match a, b with
  | PGreeting, PGreeting | PSecurity, PSecurity | PReady, PReady | PV2Identity, PV2Identity
  | PData, PData | PClosed, PClosed => true
  | _, _ => false
  end.

(* mechanism cases: 0 NULL/NULL, 1 PLAIN with matching credentials, 2 PLAIN with a wrong password,
   3 connector NULL vs listener PLAIN, 4 connector PLAIN vs listener NULL.  A connects, B listens. *)
Definition grid_pair (tA tB : bytes) (mc : N) (ids : bool) : ecfg * ecfg :=
  let ridA := if ids then Some [7] else None in
  let ridB := if ids then Some (repeat 255 255) else None in
  let u := Some [117] in let p := Some [112] in let bad := Some [113] in
  match mc with
  | 0 => (grid_cfg false tA ridA false None None, grid_cfg true tB ridB false None None)
  | 1 => (grid_cfg false tA ridA true u p, grid_cfg true tB ridB true u p)
  | 2 => (grid_cfg false tA ridA true u bad, grid_cfg true tB ridB true u p)
  | 3 => (grid_cfg false tA ridA false None None, grid_cfg true tB ridB true u p)
  | _ => (grid_cfg false tA ridA true u p, grid_cfg true tB ridB false None None)
  end.

(* ZMTP socket-type pairing (engine.rs validate_v2_compatibility, used for ZMTP/2 and ZMTP/3) *)
Definition types_ok (a b : bytes) : bool :=
  match stype_code a, stype_code b with
  | Some ca, Some cb => v2_compat a cb && v2_compat b ca
  | _, _ => false
  end.

Definition good_outcome (tA tB : bytes) (mc : N) (ids : bool)
  (o : phase * phase * list (option bytes * option bytes) * list (option bytes * option bytes)
       * list errclass * list errclass) : bool :=
  let '(pA, pB, hA, hB, eA, eB) := o in
  let ridA := if ids then Some [7] else None in
  let ridB := if ids then Some (repeat 255 255) else None in
  if (mc <? 2) && types_ok tA tB then
    (* compatible settings: both complete and agree on each other's socket type and identity *)
    phase_eqb pA PData && phase_eqb pB PData &&
    match hA, hB with
    | [(iB, Some t2)], [(iA, Some t1)] =>
        obytes_eqb iB ridB && bytes_eqb t2 tB && obytes_eqb iA ridA && bytes_eqb t1 tA
    | _, _ => false
    end &&
    match eA, eB with [], [] => true | _, _ => false end
  else
    (* incompatible mechanisms / wrong credentials / socket types that do not pair: nobody completes
       and the side that detects it fails *)
    match hA, hB with [], [] => true | _, _ => false end &&
    negb (phase_eqb pA PData) && negb (phase_eqb pB PData) &&
    (phase_eqb pA PClosed || phase_eqb pB PClosed) &&
    match eA, eB with [], [] => false | _, _ => true end.

Definition EAGER_ROUNDS : nat := 8.
Definition check_pair (tA tB : bytes) (mc : N) (ids : bool) : bool :=
  let '(ca, cb) := grid_pair tA tB mc ids in
  let s := eager ca cb EAGER_ROUNDS p_init in
  drained s && good_outcome tA tB mc ids (outcome s).

Definition grid : list (bytes * bytes * N * bool) :=
  concat (map (fun tA => concat (map (fun tB => concat (map (fun mc => [(tA, tB, mc, false); (tA, tB, mc, true)])
                                                          [0; 1; 2; 3; 4])) all_types)) all_types).
Definition check_grid : bool := forallb (fun '(tA, tB, mc, ids) => check_pair tA tB mc ids) grid.

(* ---------- the three socket-type compatibility tables ---------- *)
(* transport/inproc/handshake.rs validate_socket_compatibility (connector, binder), over the 8 SocketType variants *)
Definition inproc_table : list (bytes * bytes) :=
  [(s_PUSH, s_PULL); (s_PULL, s_PUSH); (s_PUB, s_SUB); (s_SUB, s_PUB); (s_REQ, s_REP); (s_REP, s_REQ);
   (s_DEALER, s_ROUTER); (s_ROUTER, s_DEALER); (s_REQ, s_ROUTER); (s_ROUTER, s_REQ); (s_DEALER, s_REP);
   (s_REP, s_DEALER); (s_ROUTER, s_ROUTER)].
Definition compat_inproc (a b : bytes) : bool :=
  existsb (fun '(x, y) => bytes_eqb x a && bytes_eqb y b) inproc_table.
(* ZMTP/2.0: engine.rs validate_v2_compatibility(own, peer code) *)
Definition compat_v2 (own peer : bytes) : bool :=
  match stype_code peer with Some c => v2_compat own c | None => false end.
(* ZMTP/3.x: what the pair of engines does (NULL mechanism, no identities) *)
Definition compat_v3 (a b : bytes) : bool :=
  let '(ca, cb) := grid_pair a b 0 false in
  let s := eager ca cb EAGER_ROUNDS p_init in
  phase_eqb (e_phase (g_st (pa s))) PData && phase_eqb (e_phase (g_st (pb s))) PData.
Definition rzmq_types : list bytes := [s_PUB; s_SUB; s_REQ; s_REP; s_DEALER; s_ROUTER; s_PULL; s_PUSH].
