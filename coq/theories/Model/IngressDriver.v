(* Executable model of `IngressDriver` (core/src/sessionx/ingress_future.rs) moving decoded
   batches from the session's `ingress_buffer` into the socket's per-pipe queue
   (ready_pipe_queue.rs `PipeSlot`), against a concurrent consumer (`recv()` -> `pop`).

   The per-pipe queue is a bounded FIFO `q` of capacity `cap` (its atomics / ready list are
   C08's business); each attempt to enqueue and each consumer pop is ONE atomic step, and the
   machine below lets consumer pops happen between any two of the driver's attempts. The driver
   is a future inside `tokio::select!`: it can be dropped whenever it is not being polled
   (`DCancel`), which drops the in-flight `sender.send(blocked.clone())`.

   Assumption (stated as such in Props/C01.v): a dropped `ReadyPipeSender::send` future has
   either enqueued its item (and then reported Ready in the same poll) or not enqueued it. *)
From RZ Require Import Base.Prelude.

Set Implicit Arguments.

Section Ingress.
Variable T : Type.
Variable weight : T -> nat.     (* batch.len() *)

(* where the driver is inside `poll` *)
Inductive ipc :=
| POut                          (* not being polled *)
| PResolve                      (* about to re-poll the stored `fut` *)
| PBulk (total : nat)           (* inside try_send_batch's `while let Some(item) = items.pop_front()` *)
| PBlocked (total : nat)        (* items remain: `sender.send(blocked.clone())`, first attempt (try_send) *)
| PBlocked2 (total : nat).      (* second attempt: `slot.tx.send(returned)` polled once *)

Inductive ires := RNone | RPending | RReady (n : nat).

Record istate := {
  i_ib : list T;                (* ingress_buffer *)
  i_q : list T;                 (* per-pipe queue contents, oldest first *)
  i_fut : bool;                 (* self.fut is Some: an async send of a CLONE of the front is suspended *)
  i_pc : ipc;
  i_last : ires;                (* what the last completed poll returned *)
  i_delivered : list T;         (* what the consumer has popped so far *)
  i_entered : list T            (* GHOST: every batch the read arm queued, in order *)
}.

Definition i_new : istate :=
  {| i_ib := []; i_q := []; i_fut := false; i_pc := POut; i_last := RNone; i_delivered := []; i_entered := [] |}.

Inductive iev :=
| DEnq (x : T)                  (* the read arm queued a decoded batch (only while no driver exists) *)
| DBegin                        (* select! polls the driver future (creating it if necessary) *)
| DStep                         (* the driver performs its next queue attempt *)
| DCancel                       (* select! completed through another arm: the driver is dropped *)
| DPop.                         (* the application's recv() pops the per-pipe queue *)

Definition finish (s : istate) (ib q : list T) (fut : bool) (total : nat) : istate :=
  (* `if total_sent > 0 { Ready(Ok(total_sent)) } else { Pending }`; a Ready driver is dropped by
     select!, and with it a still pending `fut` *)
  if 0 <? total
  then {| i_ib := ib; i_q := q; i_fut := false; i_pc := POut; i_last := RReady total; i_delivered := i_delivered s; i_entered := i_entered s |}
  else {| i_ib := ib; i_q := q; i_fut := fut; i_pc := POut; i_last := RPending; i_delivered := i_delivered s; i_entered := i_entered s |}.

Definition i_step (cap : nat) (has_sender : bool) (s : istate) (e : iev) : istate :=
  let room := length (i_q s) <? cap in
  match e with
  | DEnq x =>
      match i_pc s with
      | POut => if i_fut s then s else
                {| i_ib := i_ib s ++ [x]; i_q := i_q s; i_fut := false; i_pc := POut; i_last := i_last s;
                   i_delivered := i_delivered s; i_entered := i_entered s ++ [x] |}
      | _ => s
      end
  | DPop =>
      match i_q s with
      | [] => s
      | x :: r => {| i_ib := i_ib s; i_q := r; i_fut := i_fut s; i_pc := i_pc s; i_last := i_last s;
                     i_delivered := i_delivered s ++ [x]; i_entered := i_entered s |}
      end
  | DCancel =>
      match i_pc s with
      | POut => {| i_ib := i_ib s; i_q := i_q s; i_fut := false; i_pc := POut; i_last := i_last s;
                   i_delivered := i_delivered s; i_entered := i_entered s |}
      | _ => s
      end
  | DBegin =>
      match i_pc s, i_ib s with
      | POut, _ :: _ =>       (* select! guard: `if !ingress_buffer.is_empty()` *)
          {| i_ib := i_ib s; i_q := i_q s; i_fut := i_fut s;
             i_pc := if i_fut s then PResolve else PBulk 0; i_last := i_last s; i_delivered := i_delivered s; i_entered := i_entered s |}
      | _, _ => s
      end
  | DStep =>
      match i_pc s with
      | POut => s
      | PResolve =>
          (* `if let Some(fut) = this.fut.as_mut() { match fut.poll(cx) {` *)
          match i_ib s with
          | [] => s   (* unreachable: fut is only Some while the front exists (pop_front().unwrap()) *)
          | x :: r =>
              if room then  (* Ready(Ok(())): fut = None; pop_front; total_sent += batch.len(); fall through *)
                {| i_ib := r; i_q := i_q s ++ [x]; i_fut := false; i_pc := PBulk (weight x); i_last := i_last s;
                   i_delivered := i_delivered s; i_entered := i_entered s |}
              else          (* Pending => return Poll::Pending *)
                {| i_ib := i_ib s; i_q := i_q s; i_fut := true; i_pc := POut; i_last := RPending;
                   i_delivered := i_delivered s; i_entered := i_entered s |}
          end
      | PBulk t =>
          if has_sender then
            match i_ib s with
            | [] => finish s [] (i_q s) false t
            | x :: r =>
                if room then
                  {| i_ib := r; i_q := i_q s ++ [x]; i_fut := false; i_pc := PBulk (t + weight x);
                     i_last := i_last s; i_delivered := i_delivered s; i_entered := i_entered s |}
                else        (* Full(returned): push_front(returned); break; then `front()` is Some *)
                  {| i_ib := i_ib s; i_q := i_q s; i_fut := false; i_pc := PBlocked t; i_last := i_last s;
                     i_delivered := i_delivered s; i_entered := i_entered s |}
            end
          else  (* None => for batch in ingress_buffer.drain(..) { total_sent += batch.len() } *)
            finish s [] (i_q s) false (t + fold_right (fun x a => weight x + a) 0 (i_ib s))
      | PBlocked t =>
          match i_ib s with
          | [] => finish s [] (i_q s) false t
          | x :: r =>
              if room then  (* the clone went in at once: Ready(Ok) => fut = None; pop_front; total += len *)
                finish s r (i_q s ++ [x]) false (t + weight x)
              else
                {| i_ib := i_ib s; i_q := i_q s; i_fut := true; i_pc := PBlocked2 t; i_last := i_last s;
                   i_delivered := i_delivered s; i_entered := i_entered s |}
          end
      | PBlocked2 t =>
          match i_ib s with
          | [] => finish s [] (i_q s) false t
          | x :: r =>
              if room then finish s r (i_q s ++ [x]) false (t + weight x)
              else finish s (i_ib s) (i_q s) true t   (* Pending => Ready(total) if total > 0 else Pending *)
          end
      end
  end.

Definition i_run (cap : nat) (hs : bool) (s : istate) (evs : list iev) : istate :=
  fold_left (i_step cap hs) evs s.

(* one whole poll without consumer interference: DBegin then DStep until POut (fuel-bounded) *)
Fixpoint steps (cap : nat) (hs : bool) (fuel : nat) (s : istate) : istate :=
  match fuel with
  | O => s
  | S f => match i_pc s with POut => s | _ => steps cap hs f (i_step cap hs s DStep) end
  end.
Definition i_poll (cap : nat) (hs : bool) (s : istate) : istate :=
  steps cap hs (length (i_ib s) + 4) (i_step cap hs s DBegin).

End Ingress.
