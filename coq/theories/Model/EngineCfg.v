(* What a session's engine is configured with, as derived from the socket's options:
     impl From<&SocketOptions> for ZmtpEngineConfig (options.rs:378-470), calculate_required_slot_size (:854).
   Executable definitions only; the copy table, the security flags and the slot-size constants are regenerated
   from the source on every run (vp/extract_options.py) and proved equal in Proofs/OptionsCheck.v. *)
From RZ Require Import Base.Prelude Model.Engine Model.Options.
Local Open Scope N_scope.

Definition bool_of (v : oval) : bool := match v with VB b => b | _ => false end.

(* `security_enabled`: PLAIN, NOISE_XX or CURVE switched on (all three features are compiled in: full-linux) *)
Definition sec_fields : list field := [F_plain_options_enabled; F_noise_xx_options_enabled; F_curve_options_enabled].
Definition security_enabled (o : opts) : bool := existsb (fun f => bool_of (o f)) sec_fields.

(* calculate_required_slot_size: worst-case framed size of `count` frames carrying `target` payload bytes, rounded up
   to the page size (sysconf(_SC_PAGESIZE); 4096 on the check machine - recorded in the trusted base) *)
Definition LONG_FROM : N := 256.       (* payloads of 256 bytes or more take the 9-byte header *)
Definition LONG_OVERHEAD : N := 9.
Definition SHORT_OVERHEAD : N := 2.
Definition slot_raw (target count : N) : N :=
  let ml := N.min count (target / LONG_FROM) in
  target + ml * LONG_OVERHEAD + (count - ml) * SHORT_OVERHEAD.       (* saturating_sub *)
Definition round_up (page x : N) : N := ((x + page - 1) / page) * page.
Definition slot_size (page target count : N) : N := round_up page (slot_raw target count).

(* one frame on the wire (Model/Codec.v rfc_frame: 2-byte header up to 255, 9-byte header from 256) *)
Definition framed (n : N) : N := n + (if n <? LONG_FROM then SHORT_OVERHEAD else LONG_OVERHEAD).
Definition sum (l : list N) : N := fold_right N.add 0 l.

(* sndbatch_bytes: clamped to the io_uring send-buffer size when zero-copy sends are on *)
Definition URING_SND_BUFFER : N := 65536.
Definition sndbatch_bytes_eff (o : opts) : N :=
  let b := usize_of (o F_sndbatch_bytes) in
  if bool_of (o F_io_uring_send_zerocopy) then (if URING_SND_BUFFER <? b then URING_SND_BUFFER else b) else b.
Definition sndbatch_physical (page : N) (o : opts) : N :=
  slot_size page (sndbatch_bytes_eff o) (usize_of (o F_sndbatch_count)).

(* the fields that are plain copies: config field <- option field *)
Inductive cfgf :=
  | CF_routing_id | CF_allow_zmtp2 | CF_heartbeat_ivl | CF_heartbeat_timeout | CF_handshake_timeout | CF_rcvtimeo
  | CF_sndtimeo | CF_use_send_zerocopy | CF_use_recv_multishot | CF_use_cork | CF_use_noise_xx
  | CF_noise_xx_local_sk_bytes_for_engine | CF_noise_xx_remote_pk_bytes_for_engine | CF_use_curve
  | CF_curve_local_secret_key | CF_curve_remote_public_key | CF_use_plain | CF_plain_username_for_engine
  | CF_plain_password_for_engine | CF_max_msg_size | CF_sndhwm | CF_rcvhwm | CF_sndbatch_count | CF_rcvbatch_count
  | CF_rcvbatch_bytes | CF_rcvbuf | CF_zc_send_threshold.
Scheme Equality for cfgf.

Definition cfg_copies : list (cfgf * field) :=
  [ (CF_routing_id, F_routing_id); (CF_allow_zmtp2, F_allow_zmtp2); (CF_heartbeat_ivl, F_heartbeat_ivl);
    (CF_heartbeat_timeout, F_heartbeat_timeout); (CF_handshake_timeout, F_handshake_ivl);
    (CF_rcvtimeo, F_rcvtimeo); (CF_sndtimeo, F_sndtimeo);
    (CF_use_send_zerocopy, F_io_uring_send_zerocopy); (CF_use_recv_multishot, F_io_uring_recv_multishot);
    (CF_use_cork, F_tcp_cork); (CF_use_noise_xx, F_noise_xx_options_enabled);
    (CF_noise_xx_local_sk_bytes_for_engine, F_noise_xx_options_static_secret_key_bytes);
    (CF_noise_xx_remote_pk_bytes_for_engine, F_noise_xx_options_remote_static_public_key_bytes);
    (CF_use_curve, F_curve_options_enabled); (CF_curve_local_secret_key, F_curve_options_secret_key);
    (CF_curve_remote_public_key, F_curve_options_server_public_key); (CF_use_plain, F_plain_options_enabled);
    (CF_plain_username_for_engine, F_plain_options_username); (CF_plain_password_for_engine, F_plain_options_password);
    (CF_max_msg_size, F_maxmsgsize); (CF_sndhwm, F_sndhwm); (CF_rcvhwm, F_rcvhwm);
    (CF_sndbatch_count, F_sndbatch_count); (CF_rcvbatch_count, F_rcvbatch_count); (CF_rcvbatch_bytes, F_rcvbatch_bytes);
    (CF_rcvbuf, F_rcvbuf); (CF_zc_send_threshold, F_io_uring_zc_send_threshold) ].
Definition cfg_get (o : opts) (c : cfgf) : option oval :=
  match find (fun '(c', _) => cfgf_beq c' c) cfg_copies with Some (_, f) => Some (o f) | None => None end.

(* what the engine / session models read *)
Definition cfg_heartbeat_ivl (o : opts) : option N := match cfg_get o CF_heartbeat_ivl with Some v => as_timeo v | None => None end.
Definition cfg_heartbeat_timeout (o : opts) : option N := match cfg_get o CF_heartbeat_timeout with Some v => as_timeo v | None => None end.
Definition cfg_handshake_timeout (o : opts) : option N := match cfg_get o CF_handshake_timeout with Some v => as_timeo v | None => None end.
Definition cfg_max_msg_size (o : opts) : Z := match cfg_get o CF_max_msg_size with Some (VZ z) => z | _ => (-1)%Z end.
Definition cfg_allow_zmtp2 (o : opts) : bool := match cfg_get o CF_allow_zmtp2 with Some v => bool_of v | None => false end.
