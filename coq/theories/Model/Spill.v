(* The ingress delivery path of the io_uring connection handler
   (core/src/io_uring_backend/zmtp_handler.rs): `apply_engine_output`'s DeliverMessage arm,
   `try_drain_spillover`, `attach_ingress`, `resume_ingress`, `should_throttle_reads`, and the
   early return of `prepare_sqes` once the handler is closing.

   The socket's ingress pipe is not modelled: every call of `PipeMessageSender::try_send_sync`
   is answered by an oracle value (`TOk` = accepted, `TFull` = rcvhwm reached, `TClosed` =
   receiver dropped).  The model is a list transducer: each event returns the messages that
   entered the pipe during that event. *)
From RZ Require Import Base.Prelude.

Inductive tres := TOk | TFull | TClosed.

Section Spill.
Context {A : Type}.

Record spill := {
  s_attached : bool;      (* ingress_sender.is_some() *)
  s_q : list A;           (* spillover: VecDeque, head = front *)
  s_thr : bool;           (* is_throttled *)
  s_closing : bool;       (* is_closing *)
  s_deadline : bool;      (* close_deadline.is_some() *)
  s_errclose : bool       (* ops.initiate_close_due_to_error raised by the delivery path *)
}.

Definition sp_init : spill :=
  {| s_attached := false; s_q := []; s_thr := false; s_closing := false; s_deadline := false; s_errclose := false |}.

Definition set_q (s : spill) (q : list A) (thr : bool) : spill :=
  {| s_attached := s_attached s; s_q := q; s_thr := thr; s_closing := s_closing s;
     s_deadline := s_deadline s; s_errclose := s_errclose s |}.

(* AppAction::DeliverMessage(batch); `r` answers try_send_sync if (and only if) it is called *)
Definition sp_deliver (s : spill) (m : A) (r : tres) : spill * list A :=
  if s_attached s then
    match s_q s with
    | _ :: _ => (set_q s (s_q s ++ [m]) true, [])            (* FIFO guard: queue behind the stash *)
    | [] =>
        match r with
        | TOk => (set_q s [] false, [m])
        | TFull => (set_q s [m] true, [])
        | TClosed =>
            ({| s_attached := true; s_q := []; s_thr := s_thr s; s_closing := s_closing s;
                s_deadline := s_deadline s; s_errclose := true |}, [])   (* batch dropped, close requested *)
        end
    end
  else (set_q s (s_q s ++ [m]) true, []).                    (* sender not attached yet: stash *)

(* the `while let Some(batch) = spillover.pop_front()` loop; an exhausted oracle list answers Full *)
Fixpoint drain_loop (q : list A) (rs : list tres) : list A * option bool * list A :=
  (* returns (remaining queue, Some thr = store into is_throttled / None = flag untouched, emitted) *)
  match q with
  | [] => ([], Some false, [])
  | m :: q' =>
      match rs with
      | TOk :: rs' => let '(q2, t, e) := drain_loop q' rs' in (q2, t, m :: e)
      | TFull :: _ | [] => (m :: q', Some true, [])          (* push_front(returned), stay throttled *)
      | TClosed :: _ => ([], None, [])                        (* receiver dropped: discard remainder *)
      end
  end.

Definition sp_drain (s : spill) (rs : list tres) : spill * list A :=
  match s_q s with
  | [] => (s, [])
  | _ =>
      if s_attached s then
        let '(q2, t, e) := drain_loop (s_q s) rs in
        (set_q s q2 (match t with Some b => b | None => s_thr s end), e)
      else (s, [])
  end.

(* should_throttle_reads (the PUSH/PUB special case is outside: those sockets receive no data);
   `drained` answers sender.is_drained() *)
Definition sp_throttle (s : spill) (drained : bool) : spill * bool :=
  if s_closing s then (s, true) else
  match s_q s with
  | _ :: _ => (s, true)
  | [] =>
      if s_thr s then
        if s_attached s && drained then (set_q s [] false, false) else (s, true)
      else (s, false)
  end.

(* prepare_sqes: `if self.is_closing && self.close_deadline.is_none() { return }` precedes the drain;
   after the drain `if !self.is_closing && !self.should_throttle_reads()` evaluates the throttle test,
   which may clear the flag *)
Definition sp_prepare (s : spill) (rs : list tres) (drained : bool) : spill * list A :=
  if s_closing s && negb (s_deadline s) then (s, []) else
  let '(s1, o) := sp_drain s rs in
  (if s_closing s1 then s1 else fst (sp_throttle s1 drained), o).

Inductive sev :=
  | SDeliver (m : A) (r : tres)
  | SAttach
  | SResume
  | SPrepare (rs : list tres) (drained : bool)
  | SPoll (drained : bool)
  | SEof.                       (* process_ring_read_bytes(empty) / PeerError / close_initiated: is_closing := true *)

Definition sp_step (s : spill) (e : sev) : spill * list A :=
  match e with
  | SDeliver m r => sp_deliver s m r
  | SAttach => ({| s_attached := true; s_q := s_q s; s_thr := false; s_closing := s_closing s;
                   s_deadline := s_deadline s; s_errclose := s_errclose s |}, [])
  | SResume => (set_q s (s_q s) false, [])
  | SPrepare rs d => sp_prepare s rs d
  | SPoll d => (fst (sp_throttle s d), [])
  | SEof => ({| s_attached := s_attached s; s_q := s_q s; s_thr := s_thr s; s_closing := true;
                s_deadline := s_deadline s; s_errclose := s_errclose s |}, [])
  end.

Fixpoint sp_run (s : spill) (es : list sev) : spill * list A :=
  match es with
  | [] => (s, [])
  | e :: rest =>
      let '(s1, o1) := sp_step s e in
      let '(s2, o2) := sp_run s1 rest in (s2, o1 ++ o2)
  end.

(* what the engine handed to the delivery path *)
Fixpoint sp_delivered (es : list sev) : list A :=
  match es with
  | [] => []
  | SDeliver m _ :: rest => m :: sp_delivered rest
  | _ :: rest => sp_delivered rest
  end.

Definition res_open (r : tres) : bool := match r with TClosed => false | _ => true end.
Definition ev_open (e : sev) : bool :=
  match e with
  | SDeliver _ r => res_open r
  | SPrepare rs _ => forallb res_open rs
  | _ => true
  end.
Definition ev_not_eof (e : sev) : bool := match e with SEof => false | _ => true end.

(* the mutation "deliver spill-over LIFO" as a model variant, used to show that the FIFO theorem
   is not vacuous: same as sp_deliver but stashing at the FRONT *)
Definition sp_deliver_lifo (s : spill) (m : A) (r : tres) : spill * list A :=
  if s_attached s then
    match s_q s with
    | _ :: _ => (set_q s (m :: s_q s) true, [])
    | [] => sp_deliver s m r
    end
  else (set_q s (m :: s_q s) true, []).

End Spill.
Arguments spill : clear implicits.
Arguments sev : clear implicits.
