(* One direction of an established tcp/ipc connection, sender socket -> receiver socket, as the
   composition of the stage models:

     send() accepted -> core->session pipe -> batch assembly (Batch) -> frame_batch
       (Codec.enc_contiguous) -> EgressBuffer + EgressDriver (Egress) -> byte stream ->
       reads of arbitrary sizes -> receiving engine (Engine.e_net) -> ingress_buffer ->
       IngressDriver + per-pipe queue (IngressDriver) -> recv().

   The byte stream (TCP connection / unix socket) and the core->session pipe are FIFO and
   reliable: they are modelled as lists to which the writer appends and from which the reader
   takes a prefix (trusted; DESIGN section 7). Every activation of every stage is one event of the
   schedule; schedules are arbitrary lists of events. Heartbeats (priority chunks) are not part
   of this composition; Egress.v's own theorem covers them. *)
From RZ Require Import Base.Prelude Base.Stepper Model.Codec Model.Engine Model.Actor
  Model.Batch Model.Egress Model.IngressDriver.
Local Open Scope N_scope.

Definition msg := list frame.

(* wire_size: msgs.iter().map(|m| m.size() + 9).sum() *)
Definition wsize (m : msg) : N := fold_right (fun f a => len (f_payload f) + 9 + a) 0 m.
Definition mweight (m : msg) : nat := length m.

Record pstate := {
  p_carry : list msg;
  p_pipe : list msg;
  p_eg : egress;
  p_wire : bytes;                     (* bytes written and not yet read *)
  p_eng : engine;                     (* the receiver's engine (Data phase) *)
  p_in : istate msg;                  (* ingress_buffer, driver, per-pipe queue, delivered *)
  (* ghost history *)
  p_accepted : list msg;
  p_batches : list (list msg);
  p_written : bytes;
  p_reads : list (bytes * N)
}.

Inductive pev :=
| PSend (m : msg)                     (* send() returned Ok: the message is in the pipe *)
| PCycle                              (* one activation of the batch assembly *)
| PWrite (n : nat)                    (* poll_write_vectored accepted n bytes *)
| PRead (k : nat) (t : N)             (* the read arm got k bytes at time t *)
| PIn (e : iev msg).                  (* DBegin / DStep / DCancel / DPop of the ingress side *)

Definition enq_all (cap : nat) (s : istate msg) (ms : list msg) : istate msg :=
  fold_left (fun s m => i_step mweight cap true s (DEnq m)) ms s.

Definition p_step (bc : bcfg) (ec : ecfg) (cap : nat) (s : pstate) (e : pev) : pstate :=
  match e with
  | PSend m =>
      {| p_carry := p_carry s; p_pipe := p_pipe s ++ [m]; p_eg := p_eg s; p_wire := p_wire s; p_eng := p_eng s;
         p_in := p_in s; p_accepted := p_accepted s ++ [m]; p_batches := p_batches s; p_written := p_written s;
         p_reads := p_reads s |}
  | PCycle =>
      let '(b, (c', p')) := assemble wsize bc (N.to_nat (e_msgs (p_eg s))) (p_carry s, p_pipe s) in
      match b with
      | [] => s
      | _ =>
        {| p_carry := c'; p_pipe := p';
           p_eg := eg_push (p_eg s) (enc_contiguous b) (N.of_nat (length b));   (* frame_batch; push(bytes, len) *)
           p_wire := p_wire s; p_eng := p_eng s; p_in := p_in s; p_accepted := p_accepted s;
           p_batches := p_batches s ++ [b]; p_written := p_written s; p_reads := p_reads s |}
      end
  | PWrite n =>
      let n' := Nat.min n (length (eg_flat (p_eg s))) in
      let d := firstn n' (eg_flat (p_eg s)) in
      {| p_carry := p_carry s; p_pipe := p_pipe s; p_eg := fst (eg_advance (p_eg s) n');
         p_wire := p_wire s ++ d; p_eng := p_eng s; p_in := p_in s; p_accepted := p_accepted s;
         p_batches := p_batches s; p_written := p_written s ++ d; p_reads := p_reads s |}
  | PRead k t =>
      (* select! guard `if ingress_buffer.is_empty()`; no IngressDriver exists in that iteration *)
      match i_ib (p_in s), i_pc (p_in s) with
      | [], POut =>
          let d := firstn k (p_wire s) in
          let '(g', o) := e_net ec (p_eng s) d t in
          {| p_carry := p_carry s; p_pipe := p_pipe s; p_eg := p_eg s; p_wire := skipn k (p_wire s);
             p_eng := g';
             p_in := enq_all cap (i_step mweight cap true (p_in s) (DCancel msg)) (deliveries o);
             p_accepted := p_accepted s; p_batches := p_batches s; p_written := p_written s;
             p_reads := p_reads s ++ [(d, t)] |}
      | _, _ => s
      end
  | PIn (DEnq _) => s
  | PIn e =>
      {| p_carry := p_carry s; p_pipe := p_pipe s; p_eg := p_eg s; p_wire := p_wire s; p_eng := p_eng s;
         p_in := i_step mweight cap true (p_in s) e; p_accepted := p_accepted s; p_batches := p_batches s;
         p_written := p_written s; p_reads := p_reads s |}
  end.

Definition p_init (g0 : engine) : pstate :=
  {| p_carry := []; p_pipe := []; p_eg := eg_new; p_wire := []; p_eng := g0; p_in := i_new msg;
     p_accepted := []; p_batches := []; p_written := []; p_reads := [] |}.

Definition p_run (bc : bcfg) (ec : ecfg) (cap : nat) (g0 : engine) (evs : list pev) : pstate :=
  fold_left (p_step bc ec cap) evs (p_init g0).

(* nothing is in flight anywhere *)
Definition p_quiescent (s : pstate) : Prop :=
  p_carry s = [] /\ p_pipe s = [] /\ e_chunks (p_eg s) = [] /\ p_wire s = [] /\
  i_ib (p_in s) = [] /\ i_q (p_in s) = [].

Definition p_received (s : pstate) : list msg := i_delivered (p_in s).

(* ---- a concrete schedule used as the non-vacuity example of Props/C01.v: a multi-frame and a
   long message, small ceilings, partial writes, odd read sizes, a blocked and cancelled driver ---- *)
Definition ex_cfg : ecfg :=
  {| c_server := true; c_stype := []; c_rid := None; c_sec_enabled := false; c_allow_v2 := true;
     c_use_plain := false; c_use_curve := false; c_use_noise := false; c_plain_user := None;
     c_plain_pass := None; c_opaque_ok := false; c_hb_ivl := None; c_hb_timeout := None; c_cork := false;
     c_zc := false; c_maxsz := (-1)%Z |}.
Definition ex_g0 : engine :=
  {| g_st := set_phase e_init PData; g_acc := [];
     g_hb := {| h_last_activity := 0; h_last_ping := None; h_waiting := false |} |}.
Definition ex_m1 : msg := [data_frame true [1; 2]; data_frame false (fill 300 5)].
Definition ex_m2 : msg := [data_frame false [7]].
Definition ex_m3 : msg := [data_frame false (fill 40 9)].
Definition ex_bc : bcfg := {| b_sndhwm := 2; b_count := 2; b_logical := 64; b_physical := 320 |}.
Definition ex_evs : list pev :=
  [PSend ex_m1; PSend ex_m2; PSend ex_m3; PCycle; PWrite 100; PCycle; PRead 7 0; PWrite 1000; PRead 150 0;
   PCycle; PRead 1000 0; PIn (DBegin msg); PIn (DStep msg); PIn (DStep msg); PIn (DStep msg); PIn (DStep msg);
   PIn (DCancel msg); PIn (DPop msg); PWrite 1000; PIn (DBegin msg); PIn (DStep msg); PIn (DStep msg);
   PIn (DPop msg); PRead 1000 0; PIn (DBegin msg); PIn (DStep msg); PIn (DStep msg); PIn (DPop msg)].
