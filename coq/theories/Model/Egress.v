(* Executable model of `EgressBuffer` (core/src/sessionx/egress_buffer.rs) and of what
   `EgressDriver` (egress_driver.rs) does with it: a queue of chunks with a write offset into the
   head chunk. Written after the code, method by method.

   `c_prio` is a GHOST tag (true for chunks inserted by push_priority); the Rust struct does not
   store it and no model function branches on it - it only lets the theorems talk about "data
   chunks" and "priority chunks". Counters that are only statistics (the peak counters) are omitted;
   `total_bytes` is kept because `total_pending_bytes()` is observable. *)
From RZ Require Import Base.Prelude.
Local Open Scope N_scope.

Record chunk := { c_data : bytes; c_count : N; c_prio : bool }.

Record egress := {
  e_chunks : list chunk;       (* VecDeque<(Bytes, usize)> *)
  e_off : nat;                 (* write_offset *)
  e_total : N;                 (* total_bytes *)
  e_msgs : N                   (* message_count *)
}.

Definition eg_new : egress := {| e_chunks := []; e_off := 0; e_total := 0; e_msgs := 0 |}.

Definition blen (b : bytes) : N := N.of_nat (length b).

(* push(data, msg_count) *)
Definition eg_push (e : egress) (data : bytes) (cnt : N) : egress :=
  match data with
  | [] => e                                                   (* if data.is_empty() { return } *)
  | _ => {| e_chunks := e_chunks e ++ [{| c_data := data; c_count := cnt; c_prio := false |}];
            e_off := e_off e;
            e_total := e_total e + blen data;
            e_msgs := e_msgs e + cnt |}
  end.

(* VecDeque::insert(1, x): panics when index > len, i.e. when the deque is empty *)
Definition insert1 (x : chunk) (l : list chunk) : option (list chunk) :=
  match l with
  | [] => None
  | h :: t => Some (h :: x :: t)
  end.

Inductive eres := EOk (e : egress) | EPanic.

(* push_priority(data) *)
Definition eg_push_priority (e : egress) (data : bytes) : eres :=
  match data with
  | [] => EOk e
  | _ =>
    let x := {| c_data := data; c_count := 0; c_prio := true |} in
    let tot := e_total e + blen data in
    if (0 <? e_off e)%nat then
      match insert1 x (e_chunks e) with
      | Some l => EOk {| e_chunks := l; e_off := e_off e; e_total := tot; e_msgs := e_msgs e |}
      | None => EPanic
      end
    else EOk {| e_chunks := x :: e_chunks e; e_off := e_off e; e_total := tot; e_msgs := e_msgs e |}
  end.

(* the un-written bytes in queue order: current_slice() followed by the remaining chunks; this is
   what fill_slices() offers to poll_write_vectored (possibly truncated to max_iovecs slices) *)
Definition eg_flat (e : egress) : bytes :=
  skipn (e_off e) (concat (map c_data (e_chunks e))).

(* advance(n): the loop. Returns (chunks', off', message_count', popped_messages).
   `front.len() - self.write_offset` cannot underflow while off < len (invariant, proved);
   it is modelled with truncated subtraction like every other nat here. *)
Fixpoint adv_loop (chunks : list chunk) (off : nat) (msgs : N) (popped : N) (n : nat)
  : list chunk * nat * N * N :=
  match n with
  | O => (chunks, off, msgs, popped)                            (* while n > 0 *)
  | S _ =>
    match chunks with
    | [] => (chunks, off, msgs, popped)                          (* else { break } *)
    | front :: rest =>
        let remaining := (length (c_data front) - off)%nat in
        if (remaining <=? n)%nat then
          adv_loop rest 0 (msgs - c_count front) (popped + c_count front) (n - remaining)
        else (chunks, (off + n)%nat, msgs, popped)
    end
  end.

Definition eg_advance (e : egress) (n : nat) : egress * N :=
  let '(ch, off, msgs, popped) := adv_loop (e_chunks e) (e_off e) (e_msgs e) 0 n in
  ({| e_chunks := ch; e_off := off; e_total := e_total e - N.of_nat n; e_msgs := msgs |}, popped).

(* Operations of the session on its egress buffer. `EWrite n`: one successful
   poll_write_vectored that accepted n bytes of what was offered (the transport never accepts
   more than offered; n is clipped to the offer), followed by advance(n). *)
Inductive eop := EPush (data : bytes) (cnt : N) | EPrio (data : bytes) | EWrite (n : nat).

(* state * bytes handed to the transport so far; None = panic *)
Definition eg_step (s : egress * bytes) (op : eop) : option (egress * bytes) :=
  let '(e, out) := s in
  match op with
  | EPush d c => Some (eg_push e d c, out)
  | EPrio d => match eg_push_priority e d with EOk e' => Some (e', out) | EPanic => None end
  | EWrite n =>
      let n' := Nat.min n (length (eg_flat e)) in
      Some (fst (eg_advance e n'), out ++ firstn n' (eg_flat e))
  end.

Fixpoint eg_run (s : egress * bytes) (ops : list eop) : option (egress * bytes) :=
  match ops with
  | [] => Some s
  | op :: rest => match eg_step s op with Some s' => eg_run s' rest | None => None end
  end.

(* ghost history: the data chunks pushed, in push order (empty pushes are dropped by the code) *)
Fixpoint pushed_data (ops : list eop) : list bytes :=
  match ops with
  | [] => []
  | EPush [] _ :: rest => pushed_data rest
  | EPush d _ :: rest => d :: pushed_data rest
  | _ :: rest => pushed_data rest
  end.
Fixpoint pushed_prio (ops : list eop) : list bytes :=
  match ops with
  | [] => []
  | EPrio [] :: rest => pushed_prio rest
  | EPrio d :: rest => d :: pushed_prio rest
  | _ :: rest => pushed_prio rest
  end.

Definition data_of (l : list chunk) : list bytes := map c_data (filter (fun c => negb (c_prio c)) l).
Definition prio_of (l : list chunk) : list bytes := map c_data (filter c_prio l).
Definition count_of (l : list chunk) : N := fold_right (fun c a => c_count c + a) 0 l.
