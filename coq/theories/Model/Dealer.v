(* Executable model of DEALER's outgoing path (core/src/socket/dealer_socket.rs):
   `send_logical_message` (direct `route_message`, else `queue_message_or_error`), the
   `pending_outgoing_queue`, the two `tokio::sync::Notify` objects and the
   `DealerSocketOutgoingProcessor` task, for ONE peer connection.

   Notify is modelled as a one-permit flag: `notify_one()` sets it (or wakes the parked processor,
   which is the same thing at this granularity), a wake-up consumes it. `routed` is the sequence
   handed to the connection's pipe (what the rest of the pipeline then carries in order).
   While a peer is connected `route_message` succeeds (a full pipe makes it block in
   `send_multipart_owned`, not fail), so a connected send is a direct hand-over.

   `serialised = false` is the code. `serialised = true` is a repair sketch (not in rzmq): sends
   go through the queue whenever it is non-empty and the processor drains the queue completely,
   pop and hand-over being one step (queue lock held across the route). *)
From RZ Require Import Base.Prelude.

Set Implicit Arguments.

Section Dealer.
Variable M : Type.

Record dstate := {
  d_pend : list M;          (* pending_outgoing_queue *)
  d_conn : bool;            (* outgoing_orchestrator.has_connections() *)
  d_qa : bool;              (* permit on queue_activity_notifier *)
  d_pa : bool;              (* permit on peer_availability_notifier *)
  d_routed : list M;        (* handed to the pipe, in order *)
  d_accepted : list M       (* GHOST: messages for which send() returned Ok, in order *)
}.

Definition d_new : dstate :=
  {| d_pend := []; d_conn := false; d_qa := false; d_pa := false; d_routed := []; d_accepted := [] |}.

Inductive dev :=
| DSend (m : M)             (* application send() *)
| DAttach                   (* pipe_attached: add_connection; notify_one on both notifiers *)
| DWakeQ                    (* processor wakes on queue_activity_notifier *)
| DWakeP.                   (* processor wakes on peer_availability_notifier *)

(* processor body after a wake-up:
   `if !queue.is_empty() && has_connections() { pop_front }` then route_message *)
Definition proc_body (serialised : bool) (s : dstate) : dstate :=
  if d_conn s then
    match d_pend s with
    | [] => s
    | m :: r =>
        if serialised
        then {| d_pend := []; d_conn := true; d_qa := d_qa s; d_pa := d_pa s;
                d_routed := d_routed s ++ m :: r; d_accepted := d_accepted s |}
        else {| d_pend := r; d_conn := true; d_qa := d_qa s; d_pa := d_pa s;
                d_routed := d_routed s ++ [m]; d_accepted := d_accepted s |}
    end
  else s.

Definition d_step (serialised : bool) (hwm : nat) (s : dstate) (e : dev) : dstate :=
  match e with
  | DSend m =>
      if d_conn s && negb (serialised && negb (match d_pend s with [] => true | _ => false end)) then
        (* route_message(..) => Ok(()) *)
        {| d_pend := d_pend s; d_conn := d_conn s; d_qa := d_qa s; d_pa := d_pa s;
           d_routed := d_routed s ++ [m]; d_accepted := d_accepted s ++ [m] |}
      else if length (d_pend s) <? hwm then
        (* Err(ResourceLimitReached) => queue_message_or_error: push_back; notify_one; Ok(()) *)
        {| d_pend := d_pend s ++ [m]; d_conn := d_conn s; d_qa := true; d_pa := d_pa s;
           d_routed := d_routed s; d_accepted := d_accepted s ++ [m] |}
      else s                                       (* refused (timeout / would block): not accepted *)
  | DAttach =>
      {| d_pend := d_pend s; d_conn := true; d_qa := true; d_pa := true;
         d_routed := d_routed s; d_accepted := d_accepted s |}
  | DWakeQ =>
      if d_qa s then
        proc_body serialised {| d_pend := d_pend s; d_conn := d_conn s; d_qa := false; d_pa := d_pa s;
                                d_routed := d_routed s; d_accepted := d_accepted s |}
      else s
  | DWakeP =>
      if d_pa s then
        proc_body serialised {| d_pend := d_pend s; d_conn := d_conn s; d_qa := d_qa s; d_pa := false;
                                d_routed := d_routed s; d_accepted := d_accepted s |}
      else s
  end.

Definition d_run (serialised : bool) (hwm : nat) (evs : list dev) : dstate :=
  fold_left (d_step serialised hwm) evs d_new.

(* nothing left to do: connected and the processor has no wake-up pending *)
Definition d_quiescent (s : dstate) : bool := d_conn s && negb (d_qa s) && negb (d_pa s).

(* every send happens after the connection is established *)
Fixpoint sends_after_attach (seen_attach : bool) (evs : list dev) : bool :=
  match evs with
  | [] => true
  | DSend _ :: r => seen_attach && sends_after_attach seen_attach r
  | DAttach :: r => sends_after_attach true r
  | _ :: r => sends_after_attach seen_attach r
  end.

End Dealer.
