(* The ROUTER receive side: identity label and the identity-finalization gate, written after
   core/src/socket/router_socket.rs (pipe_to_identity_shared_map, pipe_finalized, held_ingress,
   finalize_pipe, hold_pending_batch, take_finalized_held, recv_logical_finalized,
   process_incoming_zmtp_message's label lookup, pipe_attached, update_peer_identity, pipe_detached).
   The recv loop is cut where other tasks can interleave: (1) take_finalized_held under the held lock,
   (2) pop from the ingress queue + `pipe_finalized.contains_key` + deliver-or-hold.
   Executable definitions only; proofs are in Proofs/RouterGateProofs.v. *)
From RZ Require Import Base.Prelude Model.RouterMap.
Local Open Scope N_scope.

Section Gate.
  Variable B : Type.                       (* a complete raw batch (one logical message) *)
  Variable placeholder : pipe -> ident.    (* pipe_id_to_placeholder_identity *)

  Record gate := {
    g_shared : list (pipe * ident);        (* pipe_to_identity_shared_map *)
    g_final : list pipe;                   (* pipe_finalized (key set) *)
    g_held : list (pipe * B);              (* held_ingress: per pipe FIFO = the sub-list of that pipe *)
    g_queue : list (pipe * B);             (* ingress engine: per pipe FIFO = the sub-list of that pipe *)
    g_window : bool;                       (* recv is between take_finalized_held()=None and the pop *)
    g_out : list (pipe * ident * B)        (* ghost: what recv returned so far, with the label applied *)
  }.
  Definition gate0 : gate :=
    {| g_shared := []; g_final := []; g_held := []; g_queue := []; g_window := false; g_out := [] |}.

  Definition is_final (p : pipe) (g : gate) : bool := existsb (N.eqb p) (g_final g).
  (* label applied by process_incoming_zmtp_message *)
  Definition label (p : pipe) (g : gate) : ident :=
    match aget N.eqb p (g_shared g) with Some i => i | None => placeholder p end.
  Definition of_pipe {A} (p : pipe) (l : list (pipe * A)) : list A :=
    map snd (filter (fun x => fst x =? p) l).
  (* remove the first element of pipe p *)
  Fixpoint take_first {A} (p : pipe) (l : list (pipe * A)) : option A * list (pipe * A) :=
    match l with
    | [] => (None, [])
    | (q, b) :: t => if q =? p then (Some b, t)
                     else let '(r, t') := take_first p t in (r, (q, b) :: t')
    end.
  Definition drop_pipe {A} (p : pipe) (l : list (pipe * A)) : list (pipe * A) :=
    filter (fun x => negb (fst x =? p)) l.
  (* pipes that have held batches and are finalized, in list order *)
  Definition releasable (g : gate) : list pipe :=
    filter (fun p => is_final p g) (map fst (g_held g)).

  Inductive gev :=
  | GAttach (p : pipe) (ido : option ident) (inproc : bool)   (* pipe_attached (endpoint known) *)
  | GAnnounce (p : pipe) (ido : option ident) (known : bool)  (* update_peer_identity; known = endpoint uri found *)
  | GDetach (p : pipe)                                        (* pipe_detached *)
  | GArrive (p : pipe) (b : B)                                (* session actor pushes a complete batch *)
  | GCheck (first : pipe)                                     (* recv: take_finalized_held; `first` = HashMap key order oracle *)
  | GPop (p : pipe).                                          (* recv: queue pop yields a batch of pipe p; deliver or hold *)

  Definition set_window (w : bool) (g : gate) : gate :=
    {| g_shared := g_shared g; g_final := g_final g; g_held := g_held g; g_queue := g_queue g;
       g_window := w; g_out := g_out g |}.

  Definition gstep (g : gate) (e : gev) : gate :=
    match e with
    | GAttach p ido inproc =>
        let real := match ido with Some (_ :: _) => true | _ => false end in
        {| g_shared := aset N.eqb p (eff_id placeholder p ido) (g_shared g);
           g_final := if real || inproc then p :: g_final g else g_final g;
           g_held := g_held g; g_queue := g_queue g; g_window := g_window g; g_out := g_out g |}
    | GAnnounce p ido known =>
        {| g_shared := if known then aset N.eqb p (eff_id placeholder p ido) (g_shared g) else g_shared g;
           g_final := p :: g_final g;
           g_held := g_held g; g_queue := g_queue g; g_window := g_window g; g_out := g_out g |}
    | GDetach p =>
        {| g_shared := aremove N.eqb p (g_shared g);
           g_final := filter (fun q => negb (q =? p)) (g_final g);
           g_held := drop_pipe p (g_held g); g_queue := drop_pipe p (g_queue g);
           g_window := g_window g; g_out := g_out g |}
    | GArrive p b =>
        {| g_shared := g_shared g; g_final := g_final g; g_held := g_held g;
           g_queue := g_queue g ++ [(p, b)]; g_window := g_window g; g_out := g_out g |}
    | GCheck first =>
        match releasable g with
        | [] => set_window true g
        | q :: _ =>
            let target := if existsb (N.eqb first) (releasable g) then first else q in
            match take_first target (g_held g) with
            | (Some b, held') =>
                {| g_shared := g_shared g; g_final := g_final g; g_held := held'; g_queue := g_queue g;
                   g_window := false; g_out := g_out g ++ [(target, label target g, b)] |}
            | (None, _) => set_window false g
            end
        end
    | GPop p =>
        if g_window g then
          match take_first p (g_queue g) with
          | (Some b, queue') =>
              if is_final p g then
                {| g_shared := g_shared g; g_final := g_final g; g_held := g_held g; g_queue := queue';
                   g_window := false; g_out := g_out g ++ [(p, label p g, b)] |}
              else
                {| g_shared := g_shared g; g_final := g_final g; g_held := g_held g ++ [(p, b)]; g_queue := queue';
                   g_window := false; g_out := g_out g |}
          | (None, _) => g        (* nothing queued for p: this pop did not happen *)
          end
        else g                    (* pop only happens after a failed take_finalized_held *)
    end.
  Definition grun_from (g : gate) (h : list gev) : gate := fold_left gstep h g.
  Definition grun (h : list gev) : gate := grun_from gate0 h.

  (* schedules in which no finalization lands between a failed take_finalized_held and the pop
     (the two are then one atomic iteration of the recv loop) *)
  Fixpoint no_final_in_window (g : gate) (h : list gev) : bool :=
    match h with
    | [] => true
    | e :: t =>
        (match e with
         | GAttach _ _ _ | GAnnounce _ _ _ => negb (g_window g)
         | _ => true
         end) && no_final_in_window (gstep g e) t
    end.
  (* life cycle of a pipe p whose peer's effective identity is id: an attach either carries id (inproc,
     io-uring post-handshake attach) or is the pre-handshake attach with a placeholder of a not yet finalized
     pipe (tcp/ipc); every identity event carries id and finds the endpoint *)
  Fixpoint handshaking_pipe (p : pipe) (id : ident) (g : gate) (h : list gev) : bool :=
    match h with
    | [] => true
    | e :: t =>
        (match e with
         | GAttach q ido inproc =>
             negb (q =? p) || ident_eqb (eff_id placeholder p ido) id
             || (negb (is_final p g) && negb inproc && match ido with Some (_ :: _) => false | _ => true end)
         | GAnnounce q ido known => negb (q =? p) || (known && ident_eqb (eff_id placeholder p ido) id)
         | _ => true
         end) && handshaking_pipe p id (gstep g e) t
    end.

  Definition arrivals (p : pipe) (h : list gev) : list B :=
    flat_map (fun e => match e with GArrive q b => if q =? p then [b] else [] | _ => [] end) h.
  Definition detach_free (p : pipe) (h : list gev) : bool :=
    forallb (fun e => match e with GDetach q => negb (q =? p) | _ => true end) h.
  Definition delivered (p : pipe) (g : gate) : list B :=
    map snd (filter (fun x => fst (fst x) =? p) (g_out g)).
End Gate.
Arguments g_shared {B} g.
Arguments g_final {B} g.
Arguments g_held {B} g.
Arguments g_queue {B} g.
Arguments g_window {B} g.
Arguments g_out {B} g.
Arguments GAttach {B} p ido inproc.
Arguments GAnnounce {B} p ido known.
Arguments GDetach {B} p.
Arguments GArrive {B} p b.
Arguments GCheck {B} first.
Arguments GPop {B} p.
