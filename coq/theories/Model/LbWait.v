(* Small-step model of LoadBalancer::wait_for_connection racing with add_connection /
   remove_connection / deactivate (load_balancer.rs:110-121).

     loop {
       if deactivated { return Err }            -- step Check (1/2)
       if !peers.is_empty() { return Ok }        -- step Check (2/2; the lock is taken and released here)
       notify.notified()                         -- step Create: the Notified future is created
                 .await;                         -- step Await : completes iff notify_waiters() was called
     }                                                           after the future was created

   tokio::sync::Notify semantics used: `notify_waiters()` wakes exactly the `Notified` futures that
   already exist (a future remembers the value of the notify_waiters call counter at creation and is
   ready as soon as the counter differs); no permit is stored for futures created later.
   add_connection pushes and calls notify_waiters() under the balancer lock (one atomic step);
   deactivate stores the flag and calls notify_waiters().

   `w_fixed = true` is the repaired order (create the future, then check, then await). *)
From RZ Require Import Base.Prelude Model.Balancer.

Inductive wpc :=
| PIdle                 (* wait_for_connection not called yet *)
| PCheck                (* code order: about to check *)
| PCreate               (* code order: check said "empty", future not created yet *)
| PFCreate              (* repaired order: about to create the future *)
| PFCheck (seen : nat)  (* repaired order: future exists, about to check *)
| PAwait (seen : nat)   (* parked on the future created when the counter was `seen` *)
| PDone (ok : bool).

Record wst := mkW { w_bal : bal; w_calls : nat; w_deact : bool; w_fixed : bool; w_pc : wpc }.

Definition w0 (fixed : bool) : wst := mkW bal0 0 false fixed PIdle.

Definition set_pc (s : wst) (p : wpc) : wst := mkW (w_bal s) (w_calls s) (w_deact s) (w_fixed s) p.

Definition check (s : wst) (if_empty : wpc) : wpc :=
  if w_deact s then PDone false
  else match peers (w_bal s) with [] => if_empty | _ :: _ => PDone true end.

(* one step of the waiting task; None = it cannot move (parked, or finished) *)
Definition wstep (s : wst) : option wst :=
  match w_pc s with
  | PIdle => Some (set_pc s (if w_fixed s then PFCreate else PCheck))
  | PCheck => Some (set_pc s (check s PCreate))
  | PCreate => Some (set_pc s (PAwait (w_calls s)))
  | PFCreate => Some (set_pc s (PFCheck (w_calls s)))
  | PFCheck seen => Some (set_pc s (check s (PAwait seen)))
  | PAwait seen =>
      if w_calls s =? seen then None
      else Some (set_pc s (if w_fixed s then PFCreate else PCheck))
  | PDone _ => None
  end.

Inductive eop := EAdd (u : N) | ERemove (u : N) | EDeact.

(* one (atomic) operation of another task *)
Definition estep (s : wst) (e : eop) : wst :=
  match e with
  | EAdd u => mkW (add u (w_bal s)) (if add_notifies u (w_bal s) then S (w_calls s) else w_calls s)
                  (w_deact s) (w_fixed s) (w_pc s)
  | ERemove u => mkW (remove u (w_bal s)) (w_calls s) (w_deact s) (w_fixed s) (w_pc s)
  | EDeact => mkW (w_bal s) (S (w_calls s)) true (w_fixed s) (w_pc s)
  end.

(* a schedule: which task moves next *)
Inductive sch := SW | SE (e : eop).

Definition sstep (s : wst) (x : sch) : wst :=
  match x with
  | SW => match wstep s with Some s' => s' | None => s end
  | SE e => estep s e
  end.
Definition srun (xs : list sch) (s : wst) : wst := fold_left sstep xs s.

(* the waiter sleeps although a peer is connected, and nothing short of a further
   notify_waiters() (another *new* peer, or deactivate) will ever wake it *)
Definition lost (s : wst) : bool :=
  match w_pc s with
  | PAwait seen => (w_calls s =? seen) && negb (length (peers (w_bal s)) =? 0)
  | _ => false
  end.

(* run the waiting task until it parks or finishes (it needs at most a few steps) *)
Fixpoint settle (k : nat) (s : wst) : wst :=
  match k with
  | O => s
  | S k' => match wstep s with Some s' => settle k' s' | None => s end
  end.

(* One poll of the future as the harness drives it (single thread). Repaired order (the code after
   the fix: commit): the future is created, the checks run, and the schedule point sits between the
   check and the await. `gap` = operations of other tasks that land at that point (first time it is
   reached in this poll). Returns (schedule point reached?, state after the poll). *)
Definition poll_gap (s : wst) (gap : list eop) : bool * wst :=
  let started :=
    match w_pc s with
    | PIdle => Some (srun [SW; SW; SW] s)
    | PAwait _ => match wstep s with Some s' => Some (srun [SW; SW] s') | None => None end
    | _ => None
    end in
  match started with
  | None => (false, s)
  | Some s1 =>
      match w_pc s1 with
      | PAwait _ => (true, settle 8 (srun (map SE gap) s1))
      | _ => (false, s1)
      end
  end.
Definition poll (s : wst) (gap : list eop) : wst := snd (poll_gap s gap).

(* ---------- several tasks waiting at once (sends from several tasks on one peerless socket) ----------
   The waiters share the balancer, the notify_waiters call counter and the deactivated flag; each has its own
   program counter. notify_waiters() wakes EVERY Notified future that exists (that is what distinguishes it from
   notify_one(), which hands one permit to one waiter). *)
Record mwst := mkMW { m_bal : bal; m_calls : nat; m_deact : bool; m_pcs : list wpc }.
Definition mw0 (n : nat) : mwst := mkMW bal0 0 false (repeat PIdle n).
(* waiter i seen as a single-waiter system (repaired order) *)
Definition mproj (m : mwst) (i : nat) : wst := mkW (m_bal m) (m_calls m) (m_deact m) true (nth i (m_pcs m) (PDone true)).
Fixpoint set_nth {A} (i : nat) (x : A) (l : list A) : list A :=
  match l, i with
  | [], _ => []
  | _ :: t, O => x :: t
  | h :: t, S j => h :: set_nth j x t
  end.
Inductive msch := MW (i : nat) | ME (e : eop).
Definition mstep (m : mwst) (x : msch) : mwst :=
  match x with
  | MW i =>
      if (i <? length (m_pcs m))%nat then
        match wstep (mproj m i) with
        | Some s' => mkMW (m_bal m) (m_calls m) (m_deact m) (set_nth i (w_pc s') (m_pcs m))
        | None => m
        end
      else m
  | ME e => let s' := estep (mproj m 0) e in mkMW (w_bal s') (w_calls s') (w_deact s') (m_pcs m)
  end.
Definition mrun (xs : list msch) (m : mwst) : mwst := fold_left mstep xs m.
(* what waiter i sees of a schedule *)
Definition msched_of (i : nat) (x : msch) : list sch :=
  match x with
  | MW j => if (j =? i)%nat then [SW] else []
  | ME e => [SE e]
  end.
