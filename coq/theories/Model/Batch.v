(* Executable model of the session's outbound batch assembly,
   core/src/sessionx/actor.rs, operational loop of SessionConnectionActorX::run_loop:
     - carry-over branch   (top of the loop, `if !core_carryover.is_empty() && ... {`)
     - receive-from-core branch (select! arm `maybe_msgs_from_core = ...recv_from_core()`).
   Written branch-for-branch after the code. A message is any value with a wire size
   (`wire_size = sum over frames of size()+9`); sizes are `N` (a `usize` sum of byte counts of
   objects that exist in memory cannot wrap, so no overflow outcome is modelled).

   State that survives between cycles: `carry` (core_carryover) and `pipe` (the messages queued in
   the core->session channel, oldest first). `try_recv_batch_from_core(out, needed)` appends
   `firstn needed pipe` (fibre mpsc: FIFO; Section-free assumption stated in Props/C01.v). *)
From RZ Require Import Base.Prelude.

Set Implicit Arguments.

Section Batch.
Variable M : Type.
Variable wsize : M -> N.     (* wire_size(&msgs) *)

Record bcfg := {
  b_sndhwm : nat;             (* config().sndhwm.max(1) is applied by the caller: see max_count_* *)
  b_count : nat;              (* config().sndbatch_count *)
  b_logical : N;              (* config().sndbatch_bytes *)
  b_physical : N              (* config().sndbatch_bytes_physical *)
}.

Definition sum_sizes (l : list M) : N := fold_right (fun m a => wsize m + a)%N 0%N l.

(* `let sndhwm = config().sndhwm.max(1)` *)
Definition hwm_of (c : bcfg) : nat := Nat.max (b_sndhwm c) 1.
(* carry branch: hwm_budget = sndhwm.saturating_sub(pending).max(1); max_count = count.min(budget)
   recv  branch: hwm_budget = sndhwm.saturating_sub(pending);        max_count = count.min(budget.max(1)) *)
Definition max_count_of (c : bcfg) (pending : nat) : nat :=
  Nat.min (b_count c) (Nat.max (hwm_of c - pending) 1).

(* gate of both branches (tokio write path): egress_buffer.pending_messages() < sndhwm *)
Definition gate_open (c : bcfg) (pending : nat) : bool := pending <? hwm_of c.

(* `while !core_carryover.is_empty() && outgoing_batch.len() < max_count { ... }`
   returns (batch, total_bytes, carry') ; `batch` is passed in accumulated order *)
Fixpoint drain_carry (max_count : nat) (max_bytes : N) (batch : list M) (total : N) (carry : list M)
  : list M * N * list M :=
  match carry with
  | [] => (batch, total, [])
  | next :: rest =>
      if length batch <? max_count then
        let size := wsize next in
        if (max_bytes <? total + size)%N && negb (match batch with [] => true | _ => false end)
        then (batch, total, next :: rest)                        (* push_front; break *)
        else drain_carry max_count max_bytes (batch ++ [next]) (total + size)%N rest
      else (batch, total, next :: rest)
  end.

(* the overflow scan `let mut i = start_len; while i < outgoing_batch.len() { ... }`:
   `kept` are the messages at indices < i, `pulled` the not yet scanned tail.
   Returns (kept', total', overflow) where overflow = outgoing_batch.drain(i..) *)
Fixpoint scan_overflow (max_bytes : N) (kept : list M) (total : N) (pulled : list M)
  : list M * N * list M :=
  match pulled with
  | [] => (kept, total, [])
  | m :: rest =>
      let size := wsize m in
      if (max_bytes <? total + size)%N && (0 <? length kept)       (* `&& i > 0` *)
      then (kept, total, m :: rest)
      else scan_overflow max_bytes (kept ++ [m]) (total + size)%N rest
  end.

(* the top-up block shared by both branches, from `let start_len = outgoing_batch.len();`
   `avg_default` is what `avg_size` is when start_len = 0 (32768 in the carry branch; the recv
   branch divides by start_len = 1). Returns (batch', overflow, pipe'). *)
Definition top_up (c : bcfg) (max_count : nat) (batch : list M) (total : N) (pipe : list M)
  : list M * list M * list M :=
  let max_bytes := b_physical c in
  let start_len := length batch in
  if (start_len <? max_count) && (total <? b_logical c)%N then
    let avg_size := if 0 <? start_len then (total / N.of_nat start_len)%N else 32768%N in
    let remaining := (max_bytes - total)%N in                      (* saturating_sub *)
    let needed_by_bytes := (if 0 <? avg_size then remaining / avg_size else 0)%N in
    let needed := N.to_nat (N.min (N.of_nat (max_count - start_len)) needed_by_bytes) in
    if 0 <? needed then
      let pulled := firstn needed pipe in
      let pipe' := skipn needed pipe in
      (* `if drained > 0 { scan }`: with drained = 0 the scan is the identity *)
      let '(kept, _, overflow) := scan_overflow max_bytes batch total pulled in
      (kept, overflow, pipe')
    else (batch, [], pipe)
  else (batch, [], pipe).

(* carry-over branch. `guard_topup = true` is the code (`if core_carryover.is_empty() && start_len <
   max_count && ...`: top up from the pipe only once the carry-over is fully drained);
   `guard_topup = false` is the code at the pinned commit, which lacked the `is_empty()` conjunct
   (kept for the legacy refutation). Result: (batch, carry', pipe'). *)
Definition assemble_carry_gen (guard_topup : bool) (c : bcfg) (pending : nat) (carry pipe : list M)
  : list M * list M * list M :=
  let max_count := max_count_of c pending in
  let '(batch, total, carry1) := drain_carry max_count (b_physical c) [] 0%N carry in
  if guard_topup && negb (match carry1 with [] => true | _ => false end)
  then (batch, carry1, pipe)
  else
    let '(batch', overflow, pipe') := top_up c max_count batch total pipe in
    (batch', carry1 ++ overflow, pipe').                          (* core_carryover.extend(...) *)

Definition assemble_carry := assemble_carry_gen true.

(* receive-from-core branch: `first` is what recv_from_core() returned (head of the pipe);
   the arm is only enabled when core_carryover is empty. *)
Definition assemble_recv (c : bcfg) (pending : nat) (first : M) (pipe : list M)
  : list M * list M * list M :=
  let max_count := max_count_of c pending in
  let '(batch', overflow, pipe') := top_up c max_count [first] (wsize first) pipe in
  (batch', overflow, pipe').

(* One activation of the assembly with the guards of the loop: the carry-over branch runs when
   carry is non-empty and the gate is open; the recv arm when carry is empty, the gate is open and
   the pipe holds a message. Otherwise nothing happens. (batch = [] means "no batch emitted".) *)
Definition assemble_gen (g : bool) (c : bcfg) (pending : nat) (st : list M * list M)
  : list M * (list M * list M) :=
  let '(carry, pipe) := st in
  if gate_open c pending then
    match carry with
    | _ :: _ => let '(b, c', p') := assemble_carry_gen g c pending carry pipe in (b, (c', p'))
    | [] => match pipe with
            | first :: rest => let '(b, c', p') := assemble_recv c pending first rest in (b, (c', p'))
            | [] => ([], st)
            end
    end
  else ([], st).
Definition assemble := assemble_gen true.
Definition assemble_legacy := assemble_gen false.

(* pinned commit only: does this activation top the batch up from the pipe while older messages
   stay in carry-over? (the failing class of the order equation for `assemble_legacy`) *)
Definition topup_over_carry (c : bcfg) (pending : nat) (st : list M * list M) : bool :=
  let '(carry, pipe) := st in
  gate_open c pending &&
  match carry with
  | [] => false
  | _ =>
    let max_count := max_count_of c pending in
    let '(batch, total, carry1) := drain_carry max_count (b_physical c) [] 0%N carry in
    match carry1 with
    | [] => false
    | _ => let '(batch', overflow, pipe') := top_up c max_count batch total pipe in
           negb (length pipe' =? length pipe)
    end
  end.

(* A run: events are application sends that were accepted into the pipe, and activations of the
   assembly with the egress backlog `pending` observed at that moment (any value: it depends on
   the writer's progress). Output: the batches in emission order. *)
Inductive bev := BSend (m : M) | BCycle (pending : nat).

Fixpoint run_gen (g : bool) (c : bcfg) (st : list M * list M) (evs : list bev) : list (list M) * (list M * list M) :=
  match evs with
  | [] => ([], st)
  | BSend m :: rest => run_gen g c (fst st, snd st ++ [m]) rest
  | BCycle p :: rest =>
      let '(b, st') := assemble_gen g c p st in
      let '(bs, st'') := run_gen g c st' rest in
      ((match b with [] => bs | _ => b :: bs end), st'')
  end.
Definition run := run_gen true.
Definition run_legacy := run_gen false.

Fixpoint accepted (evs : list bev) : list M :=
  match evs with
  | [] => []
  | BSend m :: rest => m :: accepted rest
  | BCycle _ :: rest => accepted rest
  end.

(* pinned commit only: no activation of the run is in the failing class *)
Fixpoint run_clean (c : bcfg) (st : list M * list M) (evs : list bev) : bool :=
  match evs with
  | [] => true
  | BSend m :: rest => run_clean c (fst st, snd st ++ [m]) rest
  | BCycle p :: rest =>
      negb (topup_over_carry c p st) && run_clean c (snd (assemble_legacy c p st)) rest
  end.

End Batch.
