(* Executable model of rzmq's ZMTP framing code, one Gallina function per Rust entry point.
   Sources: core/src/protocol/zmtp/codec.rs, manual_parser.rs, security/framer/encoder.rs,
   security/framer/mod.rs (NullFramer), protocol/zmtp/engine.rs (frame_batch_vectored). *)
From RZ Require Import Base.Prelude Base.Stepper.
Local Open Scope N_scope.

Record frame := { f_more : bool; f_cmd : bool; f_payload : bytes }.

Definition FLAG_MORE : N := 1.
Definition FLAG_LONG : N := 2.
Definition FLAG_COMMAND : N := 4.
Definition U64 : N := 18446744073709551616.   (* 2^64 *)
Definition CODEC_MAX_FRAME_SIZE : N := 67108864. (* 64 MiB *)
Definition FLAT_THRESHOLD : N := 16384.

(* big-endian integer <-> bytes (BufMut::put_u64 / u64::from_be_bytes / get_u16 / get_u32) *)
Fixpoint be_bytes (k : nat) (x : N) : bytes :=
  match k with
  | O => []
  | S k' => be_bytes k' (x / 256) ++ [x mod 256]
  end.
Definition be_val (l : bytes) : N := fold_left (fun acc b => acc * 256 + b) l 0.

Definition len (l : bytes) : N := N.of_nat (length l).

(* flags byte as the code computes it: `flags |= MORE; flags |= COMMAND; flags |= LONG` *)
Definition flags_byte (more cmd long : bool) : N :=
  N.lor (N.lor (if more then FLAG_MORE else 0) (if cmd then FLAG_COMMAND else 0))
        (if long then FLAG_LONG else 0).

(* ---- encoders ---- *)

(* ZmtpCodec::encode_header_only / header part of Encoder::encode / frame_contiguous *)
Definition enc_header (more cmd : bool) (n : N) : bytes :=
  if n <=? 255 then [flags_byte more cmd false; n]
  else flags_byte more cmd true :: be_bytes 8 (n mod U64).   (* `len as u64` *)

Definition enc_header_only (f : frame) : bytes := enc_header (f_more f) (f_cmd f) (len (f_payload f)).

(* Encoder<Msg>::encode *)
Definition enc_codec (f : frame) : bytes := enc_header_only f ++ f_payload f.

(* ZmtpFrameEncoder::frame_contiguous: one buffer for all frames of all batches *)
Definition enc_contiguous (batches : list (list frame)) : bytes :=
  concat (map enc_codec (concat batches)).

(* header as written by frame_vectored / NullFramer::write_msg_split: COMMAND is not encoded *)
Definition enc_header_nocmd (f : frame) : bytes := enc_header (f_more f) false (len (f_payload f)).

(* ZmtpFrameEncoder::frame_vectored: list of slices, header then payload when non-empty *)
Definition enc_vectored (batches : list (list frame)) : list bytes :=
  concat (map (fun f => enc_header_nocmd f ::
                        (match f_payload f with [] => [] | _ => [f_payload f] end))
              (concat batches)).

(* NullFramer::write_msg_split *)
Definition enc_split (f : frame) : bytes * bytes := (enc_header_nocmd f, f_payload f).

(* ZmtpEngine::frame_batch_vectored with the NullFramer active *)
Definition total_payload (batches : list (list frame)) : N :=
  fold_left (fun acc f => acc + len (f_payload f)) (concat batches) 0.
Definition enc_batch_vectored (batches : list (list frame)) : list bytes :=
  if total_payload batches <? FLAT_THRESHOLD then [enc_contiguous batches] else enc_vectored batches.

(* ---- decoders ---- *)

Definition is_long (fl : N) : bool := negb (N.land fl FLAG_LONG =? 0).
Definition has_more (fl : N) : bool := negb (N.land fl FLAG_MORE =? 0).
Definition has_cmd (fl : N) : bool := negb (N.land fl FLAG_COMMAND =? 0).
Definition mk_frame (fl : N) (p : bytes) : frame :=
  {| f_more := has_more fl; f_cmd := has_cmd fl; f_payload := p |}.

Inductive dres :=
| DNeed                       (* Ok(None) *)
| DErr                        (* Err(ProtocolViolation) *)
| DPanic                      (* arithmetic overflow (debug) or slice index out of range *)
| DFrame (f : frame) (consumed : nat).

(* max_msg_size: Z (i64); -1 = unlimited *)
Definition over_limit (maxsz : Z) (raw : N) : bool :=
  (0 <=? maxsz)%Z && (Z.to_N maxsz <? raw).

Definition hdr_len (fl : N) : nat := if is_long fl then 9%nat else 2%nat.
Definition raw_size (fl : N) (buf : bytes) : N :=
  if is_long fl then be_val (firstn 8 (skipn 1 buf)) else nth 1 buf 0.

(* ZmtpManualParser::decode_from_buffer in state ReadHeader (the only state ever set) *)
Definition dec_buffer (maxsz : Z) (buf : bytes) : dres :=
  match buf with
  | [] => DNeed
  | fl :: _ =>
      let hl := hdr_len fl in
      if (length buf <? hl)%nat then DNeed else
      let raw := raw_size fl buf in
      if over_limit maxsz raw then DErr else
      if N.of_nat (length buf - hl) <? raw then DNeed else
      DFrame (mk_frame fl (firstn (N.to_nat raw) (skipn hl buf))) (hl + N.to_nat raw)%nat
  end.

(* decode_frame_from_slice / decode_frame_from_bytes: `total = header_len + size` in usize.
   `checked` = overflow checks on (debug build): overflow panics; otherwise wraps and the slice
   `src[header_len..total]` panics when total < header_len. *)
Definition dec_slice (checked : bool) (maxsz : Z) (buf : bytes) : dres :=
  if (length buf <? 2)%nat then DNeed else
  match buf with
  | [] => DNeed
  | fl :: _ =>
      let hl := hdr_len fl in
      if (length buf <? hl)%nat then DNeed else
      let raw := raw_size fl buf in
      if over_limit maxsz raw then DErr else
      let tot := N.of_nat hl + raw in
      if U64 <=? tot then
        (if checked then DPanic else
         let wrapped := tot mod U64 in
         if len buf <? wrapped then DNeed else DPanic)
      else
      if len buf <? tot then DNeed else
      DFrame (mk_frame fl (firstn (N.to_nat raw) (skipn hl buf))) (N.to_nat tot)
  end.

Inductive pres := PNeed | PErr | PPanic | PLen (n : N).
(* peek_frame_len *)
Definition peek_len (checked : bool) (maxsz : Z) (buf : bytes) : pres :=
  match buf with
  | [] => PNeed
  | fl :: _ =>
      let hl := hdr_len fl in
      if (length buf <? hl)%nat then PNeed else
      let raw := raw_size fl buf in
      if over_limit maxsz raw then PErr else
      let tot := N.of_nat hl + raw in
      if U64 <=? tot then (if checked then PPanic else PLen (tot mod U64)) else PLen tot
  end.

(* tokio Decoder::decode: destructive header, two states, 64 MiB cap *)
Inductive tstate := TReadHeader | TReadBody (fl : N) (size : N) | TFailed.

Definition tokio_step (st : tstate) (buf : bytes) : res tstate (option frame) :=
  match st with
  | TFailed => Need
  | TReadHeader =>
      match buf with
      | [] => Need
      | fl :: _ =>
          let hl := hdr_len fl in
          if (length buf <? hl)%nat then Need else
          let raw := raw_size fl buf in
          if CODEC_MAX_FRAME_SIZE <? raw then Step TFailed hl [None]
          else Step (TReadBody fl raw) hl []
      end
  | TReadBody fl size =>
      if len buf <? size then Need
      else Step TReadHeader (N.to_nat size) [Some (mk_frame fl (firstn (N.to_nat size) buf))]
  end.
Definition tokio_mu (st : tstate) : nat := match st with TReadBody _ _ => 1%nat | _ => 0%nat end.

(* the live path as a stepper: status = ok / failed; output = Some frame | None (= error) *)
Definition buffer_step (maxsz : Z) (failed : bool) (buf : bytes) : res bool (option frame) :=
  if failed then Need else
  match dec_buffer maxsz buf with
  | DNeed | DPanic => Need
  | DErr => Step true 0%nat [None]
  | DFrame f n => Step false n [Some f]
  end.
Definition buffer_mu (failed : bool) : nat := if failed then 0%nat else 1%nat.

(* streaming drivers: feed chunks, drain after each *)
Definition run_buffer (maxsz : Z) (chunks : list bytes) : bool * bytes * list (option frame) :=
  feed (buffer_step maxsz) buffer_mu 1%nat false [] chunks.
Definition run_tokio (prefix_bytes : bytes) (chunks : list bytes) : tstate * bytes * list (option frame) :=
  feed tokio_step tokio_mu 1%nat TReadHeader prefix_bytes chunks.

(* ---- the framing rule of ZMTP 3.x (RFC 23/37), transcribed independently ---- *)
Definition rfc_flags (more cmd long : bool) : N :=
  (if more then 1 else 0) + (if long then 2 else 0) + (if cmd then 4 else 0).
Definition rfc_frame (f : frame) : bytes :=
  let n := len (f_payload f) in
  if n <? 256 then [rfc_flags (f_more f) (f_cmd f) false; n] ++ f_payload f
  else [rfc_flags (f_more f) (f_cmd f) true;
        n / 72057594037927936 mod 256; n / 281474976710656 mod 256; n / 1099511627776 mod 256;
        n / 4294967296 mod 256; n / 16777216 mod 256; n / 65536 mod 256; n / 256 mod 256;
        n mod 256] ++ f_payload f.
Definition nocmd (f : frame) : frame := {| f_more := f_more f; f_cmd := false; f_payload := f_payload f |}.

(* deterministic payload filler shared with the Rust harness: byte i = (seed + 31*i + i/256) mod 256... *)
Fixpoint fill_aux (n : nat) (i : N) (seed : N) : bytes :=
  match n with
  | O => []
  | S n' => ((seed + i * 131 + i / 251) mod 256) :: fill_aux n' (i + 1) seed
  end.
Definition fill (n : N) (seed : N) : bytes := fill_aux (N.to_nat n) 0 seed.

(* digest for comparing long byte strings: length, Adler-32-like sum, first and last 8 bytes *)
Definition digest (l : bytes) : N * N * bytes * bytes :=
  let '(a, b) := fold_left (fun '(a, b) x => let a' := (a + x) mod 65521 in (a', (b + a') mod 65521)) l (1, 0) in
  (len l, b * 65536 + a, firstn 8 l, skipn (length l - 8) l).
