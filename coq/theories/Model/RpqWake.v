(* Waker layer over Model/Rpq.v: which parked consumer does the ready channel actually wake?

   Rpq.v treats a consumer parked in `ready_rx.recv().await` as runnable whenever the ready list is
   non-empty.  A real executor polls a parked task only after its waker fired, and fibre's mpmc
   channel (mpmc_v2/core.rs, `try_send_core` / `poll_recv_internal` / `RecvFuture::drop`) works
   like this:
     * a receiver that finds the queue empty appends itself to `waiting_async_receivers`;
     * a sender that pushes an element removes the FIRST waiting receiver from that list and
       wakes it (only that one);
     * a woken receiver that is polled takes an element if there is one, else re-registers at
       the back;
     * dropping a RecvFuture unlinks it from the list; if it had ALREADY been notified, the
       notification is NOT passed on to the next waiter.
   The monitor below follows the Rpq run and keeps `waiters` (registered, not yet notified, in
   order) and `woken` (notified, not yet polled again).  `wstep` is Rpq's step restricted to what
   an executor does: a parked consumer is polled only when woken.  A blocked producer
   (`tx.send().await` on the spsc channel) has a single waiter slot and is woken by every
   try_recv on its pipe, i.e. exactly when there is room; that needs no extra state. *)
From RZ Require Import Base.Prelude Model.Rpq.

Record wk := mkWk { waiters : list nat; woken : nat -> bool }.
Definition wk0 : wk := mkWk [] (fun _ => false).

Definition remove_nat (i : nat) (l : list nat) : list nat := filter (fun j => negb (j =? i)) l.

(* a sender pushed one element onto the ready list *)
Definition wk_push (w : wk) : wk :=
  match waiters w with
  | [] => w
  | i :: r => mkWk r (upd (woken w) i true)
  end.

Definition is_cwait (pc : cpc) : bool := match pc with CWait => true | _ => false end.

(* the executor does not poll consumer i: parked in recv() and not woken *)
Definition c_asleep (s : st) (w : wk) (i : nat) : bool := is_cwait (cons s i) && negb (woken w i).

(* monitor update for one executed event: s --e--> s' *)
Definition wk_step (s : st) (e : ev) (s' : st) (w : wk) : wk :=
  let w1 :=
    match e with
    | RunC i =>
        if is_cwait (cons s' i) then
          (* polled recv() and found the list empty: (re-)register at the back *)
          mkWk (remove_nat i (waiters w) ++ [i]) (upd (woken w) i false)
        else if is_cwait (cons s i) then
          (* was parked and woken, took an entry *)
          mkWk (remove_nat i (waiters w)) (upd (woken w) i false)
        else w
    | CancelC i =>
        if is_cwait (cons s i) then mkWk (remove_nat i (waiters w)) (upd (woken w) i false) else w
    | _ => w
    end in
  if length (ready s) <? length (ready s') then wk_push w1 else w1.

Definition wstep (c : cfg) (sw : st * wk) (e : ev) : st * wk :=
  let '(s, w) := sw in
  match e with
  | RunC i =>
      if c_asleep s w i then (s, w)
      else match step c s e with
           | Some s' => (s', wk_step s e s' w)
           | None =>
               (* woken, polled, but another consumer took the entry first: parks again *)
               if is_cwait (cons s i) && (i <? nc c)
               then (s, mkWk (remove_nat i (waiters w) ++ [i]) (upd (woken w) i false))
               else (s, w)
           end
  | _ => match step c s e with Some s' => (s', wk_step s e s' w) | None => (s, w) end
  end.

Definition wrun (c : cfg) (es : list ev) (sw : st * wk) : st * wk := fold_left (wstep c) es sw.

(* which Run events would a real executor consider? *)
Definition p_parked_blocked (c : cfg) (s : st) (p : nat) : bool :=
  match prod s p with SBlock _ true => negb (room c s p) | _ => false end.

Definition w_runnable (c : cfg) (sw : st * wk) (e : ev) : bool :=
  let '(s, w) := sw in
  match e with
  | RunP p => enabled c s e && negb (p_parked_blocked c s p)
  | RunC i => (i <? nc c) && (if is_cwait (cons s i) then woken w i else enabled c s e)
  | _ => false
  end.

(* bit t set: thread t (producers 0..np-1, then consumers) is pending and its waker has fired *)
Definition wmask (c : cfg) (sw : st * wk) : N :=
  let '(s, w) := sw in
  fold_left N.add
    (map (fun p => match prod s p with
                   | SBlock _ true => if room c s p then N.pow 2 (N.of_nat p) else 0%N
                   | _ => 0%N
                   end) (seq 0 (np c))
     ++ map (fun i => if is_cwait (cons s i) && woken w i then N.pow 2 (N.of_nat (np c + i)) else 0%N) (seq 0 (nc c)))
    0%N.

(* the lost wake-up in waker terms: an entry is in the ready list, a consumer sleeps in pop(),
   and no thread is runnable *)
Definition wake_lost (c : cfg) (sw : st * wk) : bool :=
  let '(s, w) := sw in
  negb (match ready s with [] => true | _ => false end)
  && existsb (fun i => c_asleep s w i) (seq 0 (nc c))
  && forallb (fun p => negb (w_runnable c sw (RunP p))) (seq 0 (np c))
  && forallb (fun i => negb (w_runnable c sw (RunC i))) (seq 0 (nc c)).
