(* What each sending socket does to the frames of ONE `send_multipart` call (and to a message sent
   part by part with `send`), written after the Rust code, on top of the FrameBatch model so that every
   `push` / `insert` / `with_capacity` / `From<Vec<Msg>>` keeps its 255-element panic:
     socket/types.rs      Socket::send_multipart(Vec<Msg>)  = inner.send_multipart(FrameBatch::from(frames))
     push_socket.rs / pub_socket.rs   send_multipart: flag loop
     dealer_socket.rs     prepare_full_multipart_send_sequence, send (DealerSendTransaction::Buffering)
     rep_socket.rs        send_multipart (saved routing prefix + payload, with_capacity, flag loop)
     req_socket.rs        send / send_multipart
     router_socket.rs     send_multipart (strategies of patterns/router.rs, then the same flag loop as PUSH)
   The list-level functions (norm_flags, clear_last, strat_prepare, ...) are those of Model/Envelope.v.
   Executable definitions only; proofs are in Proofs/SendFlagsProofs.v. *)
From RZ Require Import Base.Prelude Model.Codec Model.RouterMap Model.Envelope Model.FrameBatch Model.Balancer.
Local Open Scope N_scope.

Notation batch := (fb frame) (only parsing).

Inductive send_res :=
| SRErr                      (* Err(..) to the caller, nothing handed to a connection *)
| SRNothing                  (* Ok(()) and nothing handed to a connection *)
| SRWire (w : list frame).   (* the FrameBatch handed to ISocketConnection::send_multipart, in order *)

(* `for (i, frame) in frames.iter_mut().enumerate() { if i < n - 1 { |MORE } else { &!MORE } }`
   (the subtraction sits inside the loop body, so an empty batch never evaluates it) *)
Definition fb_norm (b : batch) : batch := fb_set b (norm_flags (fb_list b)).
(* `if let Some(last) = frames.last_mut() { last.set_flags(flags & !MORE) }` *)
Definition fb_clear_last (b : batch) : batch := fb_set b (clear_last (fb_list b)).
(* `frames[0].set_flags(flags | MORE)` under `if !frames.is_empty()` *)
Definition fb_more_first (b : batch) : batch :=
  fb_set b (match fb_list b with [] => [] | f :: t => with_more f :: t end).

(* Socket::send_multipart(frames: Vec<Msg>) *)
Definition api_send_multipart (inner : batch -> out send_res) (v : list frame) : out send_res :=
  bind (fb_from_vec v) inner.

(* ---------------------------------------------------------------- PUSH, PUB *)
Definition push_send_multipart (b : batch) : out send_res :=
  if fb_is_empty b then Ok SRNothing else Ok (SRWire (fb_list (fb_norm b))).
Definition pub_send_multipart (b : batch) : out send_res := push_send_multipart b.
(* PUSH/PUB send(msg): one single-frame batch per call, flags untouched; every call is routed on its own *)
Definition push_send (f : frame) : out send_res := bind (fb_push fb_new f) (fun b => Ok (SRWire (fb_list b))).

(* a message sent through PUSH send() part by part: every call is a route_message of its own
   (push_socket.rs send -> send_with_timeout -> OutgoingMessageOrchestrator::route_message); with every peer
   writable the k-th part goes to the k-th peer of the balancer's rotation (Model/Balancer.v get_next) *)
Definition push_parts_routed (b : bal) (fs : list frame) : list (N * frame) * bal :=
  let '(ps, b') := picks (length fs) b in (combine ps fs, b').

(* ---------------------------------------------------------------- DEALER *)
(* patterns/framing.rs dealer_auto_encode *)
Definition dealer_auto_encode_fb (b : batch) : out batch := fb_insert 0 (delim (negb (fb_is_empty b))) b.
(* patterns/framing.rs router_auto_encode *)
Definition router_auto_encode_fb (b : batch) : out batch :=
  let d := delim (1 <? fb_len b)%nat in
  let b1 := if fb_is_empty b then b else fb_more_first b in
  if fb_is_empty b1 then Ok b1 else fb_insert 1 d b1.
Definition latch_encode_fb (router manual : bool) (b : batch) : out batch :=
  if manual then Ok b else if router then router_auto_encode_fb b else dealer_auto_encode_fb b.

(* prepare_full_multipart_send_sequence *)
Definition dealer_prepare_fb (manual : bool) (b : batch) : out batch :=
  if manual then Ok (fb_norm b)
  else if fb_is_empty b then bind (fb_push fb_new (delim true)) (fun b1 => fb_push b1 (delim false))
  else bind (latch_encode_fb false manual b) (fun b' => Ok (fb_norm b')).
Definition dealer_send_multipart (manual : bool) (b : batch) : out send_res :=
  bind (dealer_prepare_fb manual b) (fun w => Ok (SRWire (fb_list w))).

(* send(msg) part by part: DealerSendTransaction = Idle | Buffering{parts} *)
Definition MAX_DEALER_SEND_BUFFER_PARTS : nat := 10240.
Definition dealer_send_part (manual : bool) (tx : option batch) (f : frame) : out (option batch * send_res) :=
  if fmore f then
    match tx with
    | None => bind (fb_push fb_new f) (fun b => Ok (Some b, SRNothing))
    | Some parts =>
        if (MAX_DEALER_SEND_BUFFER_PARTS <=? fb_len parts)%nat then Ok (None, SRErr)
        else bind (fb_push parts f) (fun b => Ok (Some b, SRNothing))
    end
  else
    bind (match tx with
          | None => fb_push fb_new f
          | Some parts => fb_push parts f
          end) (fun all =>
    bind (dealer_prepare_fb manual all) (fun w => Ok (None, SRWire (fb_list w)))).
Fixpoint dealer_send_parts (manual : bool) (tx : option batch) (fs : list frame) : out (option batch * list send_res) :=
  match fs with
  | [] => Ok (tx, [])
  | f :: t =>
      bind (dealer_send_part manual tx f) (fun '(tx1, r) =>
      bind (dealer_send_parts manual tx1 t) (fun '(tx2, rs) => Ok (tx2, r :: rs)))
  end.

(* ---------------------------------------------------------------- REP *)
(* send_multipart with the routing prefix saved by the last recv (state ReceivedRequest) *)
Definition rep_send_multipart_fb (prefix payload : batch) : out send_res :=
  bind (if fb_is_empty payload then fb_push payload (delim false) else Ok payload) (fun up =>
  bind (fb_with_capacity (fb_len prefix + fb_len up)) (fun w0 =>
  bind (fb_extend w0 (fb_list prefix)) (fun w1 =>
  bind (fb_extend w1 (fb_list up)) (fun w2 =>
  if (fb_len w2 =? 0)%nat then Ok SRNothing else Ok (SRWire (fb_list (fb_norm w2))))))).
(* send(msg): MORE cleared, then send_multipart of the single frame *)
Definition rep_send_fb (prefix : batch) (f : frame) : out send_res :=
  bind (fb_push fb_new (no_more f)) (fun b => rep_send_multipart_fb prefix b).

(* ---------------------------------------------------------------- REQ *)
Definition req_send_multipart (_ : batch) : out send_res := Ok SRErr.   (* UnsupportedFeature *)
Definition req_send_fb (f : frame) : out send_res :=
  bind (fb_push fb_new (delim true)) (fun b1 =>
  bind (fb_push b1 (no_more f)) (fun b2 => Ok (SRWire (fb_list b2)))).

(* ---------------------------------------------------------------- ROUTER *)
(* patterns/router.rs strategies::*::prepare_wire_frames *)
Definition id_flagged (idm : frame) (payload : batch) : frame :=
  if fb_is_empty payload then idm else with_more idm.
Definition strat_prepare_fb (s : strat) (manual : bool) (idm : frame) (payload : batch) : out batch :=
  match s with
  | SReq =>
      bind (fb_with_capacity (1 + fb_len payload)) (fun w0 =>
      bind (fb_push w0 (delim (negb (fb_is_empty payload)))) (fun w1 =>
      fb_extend w1 (fb_list payload)))
  | SDealer =>
      if manual then Ok payload
      else bind (fb_insert 0 (id_flagged idm payload) payload) (fun p1 => latch_encode_fb true manual p1)
  | SRouter => Ok payload
  | SDefault =>
      bind (fb_insert 0 (id_flagged idm payload) payload) (fun p1 => latch_encode_fb true manual p1)
  end.

(* send_multipart(frames); `peer` = what the identity lookup found: None, or the peer's strategy *)
Definition router_send_multipart_fb (mandatory manual : bool) (peer : option strat) (b : batch) : out send_res :=
  if fb_is_empty b then Ok SRErr
  else bind (fb_remove 0 b) (fun '(idm, payload) =>
       match snd idm with
       | [] => Ok SRErr
       | _ =>
           match peer with
           | None => Ok (if mandatory then SRErr else SRNothing)
           | Some s =>
               bind (strat_prepare_fb s manual idm payload) (fun w =>
               Ok (SRWire (fb_list (fb_norm w))))      (* flag loop over all wire frames (fix of C02 finding 4) *)
           end
       end).

(* ---------------------------------------------------------------- every sending API path, one table *)
Inductive sender :=
| SndPush | SndPub
| SndDealer (manual : bool)
| SndRep (prefix : list frame)                       (* routing prefix of the request being answered *)
| SndReq
| SndRouter (mandatory manual : bool) (peer : option strat).

Definition send_multipart_of (k : sender) (v : list frame) : out send_res :=
  match k with
  | SndPush => api_send_multipart push_send_multipart v
  | SndPub => api_send_multipart pub_send_multipart v
  | SndDealer manual => api_send_multipart (dealer_send_multipart manual) v
  | SndRep prefix => bind (fb_from_vec prefix) (fun p => api_send_multipart (rep_send_multipart_fb p) v)
  | SndReq => api_send_multipart req_send_multipart v
  | SndRouter mandatory manual peer => api_send_multipart (router_send_multipart_fb mandatory manual peer) v
  end.

(* Codec-level view of a data frame (never a command) *)
Definition to_codec (f : frame) : Codec.frame :=
  {| Codec.f_more := fst f; Codec.f_cmd := false; Codec.f_payload := snd f |}.
