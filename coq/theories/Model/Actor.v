(* The decisions of the session actor (core/src/sessionx/actor.rs) that matter for what the
   application receives: what the handshake-phase output handler and the operational loop do
   with each `AppAction` of the engine. I/O, timers and pipes are outside this model. *)
From RZ Require Import Base.Prelude Base.Stepper Model.Codec Model.Engine.
Local Open Scope N_scope.

Record actor := {
  a_eng : engine;
  a_ingress : list (list frame);   (* ingress_buffer: FIFO of decoded batches awaiting the socket *)
  a_fatal : bool                   (* set_fatal_error was called: Terminating *)
}.

Definition deliveries (o : list eout) : list (list frame) :=
  concat (map (fun x => match x with ODeliver m => [m] | _ => [] end) o).
Definition has_err (o : list eout) : bool :=
  existsb (fun x => match x with OErr _ | OPanic => true | _ => false end) o.

(* `hs_keeps_deliveries`: whether the handshake-phase handler (apply_engine_output_handshake)
   queues `DeliverMessage` (true = the code after the fix; false = the code at the pinned commit,
   whose arm was `AppAction::DeliverMessage(_) => {}`) *)
Definition a_read (hs_keeps_deliveries : bool) (cfg : ecfg) (a : actor) (data : bytes) (t : N) : actor :=
  if a_fatal a then a else
  let in_handshake := match e_phase (g_st (a_eng a)) with PData => false | _ => true end in
  let '(g', o) := e_net cfg (a_eng a) data t in
  {| a_eng := g';
     a_ingress := a_ingress a ++ (if in_handshake && negb hs_keeps_deliveries then [] else deliveries o);
     a_fatal := has_err o |}.

Fixpoint a_reads (k : bool) (cfg : ecfg) (a : actor) (cs : list (bytes * N)) : actor :=
  match cs with
  | [] => a
  | (d, t) :: rest => a_reads k cfg (a_read k cfg a d t) rest
  end.

Definition a_new (t : N) : actor := {| a_eng := e_new t; a_ingress := []; a_fatal := false |}.
