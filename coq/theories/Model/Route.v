(* Model of core/src/socket/patterns/outgoing_orchestrator.rs: try_route_sync and route_message,
   written branch for branch, over
     - a readiness oracle: what `try_send_multipart_owned_sync` / `send_multipart_owned` of peer p
       answers at (global) attempt number t, and
     - an interference oracle: the membership changes (add_connection / remove_connection issued by
       other tasks) that land while attempt t is in flight, i.e. between the `get_next_connection`
       of attempt t and the next access to the balancer.  The orchestrator holds no lock across an
       attempt, so this is exactly the granularity at which other tasks can interleave. *)
From RZ Require Import Base.Prelude Model.Balancer.

(* answer of a send on a peer's pipe:
   fast path (try_send_multipart_owned_sync): Ok(()) / Err((msgs, ResourceLimitReached)) / Err((msgs, other))
   slow path (send_multipart_owned):          Ok(()) / Err((msgs, ResourceLimitReached)) / Err((_, Timeout|ConnectionClosed)) *)
Inductive ready := Accept | Full | Closed.

Inductive mop := MAdd (u : N) | MRemove (u : N).
Definition apply_mop (b : bal) (o : mop) : bal :=
  match o with MAdd u => add u b | MRemove u => remove u b end.
Definition apply_mops (ops : list mop) (b : bal) : bal := fold_left apply_mop ops b.

Record oracle := mkOracle {
  o_fast : nat -> N -> ready;
  o_slow : nat -> N -> ready;
  o_env : nat -> list mop
}.

(* one send call made on a peer: attempt number, peer, blocking (slow path)?, answer *)
Record att := mkAtt { at_t : nat; at_peer : N; at_slow : bool; at_res : ready }.

Inductive outcome :=
| Delivered (p : N)       (* Ok(()) from the sweep: peer p took the message *)
| DeliveredSlow (p : N)   (* Ok(()) from the blocking send on the fresh peer p *)
| Returned                (* Err((msgs, ResourceLimitReached)): ownership back to the caller *)
| ReturnedErr (p : N)     (* try_route_sync only: Err(e) of peer p passed through, batch as the iface returned it *)
| Dropped (p : N)         (* route_message only: Err((FrameBatch::new(), e)) - message neither delivered nor returned *)
| WaitForPeer.            (* route_message(wait_for_peer = true) parked in wait_for_connection, still owning the message *)

Record rres := mkRes { r_out : outcome; r_log : list att; r_bal : bal; r_time : nat }.

(* `for _ in 0..count { ... }` of try_route_sync *)
Fixpoint sync_loop (o : oracle) (k : nat) (b : bal) (t : nat) (log : list att) : rres :=
  match k with
  | 0 => mkRes Returned log b t
  | S k' =>
      match get_next b with
      | (None, b') => mkRes Returned log b' t
      | (Some p, b') =>
          let r := o_fast o t p in
          let b'' := apply_mops (o_env o t) b' in
          let log' := log ++ [mkAtt t p false r] in
          match r with
          | Accept => mkRes (Delivered p) log' b'' (S t)
          | Full => sync_loop o k' b'' (S t) log'
          | Closed => mkRes (ReturnedErr p) log' b'' (S t)
          end
      end
  end.

(* `cnt` is what connection_count() returned; other tasks may change the membership before the
   first get_next_connection, so the general entry point takes it as a parameter *)
Definition try_route_sync_with (cnt : nat) (o : oracle) (b : bal) (t : nat) : rres :=
  if cnt =? 0 then mkRes Returned [] b t else sync_loop o cnt b t [].
Definition try_route_sync (o : oracle) (b : bal) (t : nat) : rres :=
  try_route_sync_with (count b) o b t.

(* the `loop` of route_message; `more` = max_attempts - attempts - 1 at the top of an iteration *)
Fixpoint msg_loop (o : oracle) (wait : bool) (more : nat) (b : bal) (t : nat) (log : list att) : rres :=
  match get_next b with
  | (None, b') => mkRes (if wait then WaitForPeer else Returned) log b' t
  | (Some p, b') =>
      let r := o_fast o t p in
      let b'' := apply_mops (o_env o t) b' in
      let log' := log ++ [mkAtt t p false r] in
      match r with
      | Accept => mkRes (Delivered p) log' b'' (S t)
      | Closed => mkRes (Dropped p) log' b'' (S t)
      | Full =>
          match more with
          | S more' => msg_loop o wait more' b'' (S t) log'
          | 0 =>
              (* attempts >= max_attempts: SLOW PATH on a fresh peer of the rotation *)
              match get_next b'' with
              | (None, b3) => mkRes Returned log' b3 (S t)
              | (Some q, b3) =>
                  let r2 := o_slow o (S t) q in
                  let b4 := apply_mops (o_env o (S t)) b3 in
                  let log2 := log' ++ [mkAtt (S t) q true r2] in
                  mkRes (match r2 with
                         | Accept => DeliveredSlow q
                         | Full => Returned
                         | Closed => Dropped q
                         end) log2 b4 (S (S t))
              end
          end
      end
  end.

Definition route_message_with (cnt : nat) (o : oracle) (wait : bool) (b : bal) (t : nat) : rres :=
  msg_loop o wait (Nat.max cnt 1 - 1) b t [].
Definition route_message (o : oracle) (wait : bool) (b : bal) (t : nat) : rres :=
  route_message_with (count b) o wait b t.
(* When wait_for_connection returns Ok the code recomputes max_attempts, zeroes attempts and
   continues the loop: that is route_message again on the then-current state. *)
Definition route_resume := route_message.

(* ---- sequences of routed messages ---- *)
Inductive call := CSync | CMsg (wait : bool).
Definition do_call (o : oracle) (c : call) (b : bal) (t : nat) : rres :=
  match c with CSync => try_route_sync o b t | CMsg w => route_message o w b t end.
Fixpoint run_calls (o : oracle) (cs : list call) (b : bal) (t : nat) : list rres :=
  match cs with
  | [] => []
  | c :: cs' => let r := do_call o c b t in r :: run_calls o cs' (r_bal r) (r_time r)
  end.

Definition is_accept (a : att) : bool := match at_res a with Accept => true | _ => false end.
Definition accepts (l : list att) : nat := length (filter is_accept l).
Definition no_env (o : oracle) : oracle := mkOracle (o_fast o) (o_slow o) (fun _ => []).

(* ---- DealerSocket::send_logical_message (dealer_socket.rs) on top of route_message ----
   `match route_message(frames, false).await {
      Ok(()) => Ok(()),
      Err((returned, ResourceLimitReached)) => queue_message_or_error(returned, ..),
      Err((_, e)) => Err(e) }`
   (the code after the fix: commit; before it every error was queued, and for errors other than
   ResourceLimitReached the batch that came back was EMPTY while the caller was answered Ok). *)
Inductive dealer_answer :=
| AnsOk          (* a peer has the message *)
| AnsQueued      (* message intact on pending_outgoing_queue (Ok to the caller while below SNDHWM) *)
| AnsErr.        (* the caller is told the send failed; nobody has the message *)
Definition dealer_send (o : oracle) (b : bal) (t : nat) : rres * dealer_answer :=
  let r := route_message o false b t in
  (r, match r_out r with
      | Delivered _ | DeliveredSlow _ => AnsOk
      | Returned => AnsQueued
      | Dropped _ => AnsErr
      | ReturnedErr _ | WaitForPeer => AnsQueued
      end).
