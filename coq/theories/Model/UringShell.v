(* The two connection shells around the one sans-IO engine:
   - `ush`: ZmtpUringHandler (core/src/io_uring_backend/zmtp_handler.rs): process_ring_read_bytes,
     apply_engine_output, prepare_sqes, close_initiated, handle_internal_sqe_completion.  There is NO
     transition for a heartbeat tick or for a handshake timer because the handler has no such code
     (`on_tick` is called only from sessionx/actor.rs; the handler never reads handshake_timeout).
   - `tsh`: the decisions of SessionConnectionActorX that are visible to the application
     (Model/Actor.v's `a_read true`, plus the ping timer arm and the handshake read timeout).
   Both are driven by the same peer behaviour `sin`. *)
From RZ Require Import Base.Prelude Base.Stepper Model.Codec Model.Engine Model.Actor Model.Spill.
Local Open Scope N_scope.

Definition msgt : Type := list frame.

(* what a shell tells its socket about the connection *)
Inductive ctrl :=
  | KEstablished (id : option bytes)     (* handshake outcome: success, with the peer identity *)
  | KError (e : errclass)                (* engine PeerError of that class *)
  | KPeerClosed.                         (* EOF *)

Definition ctrl_of (x : eout) : list ctrl :=
  match x with
  | OHandshake id _ => [KEstablished id]
  | OErr e => [KError e]
  | _ => []
  end.
Definition ctrls (o : list eout) : list ctrl := concat (map ctrl_of o).
Definition sends (o : list eout) : list eout :=
  filter (fun x => match x with OSend _ _ | OSendOpaque | OCork _ => true | _ => false end) o.

(* ------------------------------------------------------------------ io_uring handler *)

Record ush := {
  u_eng : engine;
  u_sp : spill msgt;           (* spill-over + is_throttled + is_closing + close_deadline *)
  u_close_reqs : nat;          (* RequestClose blueprints emitted so far *)
  u_dead : bool                (* the engine panicked (worker thread gone) *)
}.

Definition u_new (t : N) : ush :=
  {| u_eng := e_new t; u_sp := sp_init; u_close_reqs := 0; u_dead := false |}.

Record uout := {
  uo_pipe : list msgt;         (* entered the socket's ingress pipe *)
  uo_ctrl : list ctrl;         (* sent to the SocketCore mailbox *)
  uo_net : list eout;          (* Send / SetCork blueprints *)
  uo_close : nat;              (* RequestClose blueprints *)
  uo_errclose : bool           (* initiate_close_due_to_error *)
}.
Definition uo_nil : uout := {| uo_pipe := []; uo_ctrl := []; uo_net := []; uo_close := 0; uo_errclose := false |}.

Definition sp_set_closing (s : spill msgt) (closing deadline : bool) : spill msgt :=
  {| s_attached := s_attached s; s_q := s_q s; s_thr := s_thr s; s_closing := closing;
     s_deadline := deadline; s_errclose := s_errclose s |}.

(* the DeliverMessage actions of one engine output, in order; one oracle answer per delivery *)
Fixpoint deliver_all (s : spill msgt) (ms : list msgt) (rs : list tres) : spill msgt * list msgt * bool :=
  match ms with
  | [] => (s, [], false)
  | m :: ms' =>
      let r := hd TFull rs in
      let '(s1, o1) := sp_deliver s m r in
      let closed_now := s_attached s && (match s_q s with [] => true | _ => false end) &&
                        (match r with TClosed => true | _ => false end) in
      let '(s2, o2, c2) := deliver_all s1 ms' (tl rs) in
      (s2, o1 ++ o2, closed_now || c2)
  end.

Definition close_some (o : list eout) : bool :=
  existsb (fun x => match x with OClose (Some _) => true | _ => false end) o.
Definition close_none (o : list eout) : bool :=
  existsb (fun x => match x with OClose None => true | _ => false end) o.

(* apply_engine_output *)
Definition u_apply (h : ush) (g' : engine) (o : list eout) (rs : list tres) : ush * uout :=
  let sp0 := if close_some o then sp_set_closing (u_sp h) true true else u_sp h in
  let '(sp1, piped, pipe_closed) := deliver_all sp0 (deliveries o) rs in
  let err := has_err o in
  (* PeerError: initiate_close_due_to_error only; is_closing is set by close_initiated (UCloseInit), which the
     worker calls next (the arm used to set is_closing itself, which pre-empted that call: fixed) *)
  let sp2 := sp1 in
  ({| u_eng := g'; u_sp := sp2; u_close_reqs := u_close_reqs h; u_dead := u_dead h |},
   {| uo_pipe := piped; uo_ctrl := ctrls o;
      uo_net := sends o ++ (if close_some o then [OCork false] else []);
      uo_close := 0; uo_errclose := close_none o || pipe_closed || err |}).

Inductive uin :=
  | UStart
  | UNet (d : bytes) (t : N) (rs : list tres)    (* process_ring_read_bytes, d <> [] *)
  | UEof                                         (* process_ring_read_bytes(empty) *)
  | UAttach | UResume
  | UPrepare (rs : list tres) (drained : bool)
  | UPoll (drained : bool)
  | UCloseInit                                   (* close_initiated *)
  | UIoErr                                       (* handle_internal_sqe_completion(res < 0) *)
  | UTick (t : N)                                (* a heartbeat interval elapses: no code path *)
  | UHsTimeout.                                  (* the handshake interval elapses: no code path *)

Definition has_panic (o : list eout) : bool := existsb (fun x => match x with OPanic => true | _ => false end) o.

Definition u_step (cfg : ecfg) (h : ush) (i : uin) : ush * uout :=
  if u_dead h then (h, uo_nil) else
  match i with
  | UStart =>
      (h, {| uo_pipe := []; uo_ctrl := []; uo_net := e_start; uo_close := 0; uo_errclose := false |})
  | UNet d t rs =>
      if s_closing (u_sp h) then (h, uo_nil) else
      let '(g', o) := e_net cfg (u_eng h) d t in
      if has_panic o then
        ({| u_eng := g'; u_sp := u_sp h; u_close_reqs := u_close_reqs h; u_dead := true |}, uo_nil)
      else u_apply h g' o rs
  | UEof =>
      ({| u_eng := u_eng h; u_sp := sp_set_closing (u_sp h) true (s_deadline (u_sp h));
          u_close_reqs := S (u_close_reqs h); u_dead := false |},
       {| uo_pipe := []; uo_ctrl := [KPeerClosed]; uo_net := []; uo_close := 1; uo_errclose := false |})
  | UAttach =>
      ({| u_eng := u_eng h; u_sp := fst (sp_step (u_sp h) SAttach); u_close_reqs := u_close_reqs h; u_dead := false |}, uo_nil)
  | UResume =>
      ({| u_eng := u_eng h; u_sp := fst (sp_step (u_sp h) SResume); u_close_reqs := u_close_reqs h; u_dead := false |}, uo_nil)
  | UPrepare rs dr =>
      let '(sp1, piped) := sp_prepare (u_sp h) rs dr in
      ({| u_eng := u_eng h; u_sp := sp1; u_close_reqs := u_close_reqs h; u_dead := false |},
       {| uo_pipe := piped; uo_ctrl := []; uo_net := []; uo_close := 0; uo_errclose := false |})
  | UPoll d =>
      ({| u_eng := u_eng h; u_sp := fst (sp_throttle (u_sp h) d); u_close_reqs := u_close_reqs h; u_dead := false |}, uo_nil)
  | UCloseInit =>
      if s_closing (u_sp h) then (h, uo_nil) else
      ({| u_eng := u_eng h; u_sp := sp_set_closing (u_sp h) true false;
          u_close_reqs := S (u_close_reqs h); u_dead := false |},
       {| uo_pipe := []; uo_ctrl := []; uo_net := []; uo_close := 1; uo_errclose := false |})
  | UIoErr =>
      ({| u_eng := u_eng h; u_sp := sp_set_closing (u_sp h) true (s_deadline (u_sp h));
          u_close_reqs := S (u_close_reqs h); u_dead := false |},
       {| uo_pipe := []; uo_ctrl := []; uo_net := []; uo_close := 1; uo_errclose := false |})
  | UTick _ | UHsTimeout => (h, uo_nil)
  end.

Record ulog := { l_pipe : list msgt; l_ctrl : list ctrl; l_net : list eout }.
Definition ulog_nil : ulog := {| l_pipe := []; l_ctrl := []; l_net := [] |}.

Fixpoint u_run (cfg : ecfg) (h : ush) (is : list uin) : ush * ulog :=
  match is with
  | [] => (h, ulog_nil)
  | i :: rest =>
      let '(h1, o) := u_step cfg h i in
      let '(h2, l) := u_run cfg h1 rest in
      (h2, {| l_pipe := uo_pipe o ++ l_pipe l; l_ctrl := uo_ctrl o ++ l_ctrl l; l_net := uo_net o ++ l_net l |})
  end.

(* ------------------------------------------------------------------ tokio session shell *)

Record tsh := {
  t_eng : engine;
  t_fatal : bool;              (* set_fatal_error / Terminating *)
  t_ingress : list msgt;       (* queued for the socket (ingress_buffer, then the pipe) *)
  t_ctrl : list ctrl;
  t_net : list eout
}.
Definition t_new (t : N) : tsh := {| t_eng := e_new t; t_fatal := false; t_ingress := []; t_ctrl := []; t_net := [] |}.

(* the peer's behaviour as both shells see it *)
Inductive sin :=
  | SNet (d : bytes) (t : N)
  | STick (t : N)          (* the ping timer fires at time t *)
  | SHsTimeout.            (* no byte arrived for HANDSHAKE_IVL while still handshaking *)

Definition t_absorb (k : tsh) (g' : engine) (o : list eout) : tsh :=
  {| t_eng := g'; t_fatal := has_err o; t_ingress := t_ingress k ++ deliveries o;
     t_ctrl := t_ctrl k ++ ctrls o; t_net := t_net k ++ sends o |}.

Definition t_step (cfg : ecfg) (k : tsh) (i : sin) : tsh :=
  if t_fatal k then k else
  match i with
  | SNet d t => let '(g', o) := e_net cfg (t_eng k) d t in t_absorb k g' o
  | STick t => let '(g', o) := e_tick cfg (t_eng k) t in t_absorb k g' o
  | SHsTimeout =>
      match e_phase (g_st (t_eng k)) with
      | PData | PClosed => k
      | _ => {| t_eng := t_eng k; t_fatal := true; t_ingress := t_ingress k;
                t_ctrl := t_ctrl k ++ [KError ETimeout]; t_net := t_net k |}
      end
  end.

Fixpoint t_run (cfg : ecfg) (k : tsh) (is : list sin) : tsh :=
  match is with
  | [] => k
  | i :: rest => t_run cfg (t_step cfg k i) rest
  end.

(* the peer behaviour contained in a handler history *)
Definition to_sin (i : uin) : list sin :=
  match i with
  | UNet d t _ => [SNet d t]
  | UTick t => [STick t]
  | UHsTimeout => [SHsTimeout]
  | _ => []
  end.
Definition peer_of (is : list uin) : list sin := concat (map to_sin is).

(* histories covered by the equivalence theorem: the receiving application is alive (no Closed
   answer), the peer does not hang up and nobody closes (those are the close paths, handled by the
   fd automaton), and the two timers never fire *)
Definition uin_plain (i : uin) : bool :=
  match i with
  | UNet _ _ rs => forallb res_open rs
  | UPrepare rs _ => forallb res_open rs
  | UEof | UCloseInit | UIoErr | UTick _ | UHsTimeout => false
  | _ => true
  end.
Definition uin_plain_tick (i : uin) : bool :=
  match i with UTick _ => true | _ => uin_plain i end.

Definition bytes_of (is : list uin) : bytes :=
  concat (map (fun i => match i with UNet d _ _ => d | _ => [] end) is).
