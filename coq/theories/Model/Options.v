(* Model of the option layer: core/src/socket/options.rs
     parse_*_option (options.rs:479-668), apply_core_option_value (:676), retrieve_core_option_value (:776),
     SocketOptions::default (:152).
   This is the boundary every "for all configurations" quantifier of the properties passes through: the
   application hands set_option an option id and a native-endian byte string; what the rest of rzmq (and the other
   models: Hwm.timeo, Shutdown's linger, Backoff's base/max, the engine's heartbeat and MAXMSGSIZE fields) sees is the
   parsed value.  Executable definitions only.  The same definitions are REGENERATED from the Rust source on every
   run (vp/extract_options.py -> Extracted/OptionsX.v) and proved equal to these in Proofs/OptionsCheck.v. *)
From RZ Require Import Base.Prelude Model.Engine.
Local Open Scope Z_scope.

(* ---------- bytes <-> integers (from_ne_bytes / to_ne_bytes on a little-endian target) ---------- *)
Fixpoint le_val (b : bytes) : Z :=
  match b with [] => 0 | x :: r => Z.of_N x + 256 * le_val r end.
Definition wrap_signed (bits : Z) (u : Z) : Z :=
  let m := u mod 2 ^ bits in if m <? 2 ^ (bits - 1) then m else m - 2 ^ bits.
Definition i32_of (b : bytes) : option Z :=
  if Nat.eqb (length b) 4 then Some (wrap_signed 32 (le_val b)) else None.
Definition i64_of (b : bytes) : option Z :=
  if Nat.eqb (length b) 8 then Some (wrap_signed 64 (le_val b)) else None.
Fixpoint le_enc (n : nat) (u : Z) : bytes :=
  match n with O => [] | S k => Z.to_N (u mod 256) :: le_enc k (u / 256) end.
Definition i32_bytes (v : Z) : bytes := le_enc 4 (v mod 2 ^ 32).
Definition i64_bytes (v : Z) : bytes := le_enc 8 (v mod 2 ^ 64).
(* Rust `x as i32` from a wider unsigned integer: truncation to 32 bits, reinterpreted *)
Definition as_i32 (u : Z) : Z := wrap_signed 32 u.
(* `i32 as u64` / `as usize` / `as u32` *)
Definition as_u64 (v : Z) : Z := v mod 2 ^ 64.
Definition as_u32 (v : Z) : Z := v mod 2 ^ 32.
Definition i32_max : Z := 2147483647.
(* `u128.try_into().unwrap_or(i32::MAX)` *)
Definition sat_i32 (u : Z) : Z := if u <=? i32_max then u else i32_max.

(* ---------- option ids (options.rs:12-83) ---------- *)
Definition SNDBUF := 11.            Definition RCVBUF := 12.
Definition SNDHWM := 23.            Definition RCVHWM := 24.
Definition LINGER := 17.            Definition SUBSCRIBE := 6.          Definition UNSUBSCRIBE := 7.
Definition ROUTING_ID := 5.         Definition RECONNECT_IVL := 18.     Definition RECONNECT_IVL_MAX := 21.
Definition RCVTIMEO := 27.          Definition SNDTIMEO := 28.          Definition LAST_ENDPOINT := 32.
Definition TCP_KEEPALIVE := 34.     Definition TCP_KEEPALIVE_IDLE := 35.
Definition TCP_KEEPALIVE_CNT := 36. Definition TCP_KEEPALIVE_INTVL := 37.
Definition HEARTBEAT_IVL := 38.     Definition HEARTBEAT_TIMEOUT := 39. Definition HANDSHAKE_IVL := 41.
Definition ROUTER_MANDATORY := 33.  Definition AUTO_DELIMITER := 42.
Definition ZAP_DOMAIN := 55.        Definition PLAIN_SERVER := 44.
Definition PLAIN_USERNAME := 45.    Definition PLAIN_PASSWORD := 46.
Definition NOISE_XX_ENABLED := 1202.            Definition NOISE_XX_STATIC_SECRET_KEY := 1200.
Definition NOISE_XX_REMOTE_STATIC_PUBLIC_KEY := 1201.
Definition CURVE_SERVER := 47.      Definition CURVE_SECRET_KEY := 49.  Definition CURVE_SERVER_KEY := 48.
Definition MAXMSGSIZE := 22.        Definition MAX_CONNECTIONS := 1000.
Definition IO_URING_SNDZEROCOPY := 1170.        Definition IO_URING_RCVMULTISHOT := 1171.
Definition TCP_CORK := 1172.        Definition IO_URING_SESSION_ENABLED := 1175.
Definition IO_URING_ZC_SEND_THRESHOLD := 1176.
Definition ADAPTIVE_THROTTLE := 1210.           Definition ALLOW_ZMTP2 := 1220.
Definition SNDBATCH_COUNT := 1215.  Definition SNDBATCH_BYTES := 1216.
Definition RCVBATCH_COUNT := 1217.  Definition RCVBATCH_BYTES := 1218.
Definition ZMQ_TYPE := 16.

(* ---------- the integer parsers, as functions of the decoded i32 (durations in milliseconds) ---------- *)
Inductive pres := POk (o : option Z) | PErr (id : Z).

Definition parse_duration_ms (v : Z) : pres :=
  if v =? -1 then POk None else if 0 <=? v then POk (Some v) else PErr 0.
Definition parse_secs_duration (v : Z) : pres :=                       (* Duration::from_secs: kept in ms *)
  if 0 <=? v then POk (Some (1000 * v)) else PErr 0.
Definition parse_timeout (v id : Z) : pres :=
  if v =? -1 then POk None else if v =? 0 then POk (Some 0) else if 1 <=? v then POk (Some v) else PErr id.
Definition parse_linger (v : Z) : pres :=
  if v =? -1 then POk None else if 0 <=? v then POk (Some v) else PErr LINGER.
Definition parse_u32 (v : Z) : pres := if 0 <=? v then POk (Some v) else PErr 0.
Definition parse_keepalive_mode (v : Z) : pres :=
  if (-1 <=? v) && (v <=? 1) then POk (Some v) else PErr TCP_KEEPALIVE.
Definition parse_heartbeat (v id : Z) : pres :=
  if v =? 0 then POk None else if 1 <=? v then POk (Some v) else PErr id.
Definition parse_handshake (v id : Z) : pres :=
  if v =? 0 then POk None else if 1 <=? v then POk (Some v) else PErr id.
Definition parse_reconnect_ivl (v : Z) : pres :=
  if v =? -1 then POk None else if v =? 0 then POk None else if 1 <=? v then POk (Some v) else PErr RECONNECT_IVL.
Definition parse_reconnect_ivl_max (v : Z) : pres :=
  if v =? 0 then POk (Some 0) else if 1 <=? v then POk (Some v) else PErr RECONNECT_IVL_MAX.
Definition parse_max_connections (v id : Z) : pres :=
  if v =? -1 then POk None else if v =? 0 then PErr id else if 1 <=? v then POk (Some v) else PErr id.
Definition parse_maxmsgsize (v : Z) : pres :=                          (* v : i64 *)
  if v <? -1 then PErr MAXMSGSIZE else POk (Some v).

(* ---------- SocketOptions as a finite map field -> value ---------- *)
Inductive field :=
  | F_sndbuf | F_rcvbuf | F_sndhwm | F_rcvhwm | F_linger | F_routing_id | F_reconnect_ivl | F_reconnect_ivl_max
  | F_rcvtimeo | F_sndtimeo | F_tcp_keepalive_enabled | F_tcp_keepalive_idle | F_tcp_keepalive_count
  | F_tcp_keepalive_interval | F_heartbeat_ivl | F_heartbeat_timeout | F_handshake_ivl | F_maxmsgsize
  | F_max_connections | F_tcp_cork | F_allow_zmtp2 | F_zap_domain
  | F_plain_options_server_role | F_plain_options_username | F_plain_options_password | F_plain_options_enabled
  | F_curve_options_server_role | F_curve_options_secret_key | F_curve_options_server_public_key
  | F_curve_options_enabled
  | F_noise_xx_options_enabled | F_noise_xx_options_static_secret_key_bytes
  | F_noise_xx_options_remote_static_public_key_bytes
  | F_io_uring_session_enabled | F_io_uring_send_zerocopy | F_io_uring_recv_multishot | F_io_uring_zc_send_threshold
  | F_throttle_config_enabled | F_sndbatch_count | F_sndbatch_bytes | F_rcvbatch_count | F_rcvbatch_bytes.
Scheme Equality for field.

Definition all_fields : list field :=
  [F_sndbuf; F_rcvbuf; F_sndhwm; F_rcvhwm; F_linger; F_routing_id; F_reconnect_ivl; F_reconnect_ivl_max;
   F_rcvtimeo; F_sndtimeo; F_tcp_keepalive_enabled; F_tcp_keepalive_idle; F_tcp_keepalive_count;
   F_tcp_keepalive_interval; F_heartbeat_ivl; F_heartbeat_timeout; F_handshake_ivl; F_maxmsgsize;
   F_max_connections; F_tcp_cork; F_allow_zmtp2; F_zap_domain;
   F_plain_options_server_role; F_plain_options_username; F_plain_options_password; F_plain_options_enabled;
   F_curve_options_server_role; F_curve_options_secret_key; F_curve_options_server_public_key;
   F_curve_options_enabled;
   F_noise_xx_options_enabled; F_noise_xx_options_static_secret_key_bytes;
   F_noise_xx_options_remote_static_public_key_bytes;
   F_io_uring_session_enabled; F_io_uring_send_zerocopy; F_io_uring_recv_multishot; F_io_uring_zc_send_threshold;
   F_throttle_config_enabled; F_sndbatch_count; F_sndbatch_bytes; F_rcvbatch_count; F_rcvbatch_bytes].

Inductive oval :=
  | VZ (z : Z)                  (* usize / i32 / i64 *)
  | VOZ (o : option Z)          (* Option<Duration> (ms) / Option<usize> / Option<u32> *)
  | VB (b : bool)
  | VOB (o : option bool)
  | VOBy (o : option bytes).    (* Option<Blob> / Option<String> / Option<[u8; 32]> *)

Definition opts := field -> oval.
Definition oget (o : opts) (f : field) : oval := o f.
Definition oset (o : opts) (f : field) (v : oval) : opts := fun g => if field_beq g f then v else o g.

(* SocketOptions::default() (options.rs:152-203) *)
Definition default_opts : opts := fun f =>
  match f with
  | F_rcvhwm | F_sndhwm => VZ 256
  | F_rcvtimeo | F_sndtimeo => VOZ None
  | F_linger => VOZ (Some 0)
  | F_reconnect_ivl => VOZ (Some 1000)
  | F_reconnect_ivl_max => VOZ (Some 0)
  | F_routing_id | F_zap_domain => VOBy None
  | F_tcp_keepalive_enabled => VZ 0
  | F_tcp_keepalive_idle | F_tcp_keepalive_count | F_tcp_keepalive_interval => VOZ None
  | F_max_connections => VOZ (Some 1024)
  | F_maxmsgsize => VZ (-1)
  | F_heartbeat_ivl | F_heartbeat_timeout | F_handshake_ivl => VOZ None
  | F_allow_zmtp2 => VB true
  | F_tcp_cork => VB false
  | F_sndbuf | F_rcvbuf => VOZ None
  | F_plain_options_server_role => VOB None
  | F_plain_options_username | F_plain_options_password => VOBy None
  | F_plain_options_enabled => VB false
  | F_curve_options_server_role | F_curve_options_enabled => VB false
  | F_curve_options_secret_key | F_curve_options_server_public_key => VOBy None
  | F_noise_xx_options_enabled => VB false
  | F_noise_xx_options_static_secret_key_bytes | F_noise_xx_options_remote_static_public_key_bytes => VOBy None
  | F_io_uring_session_enabled | F_io_uring_send_zerocopy | F_io_uring_recv_multishot => VB false
  | F_io_uring_zc_send_threshold => VZ 16384
  | F_throttle_config_enabled => VB true        (* AdaptiveThrottleConfig::default(): enabled: true (throttle/types.rs) *)
  | F_sndbatch_count | F_rcvbatch_count => VZ 128
  | F_sndbatch_bytes | F_rcvbatch_bytes => VZ 262144
  end.

(* ---------- apply_core_option_value ---------- *)
Inductive oerr := EVal (id : Z) | EUnsupported (id : Z) | EInvalidOption (id : Z).

(* how one `match` arm of apply_core_option_value turns the byte string into the stored value *)
Inductive pk :=
  | KI32Max (lo : Z) (some : bool)   (* parse_i32_option(value)?.max(lo) as usize, `Some(..)` when some *)
  | KLinger | KTimeout | KReconnIvl | KReconnMax | KKaMode | KSecs | KU32 | KHeartbeat | KHandshake
  | KMaxMsg | KMaxConn
  | KBool (some : bool)              (* parse_bool_option, `Some(..)` when some *)
  | KBlob | KString (some : bool) | KKey32.

Definition of_pres (p : pres) : oval + oerr :=
  match p with POk o => inl (VOZ o) | PErr id => inr (EVal id) end.
(* `parse_i32_option(value)` with its own error InvalidOptionValue(0), or mapped to the option id *)
Definition with_i32 (b : bytes) (errid : Z) (k : Z -> oval + oerr) : oval + oerr :=
  match i32_of b with Some v => k v | None => inr (EVal errid) end.

Definition run_pk (k : pk) (id : Z) (b : bytes) : oval + oerr :=
  match k with
  | KI32Max lo some =>
      with_i32 b 0 (fun v => let u := Z.max v lo in inl (if some then VOZ (Some u) else VZ u))
  | KLinger => with_i32 b 0 (fun v => of_pres (parse_linger v))
  | KTimeout => with_i32 b id (fun v => of_pres (parse_timeout v id))
  | KReconnIvl => with_i32 b 0 (fun v => of_pres (parse_reconnect_ivl v))
  | KReconnMax => with_i32 b 0 (fun v => of_pres (parse_reconnect_ivl_max v))
  | KKaMode => with_i32 b 0 (fun v => match parse_keepalive_mode v with
                                       | POk (Some m) => inl (VZ m) | POk None => inl (VZ 0) | PErr e => inr (EVal e) end)
  | KSecs => with_i32 b 0 (fun v => of_pres (parse_secs_duration v))
  | KU32 => with_i32 b 0 (fun v => of_pres (parse_u32 v))
  | KHeartbeat => with_i32 b id (fun v => of_pres (parse_heartbeat v id))
  | KHandshake => with_i32 b id (fun v => of_pres (parse_handshake v id))
  | KMaxConn => with_i32 b id (fun v => of_pres (parse_max_connections v id))
  | KMaxMsg =>
      match i64_of b with
      | None => inr (EVal MAXMSGSIZE)
      | Some v => match parse_maxmsgsize v with POk (Some m) => inl (VZ m) | POk None => inl (VZ 0) | PErr e => inr (EVal e) end
      end
  | KBool some => with_i32 b 0 (fun v => let t := v =? 1 in inl (if some then VOB (Some t) else VB t))
  | KBlob => if Nat.leb (length b) 255 then inl (VOBy (Some b)) else inr (EVal ROUTING_ID)
  | KString _ => if utf8_valid b then inl (VOBy (Some b)) else inr (EVal id)
  | KKey32 => if Nat.eqb (length b) 32 then inl (VOBy (Some b)) else inr (EVal id)
  end.

(* one arm: option id, how to parse, which field receives the value, and the fields set to `true` alongside *)
Record rule := { r_id : Z; r_pk : pk; r_field : field; r_also : list field }.
Definition R id k f also := {| r_id := id; r_pk := k; r_field := f; r_also := also |}.

Definition apply_rules : list rule :=
  [ R SNDBUF (KI32Max 0 true) F_sndbuf []; R RCVBUF (KI32Max 0 true) F_rcvbuf [];
    R SNDHWM (KI32Max 0 false) F_sndhwm []; R RCVHWM (KI32Max 0 false) F_rcvhwm [];
    R LINGER KLinger F_linger []; R ROUTING_ID KBlob F_routing_id [];
    R RECONNECT_IVL KReconnIvl F_reconnect_ivl []; R RECONNECT_IVL_MAX KReconnMax F_reconnect_ivl_max [];
    R RCVTIMEO KTimeout F_rcvtimeo []; R SNDTIMEO KTimeout F_sndtimeo [];
    R TCP_KEEPALIVE KKaMode F_tcp_keepalive_enabled []; R TCP_KEEPALIVE_IDLE KSecs F_tcp_keepalive_idle [];
    R TCP_KEEPALIVE_CNT KU32 F_tcp_keepalive_count []; R TCP_KEEPALIVE_INTVL KSecs F_tcp_keepalive_interval [];
    R HEARTBEAT_IVL KHeartbeat F_heartbeat_ivl []; R HEARTBEAT_TIMEOUT KHeartbeat F_heartbeat_timeout [];
    R HANDSHAKE_IVL KHandshake F_handshake_ivl []; R MAXMSGSIZE KMaxMsg F_maxmsgsize [];
    R MAX_CONNECTIONS KMaxConn F_max_connections []; R TCP_CORK (KBool false) F_tcp_cork [];
    R ALLOW_ZMTP2 (KBool false) F_allow_zmtp2 []; R ZAP_DOMAIN (KString true) F_zap_domain [];
    R PLAIN_SERVER (KBool true) F_plain_options_server_role [F_plain_options_enabled];
    R PLAIN_USERNAME (KString true) F_plain_options_username [F_plain_options_enabled];
    R PLAIN_PASSWORD (KString true) F_plain_options_password [F_plain_options_enabled];
    R CURVE_SERVER (KBool false) F_curve_options_server_role [F_curve_options_enabled];
    R CURVE_SECRET_KEY KKey32 F_curve_options_secret_key [F_curve_options_enabled];
    R CURVE_SERVER_KEY KKey32 F_curve_options_server_public_key [F_curve_options_enabled];
    R NOISE_XX_ENABLED (KBool false) F_noise_xx_options_enabled [];
    R NOISE_XX_STATIC_SECRET_KEY KKey32 F_noise_xx_options_static_secret_key_bytes [];
    R NOISE_XX_REMOTE_STATIC_PUBLIC_KEY KKey32 F_noise_xx_options_remote_static_public_key_bytes [];
    R IO_URING_SESSION_ENABLED (KBool false) F_io_uring_session_enabled [];
    R IO_URING_SNDZEROCOPY (KBool false) F_io_uring_send_zerocopy [];
    R IO_URING_RCVMULTISHOT (KBool false) F_io_uring_recv_multishot [];
    R IO_URING_ZC_SEND_THRESHOLD (KI32Max 1 false) F_io_uring_zc_send_threshold [];
    R ADAPTIVE_THROTTLE (KBool false) F_throttle_config_enabled [];
    R SNDBATCH_COUNT (KI32Max 1 false) F_sndbatch_count []; R SNDBATCH_BYTES (KI32Max 1 false) F_sndbatch_bytes [];
    R RCVBATCH_COUNT (KI32Max 1 false) F_rcvbatch_count []; R RCVBATCH_BYTES (KI32Max 1 false) F_rcvbatch_bytes [] ].

(* the arm `SUBSCRIBE | UNSUBSCRIBE | LAST_ENDPOINT | ROUTER_MANDATORY | AUTO_DELIMITER | 16 => UnsupportedOption` *)
Definition apply_unsupported : list Z :=
  [SUBSCRIBE; UNSUBSCRIBE; LAST_ENDPOINT; ROUTER_MANDATORY; AUTO_DELIMITER; ZMQ_TYPE].

Definition find_rule (rules : list rule) (id : Z) : option rule := find (fun r => r_id r =? id) rules.

Definition apply_with (rules : list rule) (unsup : list Z) (o : opts) (id : Z) (b : bytes) : opts + oerr :=
  match find_rule rules id with
  | Some r =>
      match run_pk (r_pk r) id b with
      | inl v => inl (fold_left (fun o' f => oset o' f (VB true)) (r_also r) (oset o (r_field r) v))
      | inr e => inr e
      end
  | None => if existsb (Z.eqb id) unsup then inr (EUnsupported id) else inr (EInvalidOption id)
  end.
Definition apply_opt := apply_with apply_rules apply_unsupported.

(* ---------- retrieve_core_option_value ---------- *)
Inductive gk :=
  | GOptUsizeI32 (dflt : Z)   (* opt.map_or(dflt, |v| v as i32) *)
  | GUsizeI32                 (* (x as i32) *)
  | GMsSat                    (* map_or(-1, |d| d.as_millis().try_into().unwrap_or(i32::MAX)) *)
  | GMsTrunc                  (* map_or(0, |d| d.as_millis() as i32) *)
  | GSecsTrunc                (* map_or(0, |d| d.as_secs() as i32) *)
  | GI32 | GI64 | GBool | GOptBool | GBytes | GWriteOnly.
Inductive gres := GOk (b : bytes) | GNotSet | GDenied | GUnsupported (id : Z) | GInvalid (id : Z).

Definition run_gk (k : gk) (v : oval) : gres :=
  match k, v with
  | GOptUsizeI32 d, VOZ o => GOk (i32_bytes (match o with Some u => as_i32 u | None => d end))
  | GUsizeI32, VZ u => GOk (i32_bytes (as_i32 u))
  | GMsSat, VOZ o => GOk (i32_bytes (match o with Some ms => sat_i32 ms | None => -1 end))
  | GMsTrunc, VOZ o => GOk (i32_bytes (match o with Some ms => as_i32 ms | None => 0 end))
  | GSecsTrunc, VOZ o => GOk (i32_bytes (match o with Some ms => as_i32 (ms / 1000) | None => 0 end))
  | GI32, VZ z => GOk (i32_bytes z)
  | GI64, VZ z => GOk (i64_bytes z)
  | GBool, VB t => GOk (i32_bytes (if t then 1 else 0))
  | GOptBool, VOB (Some t) => GOk (i32_bytes (if t then 1 else 0))
  | GOptBool, VOB None => GNotSet
  | GBytes, VOBy (Some b) => GOk b
  | GBytes, VOBy None => GNotSet
  | GWriteOnly, _ => GDenied
  | _, _ => GNotSet                       (* ill-typed pairing: never reached by the rules below (get_rules_typed) *)
  end.

Definition get_rules : list (Z * gk * field) :=
  [ (SNDBUF, GOptUsizeI32 0, F_sndbuf); (RCVBUF, GOptUsizeI32 0, F_rcvbuf);
    (SNDHWM, GUsizeI32, F_sndhwm); (RCVHWM, GUsizeI32, F_rcvhwm);
    (LINGER, GMsSat, F_linger); (ROUTING_ID, GBytes, F_routing_id);
    (RECONNECT_IVL, GMsTrunc, F_reconnect_ivl); (RECONNECT_IVL_MAX, GMsTrunc, F_reconnect_ivl_max);
    (RCVTIMEO, GMsSat, F_rcvtimeo); (SNDTIMEO, GMsSat, F_sndtimeo);
    (TCP_KEEPALIVE, GI32, F_tcp_keepalive_enabled); (TCP_KEEPALIVE_IDLE, GSecsTrunc, F_tcp_keepalive_idle);
    (TCP_KEEPALIVE_CNT, GOptUsizeI32 0, F_tcp_keepalive_count); (TCP_KEEPALIVE_INTVL, GSecsTrunc, F_tcp_keepalive_interval);
    (HEARTBEAT_IVL, GMsTrunc, F_heartbeat_ivl); (HEARTBEAT_TIMEOUT, GMsTrunc, F_heartbeat_timeout);
    (HANDSHAKE_IVL, GMsTrunc, F_handshake_ivl); (MAXMSGSIZE, GI64, F_maxmsgsize);
    (MAX_CONNECTIONS, GOptUsizeI32 (-1), F_max_connections); (TCP_CORK, GBool, F_tcp_cork);
    (ALLOW_ZMTP2, GBool, F_allow_zmtp2); (ZAP_DOMAIN, GBytes, F_zap_domain);
    (PLAIN_SERVER, GOptBool, F_plain_options_server_role); (PLAIN_USERNAME, GBytes, F_plain_options_username);
    (PLAIN_PASSWORD, GWriteOnly, F_plain_options_password);
    (NOISE_XX_ENABLED, GBool, F_noise_xx_options_enabled);
    (NOISE_XX_STATIC_SECRET_KEY, GWriteOnly, F_noise_xx_options_static_secret_key_bytes);
    (NOISE_XX_REMOTE_STATIC_PUBLIC_KEY, GBytes, F_noise_xx_options_remote_static_public_key_bytes);
    (IO_URING_SESSION_ENABLED, GBool, F_io_uring_session_enabled);
    (IO_URING_SNDZEROCOPY, GBool, F_io_uring_send_zerocopy); (IO_URING_RCVMULTISHOT, GBool, F_io_uring_recv_multishot);
    (IO_URING_ZC_SEND_THRESHOLD, GUsizeI32, F_io_uring_zc_send_threshold);
    (ADAPTIVE_THROTTLE, GBool, F_throttle_config_enabled);
    (SNDBATCH_COUNT, GUsizeI32, F_sndbatch_count); (SNDBATCH_BYTES, GUsizeI32, F_sndbatch_bytes);
    (RCVBATCH_COUNT, GUsizeI32, F_rcvbatch_count); (RCVBATCH_BYTES, GUsizeI32, F_rcvbatch_bytes) ].
(* `SUBSCRIBE | UNSUBSCRIBE | ROUTER_MANDATORY | AUTO_DELIMITER => UnsupportedOption`; LAST_ENDPOINT and ZMQ_TYPE
   read CoreState and are outside this model (GNotSet stands for "answered from elsewhere") *)
Definition get_unsupported : list Z := [SUBSCRIBE; UNSUBSCRIBE; ROUTER_MANDATORY; AUTO_DELIMITER].
Definition get_elsewhere : list Z := [LAST_ENDPOINT; ZMQ_TYPE].

Definition retrieve_with (rules : list (Z * gk * field)) (unsup : list Z) (o : opts) (id : Z) : gres :=
  match find (fun '(i, _, _) => i =? id) rules with
  | Some (_, k, f) => run_gk k (oget o f)
  | None => if existsb (Z.eqb id) unsup then GUnsupported id
            else if existsb (Z.eqb id) get_elsewhere then GNotSet else GInvalid id
  end.
Definition retrieve_opt := retrieve_with get_rules get_unsupported.

(* ---------- a history of set_option calls ---------- *)
Fixpoint apply_all (o : opts) (ops : list (Z * bytes)) : opts * list (option oerr) :=
  match ops with
  | [] => (o, [])
  | (id, b) :: r =>
      match apply_opt o id b with
      | inl o' => let '(o2, l) := apply_all o' r in (o2, None :: l)
      | inr e => let '(o2, l) := apply_all o r in (o2, Some e :: l)
      end
  end.

(* ---------- what the other models read ---------- *)
(* Hwm.timeo / Shutdown's linger / the engine's heartbeat fields: Option<Duration> in ms *)
Definition as_timeo (v : oval) : option N :=
  match v with VOZ (Some ms) => Some (Z.to_N ms) | _ => None end.
Definition sndtimeo_of (o : opts) : option N := as_timeo (oget o F_sndtimeo).
Definition rcvtimeo_of (o : opts) : option N := as_timeo (oget o F_rcvtimeo).
Definition linger_of (o : opts) : option N := as_timeo (oget o F_linger).
Definition heartbeat_ivl_of (o : opts) : option N := as_timeo (oget o F_heartbeat_ivl).
Definition heartbeat_timeout_of (o : opts) : option N := as_timeo (oget o F_heartbeat_timeout).
Definition handshake_ivl_of (o : opts) : option N := as_timeo (oget o F_handshake_ivl).
Definition reconnect_ivl_of (o : opts) : option N := as_timeo (oget o F_reconnect_ivl).
Definition reconnect_ivl_max_of (o : opts) : option N := as_timeo (oget o F_reconnect_ivl_max).
Definition usize_of (v : oval) : N := match v with VZ z => Z.to_N z | _ => 0%N end.
Definition sndhwm_of (o : opts) : N := usize_of (oget o F_sndhwm).
Definition rcvhwm_of (o : opts) : N := usize_of (oget o F_rcvhwm).
Definition maxmsgsize_of (o : opts) : Z := match oget o F_maxmsgsize with VZ z => z | _ => -1 end.
