(* C16 - the context's WaitGroup + ActorDropGuard as a transition system over actor lifecycles, and the
   table of user operations against a closed / closing socket.

   Transcribed from the code:

   runtime/actor_drop_guard.rs
     ActorDropGuard::new(ctx, id, ty, uri, parent)  -> ctx.publish_actor_started(..)   (line 27)
         context.rs:305 publish_actor_started: publish ActorStarted; actor_wait_group.add(1)
     waive()      stopped_normally = true                                              (line 43)
     set_error(e) error = Some(e)                                                      (line 39)
     Drop         error = if !stopped_normally { error.take().or("Actor task cancelled/aborted") } else None;
                  ctx.publish_actor_stopping(id, ty, parent, uri, error)                (lines 48-82)
         context.rs:331 publish_actor_stopping: publish ActorStopping (best effort);
                  if wg.get_count() > 0 { wg.done() } else { warn!("... count was already zero") }
   Every actor creates its guard INSIDE its spawned task, as the first thing the task does when it is
   first polled - never before tokio::spawn:
     SocketCore command loop   spawn socket/core/mod.rs:88      guard socket/core/command_loop.rs:32
     TcpListener accept loop   spawn transport/tcp.rs:155       guard transport/tcp.rs:294
     TcpListener command loop  spawn transport/tcp.rs:180       guard transport/tcp.rs:193
     TcpConnecter              spawn transport/tcp.rs:683       guard transport/tcp.rs:692
     IpcListener accept loop   spawn transport/ipc.rs:106       guard transport/ipc.rs:242
     IpcListener command loop  spawn transport/ipc.rs:131       guard transport/ipc.rs:143
     IpcConnecter              spawn transport/ipc.rs:526       guard transport/ipc.rs:538
     SessionConnectionActorX   spawn sessionx/actor.rs:156      guard sessionx/actor.rs:168
   So a spawned task that has not been polled yet is alive but NOT counted; a task aborted before its
   first poll is never counted and never decremented. A task that returns, is aborted at an await, or
   panics drops its guard exactly once (Rust drops the local on every one of these paths).
   Context::term = shutdown() (publish ContextTerminating) + wait_for_termination():
     timeout(10 s, actor_wait_group.wait())  -- returns Ok(()) in BOTH cases (context.rs:151-184, 285-290). *)
From RZ Require Import Base.Prelude Model.WgWait.

Inductive astate :=
| ASpawned                          (* tokio::spawn returned; the task has not been polled: no guard yet *)
| ARunning (waived err : bool)      (* the guard exists *)
| AGone.                            (* the task is finished, cancelled or unwound; its guard (if any) was dropped *)

(* published ActorStopping events: (actor index, carries an error?) *)
Record lstate := {
  l_actors : list astate;
  l_count : nat;                    (* actor_wait_group count *)
  l_underflow : nat;                (* times the `count was already zero` branch was taken *)
  l_stopped : list (nat * bool)
}.
Definition l0 : lstate := {| l_actors := []; l_count := 0; l_underflow := 0; l_stopped := [] |}.

Inductive lev :=
| LSpawn                            (* tokio::spawn of a new actor task (index = number of actors so far) *)
| LStart (i : nat)                  (* first poll: ActorDropGuard::new *)
| LWaive (i : nat)
| LSetErr (i : nat)
| LExit (i : nat)                   (* the task's future returns *)
| LAbort (i : nat)                  (* JoinHandle::abort takes effect: the future is dropped where it stands *)
| LPanic (i : nat).                 (* the task panics: unwinding drops the guard *)

Fixpoint set_nth {A} (i : nat) (x : A) (l : list A) : list A :=
  match l, i with
  | [], _ => []
  | _ :: r, O => x :: r
  | y :: r, S k => y :: set_nth k x r
  end.

Definition actor (s : lstate) (i : nat) : option astate := nth_error (l_actors s) i.

(* Drop for ActorDropGuard of actor i *)
Definition guard_drop (s : lstate) (i : nat) (waived err : bool) : lstate :=
  let has_error := negb waived in                 (* a not-waived guard always reports an error (its own or "cancelled") *)
  let _ := err in
  match l_count s with
  | O => {| l_actors := set_nth i AGone (l_actors s); l_count := 0; l_underflow := S (l_underflow s);
            l_stopped := l_stopped s ++ [(i, has_error)] |}
  | S k => {| l_actors := set_nth i AGone (l_actors s); l_count := k; l_underflow := l_underflow s;
              l_stopped := l_stopped s ++ [(i, has_error)] |}
  end.

Definition set_actor (s : lstate) (i : nat) (a : astate) : lstate :=
  {| l_actors := set_nth i a (l_actors s); l_count := l_count s; l_underflow := l_underflow s; l_stopped := l_stopped s |}.

Definition l_step (s : lstate) (e : lev) : lstate :=
  match e with
  | LSpawn => {| l_actors := l_actors s ++ [ASpawned]; l_count := l_count s; l_underflow := l_underflow s;
                 l_stopped := l_stopped s |}
  | LStart i =>
      match actor s i with
      | Some ASpawned => {| l_actors := set_nth i (ARunning false false) (l_actors s); l_count := S (l_count s);
                            l_underflow := l_underflow s; l_stopped := l_stopped s |}
      | _ => s
      end
  | LWaive i => match actor s i with Some (ARunning _ e) => set_actor s i (ARunning true e) | _ => s end
  | LSetErr i => match actor s i with Some (ARunning w _) => set_actor s i (ARunning w true) | _ => s end
  | LExit i | LPanic i =>
      match actor s i with Some (ARunning w e) => guard_drop s i w e | _ => s end
  | LAbort i =>
      match actor s i with
      | Some (ARunning w e) => guard_drop s i w e
      | Some ASpawned => set_actor s i AGone          (* never polled: no guard was ever created *)
      | _ => s
      end
  end.
Definition l_run (evs : list lev) : lstate := fold_left l_step evs l0.

Definition is_live (a : astate) : bool := match a with AGone => false | _ => true end.
Definition is_guarded (a : astate) : bool := match a with ARunning _ _ => true | _ => false end.
Definition is_spawned (a : astate) : bool := match a with ASpawned => true | _ => false end.
Definition count_if (f : astate -> bool) (s : lstate) : nat := length (filter f (l_actors s)).
Definition live (s : lstate) : nat := count_if is_live s.
Definition guarded (s : lstate) : nat := count_if is_guarded s.
Definition unstarted (s : lstate) : nat := count_if is_spawned s.

(* ---- composition with WaitGroup::wait (Model/WgWait.v): actor events are the add()/done() calls,
   a zeroing done() notifies in a separate step, and the task inside Context::term takes steps of wait() ---- *)
Inductive csch :=
| CA (e : lev)        (* an actor event *)
| CN                  (* a done() that brought the count to zero calls notify_waiters() *)
| CW.                 (* one step of WaitGroup::wait *)

(* which WaitGroup operation the actor event performs in state s *)
Definition wg_ops (s : lstate) (e : lev) : list geop :=
  match e with
  | LStart i => match actor s i with Some ASpawned => [EAdd 1] | _ => [] end
  | LExit i | LPanic i | LAbort i =>
      match actor s i with
      | Some (ARunning _ _) => match l_count s with O => [] | S _ => [EDec] end
      | _ => []
      end
  | _ => []
  end.

Definition c_step (st : lstate * gst) (x : csch) : lstate * gst :=
  let '(ls, gs) := st in
  match x with
  | CA e => (l_step ls e, fold_left gestep (wg_ops ls e) gs)
  | CN => (ls, gestep gs ENotify)
  | CW => (ls, gsstep gs GW)
  end.
Definition c_run (xs : list csch) : lstate * gst := fold_left c_step xs (l0, g0 true).

(* ------------------------------------------------------------------------------------------------
   User operations against a socket that is closed or closing.
   Table transcribed from core/src/socket/{pub,sub,req,rep,dealer,router,push,pull}_socket.rs,
   socket/mod.rs (delegate_to_core!), socket/types.rs, socket/core/command_processor.rs:46-149,
   socket/core/command_loop.rs:56-62 and 315, socket/patterns/{ready_pipe_queue,load_balancer,
   outgoing_orchestrator,pipe_coordinator,distributor}.rs, sessionx/iface.rs.                         *)

Inductive stype := TPub | TSub | TReq | TRep | TDealer | TRouter | TPush | TPull.
Inductive uop := USend | USendMulti | URecv | URecvMulti | UDelegated.
   (* UDelegated = bind / connect / disconnect / unbind / set_option / get_option / monitor / close:
      all go through the core's mailbox with a oneshot reply *)

Inductive first_check :=
| FRunning            (* `if !self.core.is_running() { return Err(..) }` is the first statement *)
| FUnsupported        (* the socket type does not have the operation: unconditional Err *)
| FMailbox.           (* no local test: mailbox.send(cmd).await, then reply_rx.recv().await *)

Inductive await_kind :=
| ANone
| APop                (* ReadyPipeQueue::pop -> fibre ready_rx.recv(): ends when the LAST ReadyPipeSender clone is
                         gone; ReadyPipeQueue::close() only closes the queue's own clone *)
| AWaitConn           (* LoadBalancer::wait_for_connection: Notify + `deactivated` flag *)
| APipeSend           (* per-connection pipe send (ScaConnectionIface / DirectInprocConnection) *)
| ALockThenPermit     (* ROUTER: current_send_target mutex, then PipeCoordinator semaphore permit *)
| ATxLock             (* DEALER: transaction mutex, then queue/peer notifiers *)
| AReply.             (* the oneshot reply of a delegated command *)

Inductive waker :=
| WStopArm            (* the type's `Command::Stop` arm wakes it directly (deactivate / notify_waiters) *)
| WSessionsExit       (* the Stop arm closes the queue (ingress_engine.close()); the pending pop() returns as soon as the
                         sessions / pipe readers of the socket - which hold the other sender clones - have exited, which
                         close()/term() causes (removing the Stop arm's close() leaves recv() blocked: checked by mutation) *)
| WTimeout            (* only SNDTIMEO / the built-in 30 s (tcp, ipc) or 300 s (inproc) cap, or the peer, ends it *)
| WNobody.            (* nothing that close() or term() does ends it *)

Record oprow := { o_type : stype; o_op : uop; o_first : first_check; o_await : await_kind; o_waker : waker }.
Definition R t o f a w : oprow := {| o_type := t; o_op := o; o_first := f; o_await := a; o_waker := w |}.

Definition op_table : list oprow := [
  (* PUB  pub_socket.rs:65 send, :107 send_multipart, :103 recv, :151 recv_multipart; Stop arm :162 does nothing *)
  R TPub USend FRunning APipeSend WTimeout;        R TPub USendMulti FRunning APipeSend WTimeout;
  R TPub URecv FUnsupported ANone WStopArm;        R TPub URecvMulti FUnsupported ANone WStopArm;
  (* SUB  sub_socket.rs:147/159 send*, :151 recv, :163 recv_multipart; Stop arm :209 ingress_engine.close() *)
  R TSub USend FUnsupported ANone WStopArm;        R TSub USendMulti FUnsupported ANone WStopArm;
  R TSub URecv FRunning APop WSessionsExit;        R TSub URecvMulti FRunning APop WSessionsExit;
  (* REQ  req_socket.rs:109 send (no peer: load_balancer.wait_for_connection :145), :265 send_multipart,
          :185 recv (select with reply_available_notifier, woken by the Stop arm :313), :275 recv_multipart.
          The Stop arm calls load_balancer.deactivate() (since the fix: commit recorded in known_findings.json). *)
  R TReq USend FRunning AWaitConn WStopArm;        R TReq USendMulti FUnsupported ANone WStopArm;
  R TReq URecv FRunning APop WStopArm;             R TReq URecvMulti FRunning APop WSessionsExit;
  (* REP  rep_socket.rs:130 send, :164 send_multipart, :142 recv, :228 recv_multipart; Stop arm :252 *)
  R TRep USend FRunning APipeSend WTimeout;        R TRep USendMulti FRunning APipeSend WTimeout;
  R TRep URecv FRunning APop WSessionsExit;        R TRep URecvMulti FRunning APop WSessionsExit;
  (* DEALER dealer_socket.rs:293 send, :387 send_multipart, :442 recv, :473 recv_multipart; Stop arm :508
            (ingress close, orchestrator deactivate, processor stop, notify_waiters on both notifiers) *)
  R TDealer USend FRunning ATxLock WStopArm;       R TDealer USendMulti FRunning ATxLock WStopArm;
  R TDealer URecv FRunning APop WSessionsExit;     R TDealer URecvMulti FRunning APop WSessionsExit;
  (* ROUTER router_socket.rs:319 send, :543 send_multipart, :511 recv, :679 recv_multipart; Stop arm :724 *)
  R TRouter USend FRunning ALockThenPermit WTimeout;  R TRouter USendMulti FRunning ALockThenPermit WTimeout;
  R TRouter URecv FRunning APop WSessionsExit;     R TRouter URecvMulti FRunning APop WSessionsExit;
  (* PUSH  push_socket.rs:65 send, :95 send_multipart (no peer: wait_for_connection; all peers full: pipe send),
           :89/:119 recv*; Stop arm :145 outgoing_orchestrator.deactivate() *)
  R TPush USend FRunning AWaitConn WStopArm;       R TPush USendMulti FRunning AWaitConn WStopArm;
  R TPush URecv FUnsupported ANone WStopArm;       R TPush URecvMulti FUnsupported ANone WStopArm;
  (* PULL  pull_socket.rs:60/:72 send*, :64 recv, :76 recv_multipart; Stop arm :99 ingress_engine.close() *)
  R TPull USend FUnsupported ANone WStopArm;       R TPull USendMulti FUnsupported ANone WStopArm;
  R TPull URecv FRunning APop WSessionsExit;       R TPull URecvMulti FRunning APop WSessionsExit;
  (* every type: socket/mod.rs:42-74 delegate_to_core!, socket/types.rs:195 monitor *)
  R TPub UDelegated FMailbox AReply WNobody;       R TSub UDelegated FMailbox AReply WNobody;
  R TReq UDelegated FMailbox AReply WNobody;       R TRep UDelegated FMailbox AReply WNobody;
  R TDealer UDelegated FMailbox AReply WNobody;    R TRouter UDelegated FMailbox AReply WNobody;
  R TPush UDelegated FMailbox AReply WNobody;      R TPull UDelegated FMailbox AReply WNobody ].

Definition all_types : list stype := [TPub; TSub; TReq; TRep; TDealer; TRouter; TPush; TPull].
Definition all_ops : list uop := [USend; USendMulti; URecv; URecvMulti; UDelegated].

Definition stype_eqb (a b : stype) : bool :=
  match a, b with
  | TPub, TPub | TSub, TSub | TReq, TReq | TRep, TRep | TDealer, TDealer | TRouter, TRouter
  | TPush, TPush | TPull, TPull => true
  | _, _ => false
  end.
Definition uop_eqb (a b : uop) : bool :=
  match a, b with
  | USend, USend | USendMulti, USendMulti | URecv, URecv | URecvMulti, URecvMulti | UDelegated, UDelegated => true
  | _, _ => false
  end.
Definition lookup (t : stype) (o : uop) : option oprow :=
  find (fun r => stype_eqb (o_type r) t && uop_eqb (o_op r) o) op_table.
Definition table_complete : bool :=
  forallb (fun t => forallb (fun o => match lookup t o with Some _ => true | None => false end) all_ops) all_types
  && (length op_table =? length all_types * length all_ops)%nat.

(* where the core's command loop is when a delegated command is put into the mailbox
   (command_loop.rs: the loop `break`s as soon as it reads phase Finished, runs the post-loop section, then
   DRAINS the mailbox with try_recv - every drained command goes through process_socket_command, which
   answers "shutting down" because the phase is not Running - and closes the receiver at once; the handles
   keep the channel alive, so a command that is queued and not drained keeps its reply sender forever) *)
Inductive loop_point :=
| LoopServing         (* the loop will call command_receiver.recv() again: the command is answered *)
| LoopLastRecvDone    (* the loop has received its last command (it is inside the handler that finishes the
                         shutdown, or past the `break`) but the drain has not seen Empty yet: answered by the drain *)
| LoopDrained         (* between the drain's last try_recv (Empty) and command_receiver.close(): two adjacent
                         statements; only another thread of a multi-thread runtime can get in *)
| LoopDropped.        (* the receiver is closed: mailbox.send fails *)

Inductive outcome := ErrPrompt | OkPrompt | HangsForever.

(* an operation that is ISSUED after close()/term() has made the socket not-running *)
Definition after_close (r : oprow) (lp : loop_point) : outcome :=
  match o_first r with
  | FRunning | FUnsupported => ErrPrompt
  | FMailbox =>
      match lp with
      | LoopServing => ErrPrompt        (* command_processor.rs:116-136 Err(InvalidState("Socket is shutting down")) *)
      | LoopLastRecvDone => ErrPrompt   (* drained after the loop: Err(InvalidState("Socket is shutting down")) *)
      | LoopDrained => HangsForever     (* queued, never dequeued; its reply sender lives as long as the queue *)
      | LoopDropped => ErrPrompt        (* Err(Internal("Mailbox send error")) *)
      end
  end.

Inductive blocked_outcome := Woken | BoundedByTimeout | StaysBlocked.
(* an operation that is BLOCKED in its first await when close()/term() happens *)
Definition blocked_at_close (r : oprow) : blocked_outcome :=
  match o_await r, o_waker r with
  | ANone, _ => Woken
  | _, WStopArm | _, WSessionsExit => Woken
  | _, WTimeout => BoundedByTimeout
  | _, WNobody => StaysBlocked
  end.
