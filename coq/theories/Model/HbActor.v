(* The session actor's heartbeat shell (core/src/sessionx/actor.rs, operational loop): two timers around the engine.
     ping_check_timer   tokio interval (first tick one HEARTBEAT_IVL after the session started, then every IVL,
                        MissedTickBehavior::Delay): each tick calls engine.on_tick(now); a PeerError is fatal
     pong_timeout_future  re-created on every loop iteration: sleep_until(engine.get_pong_deadline()) while the
                        engine waits for a PONG; when it fires: set_fatal_error(Timeout)
   plus the two ways the engine's activity stamp is refreshed: bytes from the peer (on_network_bytes) and
   record_activity() after every successful outbound write (the PING's own write included).
   Executable definitions only; proofs in Proofs/HbActorProofs.v. *)
From RZ Require Import Base.Prelude Base.Stepper Model.Codec Model.Engine.
Local Open Scope N_scope.

Inductive aev :=
| ATick (now : N)              (* the interval fired and the loop got to it at time now *)
| ADeadline (now : N)          (* the loop polls pong_timeout_future at time now *)
| ANet (d : bytes) (now : N)
| AWrote (now : N)
| AApp (m : list frame).

Record ast := { a_eng : engine; a_fatal : option errclass }.
Definition a_new (now : N) : ast := {| a_eng := e_new now; a_fatal := None |}.

Definition first_err (o : list eout) : option errclass :=
  match filter (fun x => match x with OErr _ => true | _ => false end) o with
  | OErr e :: _ => Some e
  | _ => None
  end.

(* outputs: what goes to the wire (PINGs / PONGs / data) - the egress path is C01's and C19's priority rule *)
Definition a_step (cfg : ecfg) (s : ast) (e : aev) : ast * list eout :=
  match a_fatal s with
  | Some _ => (s, [])
  | None =>
      match e with
      | ATick now =>
          let '(g, o) := e_tick cfg (a_eng s) now in
          ({| a_eng := g; a_fatal := first_err o |}, o)
      | ADeadline now =>
          match e_pong_deadline cfg (a_eng s) with
          | Some d => if d <=? now then ({| a_eng := a_eng s; a_fatal := Some ETimeout |}, [OErr ETimeout])
                      else (s, [])
          | None => (s, [])
          end
      | ANet d now =>
          let '(g, o) := e_net cfg (a_eng s) d now in
          ({| a_eng := g; a_fatal := first_err o |}, o)
      | AWrote now => ({| a_eng := fst (e_wrote cfg (a_eng s) now); a_fatal := None |}, [])
      | AApp m => let '(g, o) := e_app cfg (a_eng s) m in ({| a_eng := g; a_fatal := None |}, o)
      end
  end.

Fixpoint a_run (cfg : ecfg) (s : ast) (es : list aev) : ast * list (list eout) :=
  match es with
  | [] => (s, [])
  | e :: rest =>
      let '(s1, o) := a_step cfg s e in
      let '(s2, os) := a_run cfg s1 rest in (s2, o :: os)
  end.

Definition ev_time (e : aev) : option N :=
  match e with ATick t | ADeadline t | ANet _ t | AWrote t => Some t | AApp _ => None end.
