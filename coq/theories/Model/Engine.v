(* Executable model of the sans-IO ZMTP engine, core/src/protocol/zmtp/engine.rs, with
   greeting.rs, command.rs, security/mod.rs (negotiate), security/plain.rs, security/null.rs.
   The handlers are cut into micro-steps over the read accumulator ([estep]); the nested
   handler calls of the Rust code are the iteration of [estep] ([Stepper.pump]).
   Heartbeat times are kept outside the stepper (see [hb] and [e_net]). *)
From RZ Require Import Base.Prelude Base.Stepper Model.Codec.
Local Open Scope N_scope.

(* ---------- small byte-string helpers ---------- *)
Fixpoint bytes_eqb (a b : bytes) : bool :=
  match a, b with
  | [], [] => true
  | x :: a', y :: b' => (x =? y) && bytes_eqb a' b'
  | _, _ => false
  end.
Fixpoint starts_with (p b : bytes) : bool :=
  match p, b with
  | [], _ => true
  | x :: p', y :: b' => (x =? y) && starts_with p' b'
  | _ :: _, [] => false
  end.
Definition opt_bytes_eqb (a : option bytes) (b : bytes) : bool :=
  match a with Some x => bytes_eqb x b | None => false end.

(* ASCII literals used by the protocol *)
Definition s_NULL : bytes := [78; 85; 76; 76].
Definition s_PLAIN : bytes := [80; 76; 65; 73; 78].
Definition s_CURVE : bytes := [67; 85; 82; 86; 69].
Definition s_NOISE_XX : bytes := [78; 79; 73; 83; 69; 95; 88; 88].
Definition s_READY : bytes := [82; 69; 65; 68; 89].
Definition s_ERROR : bytes := [69; 82; 82; 79; 82].
Definition s_PING : bytes := [80; 73; 78; 71].
Definition s_PONG : bytes := [80; 79; 78; 71].
Definition s_HELLO : bytes := [72; 69; 76; 76; 79].
Definition s_WELCOME : bytes := [87; 69; 76; 67; 79; 77; 69].
Definition s_SocketType : bytes := [83; 111; 99; 107; 101; 116; 45; 84; 121; 112; 101].
Definition s_Identity : bytes := [73; 100; 101; 110; 116; 105; 116; 121].
Definition s_PAIR : bytes := [80; 65; 73; 82].
Definition s_PUB : bytes := [80; 85; 66].
Definition s_SUB : bytes := [83; 85; 66].
Definition s_REQ : bytes := [82; 69; 81].
Definition s_REP : bytes := [82; 69; 80].
Definition s_DEALER : bytes := [68; 69; 65; 76; 69; 82].
Definition s_ROUTER : bytes := [82; 79; 85; 84; 69; 82].
Definition s_PULL : bytes := [80; 85; 76; 76].
Definition s_PUSH : bytes := [80; 85; 83; 72].
Definition s_XPUB : bytes := [88; 80; 85; 66].
Definition s_XSUB : bytes := [88; 83; 85; 66].

Definition pad_to (n : nat) (b : bytes) : bytes := b ++ repeat 0 (n - length b).
Definition mech_field (name : bytes) : bytes := pad_to 20 name.

(* greeting.rs: socket_type_code / socket_type_name_from_code *)
Definition stype_names : list (N * bytes) :=
  [(0, s_PAIR); (1, s_PUB); (2, s_SUB); (3, s_REQ); (4, s_REP); (5, s_DEALER); (6, s_ROUTER);
   (7, s_PULL); (8, s_PUSH); (9, s_XPUB); (10, s_XSUB)].
Definition stype_name (code : N) : option bytes :=
  match find (fun '(c, _) => c =? code) stype_names with Some (_, n) => Some n | None => None end.
Definition stype_code (name : bytes) : option N :=
  match find (fun '(_, n) => bytes_eqb n name) stype_names with Some (c, _) => Some c | None => None end.

(* engine.rs validate_v2_compatibility: the `matches!` table as (own name, peer code) pairs *)
Definition v2_table : list (bytes * N) :=
  [(s_PULL, 8); (s_PUSH, 7); (s_PUB, 2); (s_SUB, 1); (s_PUB, 10); (s_XSUB, 1); (s_XPUB, 2); (s_SUB, 9);
   (s_XPUB, 10); (s_XSUB, 9); (s_REQ, 4); (s_REP, 3); (s_REQ, 6); (s_ROUTER, 3); (s_REP, 5); (s_DEALER, 4);
   (s_DEALER, 6); (s_ROUTER, 5); (s_DEALER, 5); (s_ROUTER, 6); (s_PAIR, 0)].
Definition v2_compat (own : bytes) (peer_code : N) : bool :=
  match stype_name peer_code with
  | None => false
  | Some _ => existsb (fun '(o, c) => bytes_eqb o own && (c =? peer_code)) v2_table
  end.

(* ---------- UTF-8 validity (String::from_utf8) ---------- *)
Definition cont (b : N) : bool := (128 <=? b) && (b <=? 191).
Fixpoint utf8_valid_fuel (fuel : nat) (b : bytes) : bool :=
  match fuel with
  | O => true
  | S f =>
      match b with
      | [] => true
      | x :: r =>
          if x <? 128 then utf8_valid_fuel f r
          else if (194 <=? x) && (x <=? 223) then
            match r with c1 :: r' => cont c1 && utf8_valid_fuel f r' | _ => false end
          else if x =? 224 then
            match r with c1 :: c2 :: r' => (160 <=? c1) && (c1 <=? 191) && cont c2 && utf8_valid_fuel f r' | _ => false end
          else if ((225 <=? x) && (x <=? 236)) || (x =? 238) || (x =? 239) then
            match r with c1 :: c2 :: r' => cont c1 && cont c2 && utf8_valid_fuel f r' | _ => false end
          else if x =? 237 then
            match r with c1 :: c2 :: r' => (128 <=? c1) && (c1 <=? 159) && cont c2 && utf8_valid_fuel f r' | _ => false end
          else if x =? 240 then
            match r with c1 :: c2 :: c3 :: r' => (144 <=? c1) && (c1 <=? 191) && cont c2 && cont c3 && utf8_valid_fuel f r' | _ => false end
          else if (241 <=? x) && (x <=? 243) then
            match r with c1 :: c2 :: c3 :: r' => cont c1 && cont c2 && cont c3 && utf8_valid_fuel f r' | _ => false end
          else if x =? 244 then
            match r with c1 :: c2 :: c3 :: r' => (128 <=? c1) && (c1 <=? 143) && cont c2 && cont c3 && utf8_valid_fuel f r' | _ => false end
          else false
      end
  end.
Definition utf8_valid (b : bytes) : bool := utf8_valid_fuel (S (length b)) b.

(* ---------- READY metadata (command.rs ZmtpReady::parse_properties / encode_properties) ---------- *)
Fixpoint parse_props_fuel (fuel : nat) (b : bytes) (acc : list (bytes * bytes)) : option (list (bytes * bytes)) :=
  match fuel with
  | O => None
  | S f =>
      match b with
      | [] => Some acc
      | nl :: r =>
          let nl' := N.to_nat nl in
          if (length r <? nl')%nat then None else
          let name := firstn nl' r in
          if negb (utf8_valid name) then None else
          let r2 := skipn nl' r in
          if (length r2 <? 4)%nat then None else
          let vN := be_val (firstn 4 r2) in
          let r3 := skipn 4 r2 in
          (* compare in N before converting: vm_compute is call-by-value *)
          if len r3 <? vN then None else
          parse_props_fuel f (skipn (N.to_nat vN) r3) (acc ++ [(name, firstn (N.to_nat vN) r3)])
      end
  end.
Definition parse_props (b : bytes) : option (list (bytes * bytes)) := parse_props_fuel (S (length b)) b [].
(* HashMap::insert semantics: the last occurrence of a key wins *)
Definition prop_get (k : bytes) (ps : list (bytes * bytes)) : option bytes :=
  match find (fun '(n, _) => bytes_eqb n k) (rev ps) with Some (_, v) => Some v | None => None end.

Definition enc_prop (name value : bytes) : bytes :=
  [len name] ++ name ++ be_bytes 4 (len value mod 4294967296) ++ value.

Definition cmd_frame (body : bytes) : frame := {| f_more := false; f_cmd := true; f_payload := body |}.
Definition data_frame (more : bool) (body : bytes) : frame := {| f_more := more; f_cmd := false; f_payload := body |}.

(* ---------- commands (command.rs ZmtpCommand::parse) ---------- *)
Inductive zcmd := CPing (ctx : bytes) | CPong (ctx : bytes) | CReady (ps : list (bytes * bytes)) | CError | CUnknown | CNone.
Definition parse_cmd (f : frame) : zcmd :=
  if negb (f_cmd f) || f_more f then CNone else
  let body := f_payload f in
  if starts_with (4 :: s_PING) body && (7 <=? length body)%nat then CPing (skipn 7 body)
  else if starts_with (4 :: s_PONG) body && (5 <=? length body)%nat then CPong (skipn 5 body)
  else if starts_with (5 :: s_READY) body && (6 <=? length body)%nat then
    match parse_props (skipn 6 body) with Some ps => CReady ps | None => CNone end
  else if starts_with (5 :: s_ERROR) body then CError
  else CUnknown.
Definition ping_body (ttl : N) (ctx : bytes) : bytes := (4 :: s_PING) ++ be_bytes 2 (ttl mod 65536) ++ ctx.
Definition pong_body (ctx : bytes) : bytes := (4 :: s_PONG) ++ ctx.

(* ---------- configuration (the fields of ZmtpEngineConfig the engine reads) ---------- *)
Record ecfg := {
  c_server : bool;
  c_stype : bytes;                 (* socket_type_name *)
  c_rid : option bytes;            (* routing_id *)
  c_sec_enabled : bool;
  c_allow_v2 : bool;
  c_use_plain : bool;
  c_use_curve : bool;
  c_use_noise : bool;
  c_plain_user : option bytes;
  c_plain_pass : option bytes;
  c_opaque_ok : bool;              (* keys for the configured CURVE/NOISE mechanism are present *)
  c_hb_ivl : option N;             (* nanoseconds *)
  c_hb_timeout : option N;
  c_cork : bool;
  c_zc : bool;
  c_maxsz : Z
}.

Inductive errclass := EProto | ESecurity | EAuth | ETimeout | EInternal | EInvalidState.

Inductive eout :=
| OSend (b : bytes) (zc : bool)
| OSendOpaque                     (* a token produced by CURVE/NOISE: content not modelled *)
| OCork (on : bool)
| OClose (delay_ms : option N)
| OHandshake (id : option bytes) (ptype : option bytes)
| ODeliver (fs : list frame)
| OErr (e : errclass)
| OPanic                          (* the Rust code panics here *)
| OActivity                       (* internal marker: last_activity_time := now *)
| OPongSeen.                      (* internal marker: waiting_for_pong := false *)

(* ---------- mechanisms ---------- *)
Inductive pstate := PCSendHello | PCExpectWelcome | PSExpectHello | PSSendWelcome | PDone | PError.
Inductive mech :=
| MNull
| MPlain (server : bool) (ps : pstate)
| MOpaque (server : bool) (sent : bool) (failed : bool).  (* CURVE / NOISE_XX, attacker without keys *)

Definition mech_complete (m : mech) : bool :=
  match m with MNull => true | MPlain _ PDone => true | _ => false end.
Definition mech_is_error (m : mech) : bool :=
  match m with MPlain _ PError => true | MOpaque _ _ true => true | _ => false end.

(* plain.rs parse_hello_body *)
Definition parse_hello (body : bytes) : option (bytes * bytes) :=
  if (length body <? 2)%nat then None else
  match body with
  | [] => None
  | ul :: r =>
      let ul' := N.to_nat ul in
      if (length r <? ul' + 1)%nat then None else
      let user := firstn ul' r in
      match skipn ul' r with
      | [] => None
      | pl :: r2 =>
          let pl' := N.to_nat pl in
          if (length r2 <? pl')%nat then None else Some (user, firstn pl' r2)
      end
  end.
Definition hello_body (user pass : bytes) : bytes :=
  let u := firstn 255 user in let p := firstn 255 pass in
  [len u] ++ u ++ [len p] ++ p.

(* process_token: new mechanism state + Some error (Err(e)) or None (Ok) *)
Definition m_process (cfg : ecfg) (m : mech) (token : bytes) : mech * option errclass :=
  match m with
  | MNull => (MNull, None)
  | MOpaque s snt _ => (MOpaque s snt true, Some ESecurity)
  | MPlain server ps =>
      match token with
      | [] => (MPlain server PError, Some ESecurity)
      | cl :: r =>
          let cl' := N.to_nat cl in
          if (length r <? cl')%nat then (MPlain server PError, Some ESecurity) else
          let name := firstn cl' r in
          let body := skipn cl' r in
          if server then
            match ps with
            | PSExpectHello =>
                if bytes_eqb name s_HELLO then
                  match parse_hello body with
                  | Some (u, p) =>
                      if opt_bytes_eqb (c_plain_user cfg) u && opt_bytes_eqb (c_plain_pass cfg) p
                      then (MPlain server PSSendWelcome, None)
                      else (MPlain server PError, Some EAuth)
                  | None => (MPlain server PError, Some ESecurity)
                  end
                else (MPlain server PError, Some ESecurity)
            | _ => (MPlain server PError, Some ESecurity)
            end
          else
            match ps with
            | PCExpectWelcome =>
                if bytes_eqb name s_WELCOME then (MPlain server PDone, None)
                else if bytes_eqb name s_ERROR then (MPlain server PError, Some EAuth)
                else (MPlain server PError, Some ESecurity)
            | _ => (MPlain server PError, Some ESecurity)
            end
      end
  end.

Inductive produced := PrNone | PrToken (b : bytes) | PrOpaque.
Definition opt_or_empty (o : option bytes) : bytes := match o with Some b => b | None => [] end.
Definition m_produce (cfg : ecfg) (m : mech) : mech * produced :=
  match m with
  | MPlain server PCSendHello =>
      (MPlain server PCExpectWelcome,
       PrToken ((5 :: s_HELLO) ++ hello_body (opt_or_empty (c_plain_user cfg)) (opt_or_empty (c_plain_pass cfg))))
  | MPlain server PSSendWelcome => (MPlain server PDone, PrToken (7 :: s_WELCOME))
  | MOpaque false false f => (MOpaque false true f, PrOpaque)
  | _ => (m, PrNone)
  end.
Definition mech_mu (m : mech) : nat :=
  match m with
  | MPlain _ PCSendHello | MPlain _ PSSendWelcome => 1%nat
  | MOpaque false false _ => 1%nat
  | _ => 0%nat
  end.

(* security/mod.rs negotiate_security_mechanism: exact 20-byte match, then "locally enabled" *)
Definition negotiate (cfg : ecfg) (field : bytes) : mech + errclass :=
  if bytes_eqb field (mech_field s_NULL) then
    (if negb (c_sec_enabled cfg) then inl MNull else inr ESecurity)
  else if bytes_eqb field (mech_field s_PLAIN) then
    (if c_use_plain cfg then inl (MPlain (c_server cfg) (if c_server cfg then PSExpectHello else PCSendHello))
     else inr ESecurity)
  else if bytes_eqb field (mech_field s_CURVE) then
    (if c_use_curve cfg then (if c_opaque_ok cfg then inl (MOpaque (c_server cfg) false false) else inr ESecurity)
     else inr ESecurity)
  else if bytes_eqb field (mech_field s_NOISE_XX) then
    (if c_use_noise cfg then (if c_opaque_ok cfg then inl (MOpaque (c_server cfg) false false) else inr ESecurity)
     else inr ESecurity)
  else inr ESecurity.

(* engine.rs local_mechanism_name_bytes *)
Definition local_mech_name (cfg : ecfg) : bytes :=
  if c_use_plain cfg then s_PLAIN else if c_use_curve cfg then s_CURVE
  else if c_use_noise cfg then s_NOISE_XX else s_NULL.

Definition bn (b : bool) : N := if b then 1 else 0.
Definition signature : bytes := 255 :: repeat 0 8 ++ [127].
Definition v3_tail (cfg : ecfg) : bytes :=
  [0] ++ mech_field (local_mech_name cfg) ++ [bn (c_server cfg)] ++ repeat 0 31.

(* greeting.rs ZmtpGreeting::decode on exactly 64 bytes: Some (mechanism field, as_server) or None = Err *)
Definition greeting_decode (g : bytes) : option (bytes * bool) :=
  if negb (nth 0 g 0 =? 255) then None else
  if negb (forallb (fun b => b =? 0) (skipn 33 g)) then None else
  if negb (nth 10 g 0 =? 3) then None else
  let asb := nth 32 g 0 in
  if asb =? 0 then Some (firstn 20 (skipn 12 g), false)
  else if asb =? 1 then Some (firstn 20 (skipn 12 g), true)
  else None.

(* build_local_ready_props + ZmtpReady::create_msg, canonical order Socket-Type then Identity
   (the real order is HashMap iteration order; the harness canonicalises it) *)
Definition ready_body (cfg : ecfg) : bytes :=
  (5 :: s_READY) ++ enc_prop s_SocketType (c_stype cfg) ++
  match c_rid cfg with
  | Some ((_ :: _) as rid) => enc_prop s_Identity rid
  | _ => []
  end.
Definition ready_send (cfg : ecfg) : eout := OSend (enc_codec (cmd_frame (ready_body cfg))) false.

Definition cork_types (t : bytes) : bool :=
  bytes_eqb t s_PUSH || bytes_eqb t s_PULL || bytes_eqb t s_PUB || bytes_eqb t s_SUB.
Definition cork_out (cfg : ecfg) : list eout :=
  if c_cork cfg && cork_types (c_stype cfg) then [OCork true] else [].

(* ---------- engine state (time-free part) ---------- *)
Inductive phase := PGreeting | PSecurity | PReady | PV2Identity | PData | PClosed.
Inductive version := V2 | V3.
Record estate := {
  e_phase : phase;
  e_version : option version;
  e_rev_sent : bool;
  e_v2_sent : bool;
  e_v2_peer : option bytes;
  e_mech : mech;
  e_partial : list frame
}.
Definition e_init : estate :=
  {| e_phase := PGreeting; e_version := None; e_rev_sent := false; e_v2_sent := false;
     e_v2_peer := None; e_mech := MNull; e_partial := [] |}.
Definition set_phase (st : estate) (p : phase) : estate :=
  {| e_phase := p; e_version := e_version st; e_rev_sent := e_rev_sent st; e_v2_sent := e_v2_sent st;
     e_v2_peer := e_v2_peer st; e_mech := e_mech st; e_partial := e_partial st |}.
Definition set_mech (st : estate) (m : mech) : estate :=
  {| e_phase := e_phase st; e_version := e_version st; e_rev_sent := e_rev_sent st; e_v2_sent := e_v2_sent st;
     e_v2_peer := e_v2_peer st; e_mech := m; e_partial := e_partial st |}.
Definition set_partial (st : estate) (p : list frame) : estate :=
  {| e_phase := e_phase st; e_version := e_version st; e_rev_sent := e_rev_sent st; e_v2_sent := e_v2_sent st;
     e_v2_peer := e_v2_peer st; e_mech := e_mech st; e_partial := p |}.
Definition closed (st : estate) : estate := set_phase st PClosed.
Definition fail0 (st : estate) (e : errclass) : res estate eout := Step (closed st) 0 [OErr e].

(* process_ready: `peer_socket_type.as_deref().and_then(socket_type_code)` then validate_v2_compatibility *)
Definition ready_incompatible (cfg : ecfg) (ps : list (bytes * bytes)) : bool :=
  match prop_get s_SocketType ps with
  | Some t => match stype_code t with Some c => negb (v2_compat (c_stype cfg) c) | None => false end
  | None => false
  end.

Definition MAX_FRAMES : nat := 255.  (* VecU8 capacity of FrameBatch::Many *)

(* one micro-step of the handler for the current phase *)
Definition estep (cfg : ecfg) (st : estate) (buf : bytes) : res estate eout :=
  match e_phase st with
  | PClosed => Need
  | PGreeting =>
      if negb (e_rev_sent st) then
        (* Stage B *)
        if (length buf <? 10)%nat then Need else
        if (nth 0 buf 0 =? 255) && (nth 9 buf 0 =? 127) then
          Step {| e_phase := PGreeting; e_version := e_version st; e_rev_sent := true; e_v2_sent := e_v2_sent st;
                  e_v2_peer := e_v2_peer st; e_mech := e_mech st; e_partial := e_partial st |} 0 [OSend [3] false]
        else fail0 st EProto
      else
        match e_version st with
        | None =>
            (* Stage C *)
            if (length buf <? 11)%nat then Need else
            let rev := nth 10 buf 0 in
            if 3 <=? rev then
              Step {| e_phase := PGreeting; e_version := Some V3; e_rev_sent := true; e_v2_sent := e_v2_sent st;
                      e_v2_peer := e_v2_peer st; e_mech := e_mech st; e_partial := e_partial st |} 0
                   [OSend (v3_tail cfg) false]
            else if rev =? 1 then
              if negb (c_allow_v2 cfg) then fail0 st EProto else
              if c_sec_enabled cfg then fail0 st ESecurity else
              if (length buf <? 12)%nat then Need else
              let pt := nth 11 buf 0 in
              if negb (v2_compat (c_stype cfg) pt) then fail0 st EProto else
              match stype_code (c_stype cfg) with
              | None => fail0 st EProto
              | Some code =>
                  Step {| e_phase := PV2Identity; e_version := Some V2; e_rev_sent := true; e_v2_sent := e_v2_sent st;
                          e_v2_peer := stype_name pt; e_mech := e_mech st; e_partial := e_partial st |} 12
                       [OSend [code] false]
              end
            else fail0 st EProto
        | Some V2 => Need
        | Some V3 =>
            if (length buf <? 64)%nat then Need else
            match greeting_decode (firstn 64 buf) with
            | None => Step (closed st) 64 [OErr EProto]
            | Some (field, _) =>
                match negotiate cfg field with
                | inr e => Step (closed st) 64 [OErr e]
                | inl m =>
                    if mech_complete m then
                      Step (set_phase (set_mech st m) PReady) 64 (if c_server cfg then [] else [ready_send cfg])
                    else Step (set_phase (set_mech st m) PSecurity) 64 []
                end
            end
        end
  | PSecurity =>
      match m_produce cfg (e_mech st) with
      | (m', PrToken tok) => Step (set_mech st m') 0 [OSend (enc_codec (cmd_frame tok)) false]
      | (m', PrOpaque) => Step (set_mech st m') 0 [OSendOpaque]
      | (_, PrNone) =>
          if mech_complete (e_mech st) then
            Step (set_phase st PReady) 0 (if c_server cfg then [] else [ready_send cfg])
          else
            match dec_buffer (c_maxsz cfg) buf with
            | DNeed | DPanic => Need
            | DErr => fail0 st EProto
            | DFrame f n =>
                match m_process cfg (e_mech st) (f_payload f) with
                | (m', Some e) => Step (closed (set_mech st m')) n [OErr e]
                | (m', None) =>
                    if mech_is_error m' then Step (closed (set_mech st m')) n [OErr ESecurity]
                    else Step (set_mech st m') n []
                end
            end
      end
  | PReady =>
      match dec_buffer (c_maxsz cfg) buf with
      | DNeed | DPanic => Need
      | DErr => fail0 st EProto
      | DFrame f n =>
          match parse_cmd f with
          | CReady ps =>
              (* one compatibility verdict: a known Socket-Type that does not pair with ours is refused *)
              if ready_incompatible cfg ps then Step (closed st) n [OErr EProto] else
              Step (set_phase st PData) n
                   ((if c_server cfg then [ready_send cfg] else []) ++ [OActivity] ++ cork_out cfg ++
                    [OHandshake (prop_get s_Identity ps) (prop_get s_SocketType ps)])
          | _ => Step (closed st) n [OErr EProto]
          end
      end
  | PV2Identity =>
      if negb (e_v2_sent st) then
        Step {| e_phase := PV2Identity; e_version := e_version st; e_rev_sent := e_rev_sent st; e_v2_sent := true;
                e_v2_peer := e_v2_peer st; e_mech := e_mech st; e_partial := e_partial st |} 0
             [OSend (enc_codec (data_frame false (opt_or_empty (c_rid cfg)))) false]
      else
        match dec_buffer (c_maxsz cfg) buf with
        | DNeed | DPanic => Need
        | DErr => fail0 st EProto
        | DFrame f n =>
            if f_cmd f || f_more f then Step (closed st) n [OErr EProto]
            else if (255 <? length (f_payload f))%nat then Step (closed st) n [OErr EProto]
            else Step (set_phase st PData) n
                      ([OActivity] ++ cork_out cfg ++
                       [OHandshake (match f_payload f with [] => None | p => Some p end) (e_v2_peer st)])
        end
  | PData =>
      match dec_buffer (c_maxsz cfg) buf with
      | DNeed | DPanic => Need
      | DErr => fail0 st EProto
      | DFrame f n =>
          if f_cmd f then
            match e_version st with
            | Some V2 => Step (closed st) n [OActivity; OErr EProto]
            | _ =>
                match parse_cmd f with
                | CPing ctx => Step st n [OActivity; OSend (enc_codec (cmd_frame (pong_body ctx))) false]
                | CPong _ => Step st n [OActivity; OPongSeen]
                | CError => Step (closed st) n [OActivity; OErr EProto]
                | _ => Step st n [OActivity]
                end
            end
          else if (MAX_FRAMES <=? length (e_partial st))%nat then Step (closed st) n [OActivity; OErr EProto]
          else if f_more f then Step (set_partial st (e_partial st ++ [f])) n [OActivity]
          else Step (set_partial st []) n [OActivity; ODeliver (e_partial st ++ [f])]
      end
  end.

Definition emu (st : estate) : nat :=
  match e_phase st with
  | PClosed => 0
  | _ => 1 + (if e_rev_sent st then 0 else 1) + (match e_version st with None => 1 | _ => 0 end)
         + (if e_v2_sent st then 0 else 1) + mech_mu (e_mech st)
         + (match e_phase st with PSecurity => 1 | _ => 0 end)
  end%nat.
Definition EMU_MAX : nat := 8.

(* ---------- heartbeat state and the engine's public entry points ---------- *)
Record hb := { h_last_activity : N; h_last_ping : option N; h_waiting : bool }.
Record engine := { g_st : estate; g_acc : bytes; g_hb : hb }.

Definition has_activity (o : list eout) : bool := existsb (fun x => match x with OActivity => true | _ => false end) o.
Definition has_pong (o : list eout) : bool := existsb (fun x => match x with OPongSeen => true | _ => false end) o.
Definition visible (o : list eout) : list eout :=
  filter (fun x => match x with OActivity | OPongSeen => false | _ => true end) o.

Definition e_new (now : N) : engine :=
  {| g_st := e_init; g_acc := []; g_hb := {| h_last_activity := now; h_last_ping := None; h_waiting := false |} |}.

(* start(): Stage A, the 10-byte signature *)
Definition e_start : list eout := [OSend signature false].

(* on_network_bytes(data) at time now *)
Definition e_net (cfg : ecfg) (g : engine) (data : bytes) (now : N) : engine * list eout :=
  let '(st', r, o) := pump (estep cfg) emu EMU_MAX (g_st g) (g_acc g ++ data) in
  let h := g_hb g in
  let h' := {| h_last_activity := if has_activity o then now else h_last_activity h;
               h_last_ping := h_last_ping h;
               h_waiting := if has_pong o then false else h_waiting h |} in
  ({| g_st := st'; g_acc := r; g_hb := h' |}, visible o).

(* on_app_message(msgs): NullFramer::write_msg_multipart = frame_contiguous of one batch *)
Definition e_app (cfg : ecfg) (g : engine) (msgs : list frame) : engine * list eout :=
  match e_phase (g_st g) with
  | PData => (g, [OSend (enc_contiguous [msgs]) (c_zc cfg)])
  | _ => (g, [])
  end.

Definition u16_max : N := 65535.
(* on_tick(now) *)
Definition e_tick (cfg : ecfg) (g : engine) (now : N) : engine * list eout :=
  match e_phase (g_st g) with
  | PData =>
      match e_version (g_st g) with
      | Some V2 => (g, [])
      | _ =>
          let h := g_hb g in
          let timed_out :=
            match c_hb_timeout cfg, h_last_ping h with
            | Some t, Some p => h_waiting h && (t <=? now - p)
            | _, _ => false
            end in
          if timed_out then
            ({| g_st := closed (g_st g); g_acc := g_acc g; g_hb := h |}, [OErr ETimeout])
          else
            match c_hb_ivl cfg with
            | Some ivl =>
                if negb (h_waiting h) && (ivl <=? now - h_last_activity h) then
                  let ttl := match c_hb_timeout cfg with Some t => N.min (t / 1000000) u16_max | None => 0 end in
                  ({| g_st := g_st g; g_acc := g_acc g;
                      g_hb := {| h_last_activity := h_last_activity h; h_last_ping := Some now; h_waiting := true |} |},
                   [OSend (enc_codec (cmd_frame (ping_body ttl []))) false])
                else (g, [])
            | None => (g, [])
            end
      end
  | _ => (g, [])
  end.

(* close() *)
Definition e_close (cfg : ecfg) (g : engine) : engine * list eout :=
  ({| g_st := closed (g_st g); g_acc := g_acc g; g_hb := g_hb g |},
   [OCork false; OClose (if c_cork cfg then Some 500 else None)]).

(* record_activity(): called by the session after every successful outbound write (sessionx/actor.rs);
   stamps the activity time unconditionally *)
Definition e_wrote (cfg : ecfg) (g : engine) (now : N) : engine * list eout :=
  ({| g_st := g_st g; g_acc := g_acc g;
      g_hb := {| h_last_activity := now; h_last_ping := h_last_ping (g_hb g); h_waiting := h_waiting (g_hb g) |} |}, []).

(* get_pong_deadline(): the session's sleep_until backstop - PING time + timeout (30 s when unset) *)
Definition e_pong_deadline (cfg : ecfg) (g : engine) : option N :=
  if h_waiting (g_hb g) then
    match h_last_ping (g_hb g) with
    | Some p => Some (p + match c_hb_timeout cfg with Some t => t | None => 30000000000 end)
    | None => None
    end
  else None.

Inductive einput := INet (data : bytes) (now : N) | IApp (msgs : list frame) | ITick (now : N) | IClose | IWrote (now : N).
Definition e_input (cfg : ecfg) (g : engine) (i : einput) : engine * list eout :=
  match i with
  | INet d t => e_net cfg g d t
  | IApp m => e_app cfg g m
  | ITick t => e_tick cfg g t
  | IClose => e_close cfg g
  | IWrote t => e_wrote cfg g t
  end.
Fixpoint e_run (cfg : ecfg) (g : engine) (is : list einput) : engine * list (list eout) :=
  match is with
  | [] => (g, [])
  | i :: rest =>
      let '(g1, o) := e_input cfg g i in
      let '(g2, os) := e_run cfg g1 rest in (g2, o :: os)
  end.
