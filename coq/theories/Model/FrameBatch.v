(* `FrameBatch` (core/src/message/mod.rs) over `VecU8<Msg>` (xs_foundation::collections::vec::u8), written
   variant-for-variant after the Rust code.  Every place where the Rust code panics is an explicit `Panic`
   outcome: VecU8 holds at most 255 elements (`push`/`insert` panic at len == 255, `with_capacity` panics for
   cap > 255), out-of-range `insert`/`remove`/index panic.
   Executable definitions only; proofs are in Proofs/FrameBatchProofs.v. *)
From RZ Require Import Base.Prelude.

Definition VEC_MAX : nat := 255.   (* VecU8::MAX_CAP = u8::MAX *)

Inductive out (A : Type) : Type := Ok (x : A) | Panic.
Arguments Ok {A} x.
Arguments Panic {A}.
Definition bind {A B} (o : out A) (f : A -> out B) : out B :=
  match o with Ok x => f x | Panic => Panic end.
Definition is_panic {A} (o : out A) : bool := match o with Panic => true | Ok _ => false end.

Section FB.
Context {A : Type}.

(* ---------------------------------------------------------------- VecU8<T> *)
(* with_capacity: assert!(cap <= MAX_CAP) *)
Definition vec_with_capacity (cap : nat) : out (list A) :=
  if (VEC_MAX <? cap)%nat then Panic else Ok [].
(* push: if self.len == u8::MAX { panic!(..) } *)
Definition vec_push (v : list A) (x : A) : out (list A) :=
  if (length v =? VEC_MAX)%nat then Panic else Ok (v ++ [x]).
(* insert: assert!(index <= len); if self.len == u8::MAX { panic!(..) } *)
Definition vec_insert (i : nat) (x : A) (v : list A) : out (list A) :=
  if (length v <? i)%nat then Panic
  else if (length v =? VEC_MAX)%nat then Panic
  else Ok (firstn i v ++ x :: skipn i v).
(* remove: assert!(index < len) *)
Definition vec_remove (i : nat) (v : list A) : out (A * list A) :=
  match nth_error v i with
  | None => Panic
  | Some x => Ok (x, firstn i v ++ skipn (S i) v)
  end.
(* pop *)
Definition vec_pop (v : list A) : option A * list A :=
  match rev v with
  | [] => (None, v)
  | x :: r => (Some x, rev r)
  end.

(* ---------------------------------------------------------------- FrameBatchInner *)
Inductive fb : Type :=
| FEmpty
| FSingle (a : A)
| FTwo (a b : A)
| FMany (v : list A).     (* VecU8: never longer than 255 (fb_wf) *)

(* the sequence of frames held (what `iter()` / `into_iter()` / `Vec::from` yield) *)
Definition fb_list (b : fb) : list A :=
  match b with
  | FEmpty => []
  | FSingle a => [a]
  | FTwo a c => [a; c]
  | FMany v => v
  end.

Definition fb_new : fb := FEmpty.
(* with_capacity: capacity <= 2 => new(), else Many(VecU8::with_capacity(capacity)) *)
Definition fb_with_capacity (cap : nat) : out fb :=
  if (cap <=? 2)%nat then Ok FEmpty else bind (vec_with_capacity cap) (fun v => Ok (FMany v)).

Definition fb_push (b : fb) (x : A) : out fb :=
  match b with
  | FEmpty => Ok (FSingle x)
  | FSingle a => Ok (FTwo a x)
  | FTwo a c =>
      (* VecU8::with_capacity(3) and three pushes: cannot overflow *)
      bind (vec_with_capacity 3) (fun v0 =>
      bind (vec_push v0 a) (fun v1 =>
      bind (vec_push v1 c) (fun v2 =>
      bind (vec_push v2 x) (fun v3 => Ok (FMany v3)))))
  | FMany v => bind (vec_push v x) (fun v' => Ok (FMany v'))
  end.

(* fn demote(vec): smallest fitting inline variant *)
Definition demote (v : list A) : fb :=
  match v with
  | [] => FEmpty
  | [a] => FSingle a
  | [a; c] => FTwo a c
  | _ => FMany v
  end.

Definition fb_pop (b : fb) : option A * fb :=
  match b with
  | FEmpty => (None, FEmpty)
  | FSingle a => (Some a, FEmpty)
  | FTwo a c => (Some c, FSingle a)
  | FMany v => let '(r, v') := vec_pop v in (r, demote v')
  end.

Definition fb_len (b : fb) : nat := length (fb_list b).
(* is_empty: matches!(self.inner, Empty) - a `Many` created by with_capacity and still empty is NOT "empty" *)
Definition fb_is_empty (b : fb) : bool := match b with FEmpty => true | _ => false end.

Definition fb_insert (i : nat) (x : A) (b : fb) : out fb :=
  match b with
  | FEmpty => match i with 0%nat => Ok (FSingle x) | _ => Panic end
  | FSingle a => match i with 0%nat => Ok (FTwo x a) | 1%nat => Ok (FTwo a x) | _ => Panic end
  | FTwo a c =>
      match i with
      | 0%nat => Ok (FMany [x; a; c])
      | 1%nat => Ok (FMany [a; x; c])
      | 2%nat => Ok (FMany [a; c; x])
      | _ => Panic
      end
  | FMany v => bind (vec_insert i x v) (fun v' => Ok (FMany v'))
  end.

Definition fb_remove (i : nat) (b : fb) : out (A * fb) :=
  match b with
  | FEmpty => Panic
  | FSingle a => match i with 0%nat => Ok (a, FEmpty) | _ => Panic end
  | FTwo a c => match i with 0%nat => Ok (a, FSingle c) | 1%nat => Ok (c, FSingle a) | _ => Panic end
  | FMany v => bind (vec_remove i v) (fun '(x, v') => Ok (x, demote v'))
  end.

(* Index<usize> *)
Definition fb_index (b : fb) (i : nat) : out A :=
  match nth_error (fb_list b) i with Some x => Ok x | None => Panic end.
Definition fb_first (b : fb) : option A :=
  if fb_is_empty b then None else match fb_index b 0 with Ok x => Some x | Panic => None end.

(* Extend<Msg>: for msg in iter { self.push(msg) } *)
Fixpoint fb_extend (b : fb) (xs : list A) : out fb :=
  match xs with
  | [] => Ok b
  | x :: t => bind (fb_push b x) (fun b' => fb_extend b' t)
  end.

(* From<Vec<Msg>>: 0/1/2 inline; otherwise VecU8::with_capacity(v.len()) + push each *)
Fixpoint vec_push_all (v : list A) (xs : list A) : out (list A) :=
  match xs with
  | [] => Ok v
  | x :: t => bind (vec_push v x) (fun v' => vec_push_all v' t)
  end.
Definition fb_from_vec (xs : list A) : out fb :=
  match xs with
  | [] => Ok FEmpty
  | [a] => Ok (FSingle a)
  | [a; c] => Ok (FTwo a c)
  | _ => bind (vec_with_capacity (length xs)) (fun v0 =>
         bind (vec_push_all v0 xs) (fun v => Ok (FMany v)))
  end.
(* From<FrameBatch> for Vec<Msg> *)
Definition fb_to_vec (b : fb) : list A := fb_list b.

(* representation invariant: the VecU8 never holds more than 255 elements *)
Definition fb_wf (b : fb) : Prop := (length (fb_list b) <= VEC_MAX)%nat.

(* in-place element updates through iter_mut()/IndexMut/last_mut() keep the variant and the length:
   `fb_set b (g (fb_list b))` for a length-preserving g *)
Definition fb_set (b : fb) (l : list A) : fb :=
  match b, l with
  | FEmpty, _ => FEmpty
  | FSingle _, [a] => FSingle a
  | FTwo _ _, [a; c] => FTwo a c
  | FMany _, _ => FMany l
  | _, _ => b
  end.
End FB.
Arguments fb A : clear implicits.
