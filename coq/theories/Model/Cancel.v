(* C09 - the public send()/recv()/send_multipart()/recv_multipart() of the eight socket types as
   sequences of atomic steps and await points, placed as in core/src/socket/*_socket.rs, with
   `Cancel` (drop the future) possible at every await point at which the future is parked.

   One application task drives one socket.  An operation is a PROGRAM (list of instructions):
     Act f      synchronous code between two awaits (state updates under the parking_lot / tokio
                mutexes, which are never held across an await that can park);
     Chk g e    a fail-fast check (`return Err(..)`);
     Aw w h     an `.await`: parked while `ready w` is false; completing it has the effect the awaited
                future has when it completes (a pipe push, a queue pop, a permit); `h` says what the
                code does when the `tokio::time::timeout` wrapped around the await fires (TNone: no
                timer around it; TSkip: carry on with the next instruction, PUB dropping the message
                for one peer; TRet f r: run f and return r);
     Ret r      return with result code r.
   Dropping the future runs `glue`: exactly the RAII the futures own (the ROUTER per-pipe
   OwnedSemaphorePermit; the local that holds a popped batch).  There is no other drop glue in the
   socket files.  Ready-pipe-queue internals (SendReservation rollback, pop's second await) are C08's
   model (Rpq.v): `pop()` is cancellable only while nothing has been taken (C08_rpq_cancel_safe,
   C08_rpq_taken_is_returned), so here it is ONE await whose completion takes the head batch.

   State = protocol state touched around awaits (Proto) + pipes (Env): the outgoing pipe(s) are
   bounded FIFOs of FrameBatches drained by the session / peer, DEALER's pending_outgoing_queue,
   the ingress queue filled by the peer.  Ghost logs: p_pushed (every FrameBatch ever committed to
   a pipe, in order = what the peer's ZMTP/inproc reader reassembles), p_taken, p_app, p_rets.

   Abstractions: one peer (two for PUB); uncontended tokio mutexes (`WLock` is always ready: a
   single caller, tokio's cooperative budget not modelled); ROUTER's identity-finalisation gate
   is C11's (RouterGate.v) and taken as open; SNDTIMEO/RCVTIMEO = 0 (non-blocking) is C14's. *)
From RZ Require Import Base.Prelude.
Local Open Scope N_scope.

Definition frame : Type := N * bool.          (* (tag, MORE) *)
Definition item : Type := list frame.         (* one FrameBatch = one pipe entry *)

Definition DELIM : N := 901.                  (* the empty delimiter frame *)
Definition IDENT : N := 902.                  (* the peer's identity frame *)
Definition tg (mid idx cnt : N) : N := 1000 * mid + 10 * idx + cnt.

(* MORE on every frame but the last (what every send_multipart does to the flags) *)
Fixpoint norm (fs : list frame) : list frame :=
  match fs with
  | [] => []
  | f :: r => match r with [] => [(fst f, false)] | _ => (fst f, true) :: norm r end
  end.
Definition untag (ts : list N) : list frame := map (fun t => (t, false)) ts.

Inductive sock := PUSH | PULL | PUB | SUB | REQ | REP | DEALER | ROUTER.
Inductive opk := OSend (f : frame) | OSendMp (ts : list N) | ORecv | ORecvMp.

Record Cfg := mkCfg {
  cap : nat;        (* capacity of an outgoing pipe (SNDHWM) *)
  qcap : nat;       (* DEALER pending_outgoing_queue bound (SNDHWM) *)
  incap : nat;      (* ingress per-pipe channel (RCVHWM) *)
  mand : bool;      (* ROUTER_MANDATORY *)
  sndto : bool;     (* a finite SNDTIMEO is set *)
  rcvto : bool;     (* a finite RCVTIMEO is set *)
  ord : bool        (* PUB: HashSet iteration order of the two subscribers *)
}.

Record Proto := mkP {
  p_req : bool;                  (* REQ: true = ExpectingReply *)
  p_rep : option item;           (* REP: Some routing_prefix = ReceivedRequest(..) *)
  p_dtx : option (list frame);   (* DEALER: Some parts = Buffering *)
  p_rtgt : bool;                 (* ROUTER: current_send_target is Some (it owns the permit) *)
  p_perm : bool;                 (* ROUTER: the peer's send permit is taken *)
  p_fperm : bool;                (* ... by the in-flight future (OwnedSemaphorePermit local) *)
  p_buf : option (list frame);   (* frame_recv_buffer / local_cache *)
  p_reg : option item;           (* the future's local holding the batch pop() returned *)
  p_pushed : list item;          (* ghost: batches committed to peer 0's pipe / the pending queue *)
  p_pushed2 : list item;         (* ghost: PUB, second subscriber *)
  p_taken : list item;           (* ghost: batches taken from the ingress queue *)
  p_app : list (list frame);     (* ghost: what each successful receive call returned *)
  p_rets : list N                (* ghost: result codes of finished calls (0 = dropped) *)
}.

Record Env := mkE {
  e_out : list item;
  e_out2 : list item;
  e_dq : list item;              (* DEALER pending_outgoing_queue *)
  e_in : list item;              (* ingress queue *)
  e_arrived : list item;         (* ghost *)
  e_peer : bool                  (* a peer is attached *)
}.

Definition set_req b p := mkP b (p_rep p) (p_dtx p) (p_rtgt p) (p_perm p) (p_fperm p) (p_buf p) (p_reg p) (p_pushed p) (p_pushed2 p) (p_taken p) (p_app p) (p_rets p).
Definition set_rep x p := mkP (p_req p) x (p_dtx p) (p_rtgt p) (p_perm p) (p_fperm p) (p_buf p) (p_reg p) (p_pushed p) (p_pushed2 p) (p_taken p) (p_app p) (p_rets p).
Definition set_dtx x p := mkP (p_req p) (p_rep p) x (p_rtgt p) (p_perm p) (p_fperm p) (p_buf p) (p_reg p) (p_pushed p) (p_pushed2 p) (p_taken p) (p_app p) (p_rets p).
Definition set_rt (tgt perm fperm : bool) p := mkP (p_req p) (p_rep p) (p_dtx p) tgt perm fperm (p_buf p) (p_reg p) (p_pushed p) (p_pushed2 p) (p_taken p) (p_app p) (p_rets p).
Definition set_buf x p := mkP (p_req p) (p_rep p) (p_dtx p) (p_rtgt p) (p_perm p) (p_fperm p) x (p_reg p) (p_pushed p) (p_pushed2 p) (p_taken p) (p_app p) (p_rets p).
Definition set_reg x p := mkP (p_req p) (p_rep p) (p_dtx p) (p_rtgt p) (p_perm p) (p_fperm p) (p_buf p) x (p_pushed p) (p_pushed2 p) (p_taken p) (p_app p) (p_rets p).
Definition add_pushed it p := mkP (p_req p) (p_rep p) (p_dtx p) (p_rtgt p) (p_perm p) (p_fperm p) (p_buf p) (p_reg p) (p_pushed p ++ [it]) (p_pushed2 p) (p_taken p) (p_app p) (p_rets p).
Definition add_pushed2 it p := mkP (p_req p) (p_rep p) (p_dtx p) (p_rtgt p) (p_perm p) (p_fperm p) (p_buf p) (p_reg p) (p_pushed p) (p_pushed2 p ++ [it]) (p_taken p) (p_app p) (p_rets p).
Definition add_taken it p := mkP (p_req p) (p_rep p) (p_dtx p) (p_rtgt p) (p_perm p) (p_fperm p) (p_buf p) (Some it) (p_pushed p) (p_pushed2 p) (p_taken p ++ [it]) (p_app p) (p_rets p).
Definition add_app fs p := mkP (p_req p) (p_rep p) (p_dtx p) (p_rtgt p) (p_perm p) (p_fperm p) (p_buf p) (p_reg p) (p_pushed p) (p_pushed2 p) (p_taken p) (p_app p ++ [fs]) (p_rets p).
Definition add_ret r p := mkP (p_req p) (p_rep p) (p_dtx p) (p_rtgt p) (p_perm p) (p_fperm p) (p_buf p) (p_reg p) (p_pushed p) (p_pushed2 p) (p_taken p) (p_app p) (p_rets p ++ [r]).

Definition p0 : Proto := mkP false None None false false false None None [] [] [] [] [].
Definition e0 (peer : bool) : Env := mkE [] [] [] [] [] peer.

(* ---- awaits ---- *)
Inductive wait :=
| WLock                          (* tokio::sync::Mutex::lock, uncontended *)
| WPeer                          (* LoadBalancer::wait_for_connection *)
| WRoom (k : nat) (it : item)    (* blocking pipe send of `it` to peer k; completion pushes it *)
| WQueue (it : item)             (* DEALER: room in pending_outgoing_queue; completion queues it *)
| WItem                          (* ReadyPipeQueue::pop: completion takes the head batch *)
| WPermit                        (* WritePipeCoordinator::acquire_send_permit *)
| WTx.                           (* DEALER: completion_notifier of a Buffering transaction *)

Inductive tmo := TNone | TSkip | TRet (f : Proto -> Proto) (r : N).

Inductive instr :=
| Act (f : Proto -> Proto)
| Chk (g : Proto -> bool) (e : N)
| Aw (w : wait) (h : tmo)
| Ret (r : N).

Definition prog := list instr.

Definition is_nil {A} (l : list A) : bool := match l with [] => true | _ => false end.
Definition is_none {A} (o : option A) : bool := match o with None => true | _ => false end.

Definition ready (c : Cfg) (w : wait) (p : Proto) (e : Env) : bool :=
  match w with
  | WLock => true
  | WPeer => e_peer e
  | WRoom O _ => Nat.ltb (length (e_out e)) (cap c)
  | WRoom _ _ => Nat.ltb (length (e_out2 e)) (cap c)
  | WQueue _ => Nat.ltb (length (e_dq e)) (qcap c)
  | WItem => negb (is_nil (e_in e))
  | WPermit => negb (p_perm p)
  | WTx => is_none (p_dtx p)
  end.

(* effect of the awaited future's completion on the protocol state ... *)
Definition peff (w : wait) (e : Env) (p : Proto) : Proto :=
  match w with
  | WRoom O it => add_pushed it p
  | WRoom _ it => add_pushed2 it p
  | WQueue it => add_pushed it p
  | WItem => match e_in e with x :: _ => add_taken x p | [] => p end
  | WPermit => set_rt (p_rtgt p) true true p
  | _ => p
  end.
(* ... and on the pipes *)
Definition eeff (w : wait) (e : Env) : Env :=
  match w with
  | WRoom O it => mkE (e_out e ++ [it]) (e_out2 e) (e_dq e) (e_in e) (e_arrived e) (e_peer e)
  | WRoom _ it => mkE (e_out e) (e_out2 e ++ [it]) (e_dq e) (e_in e) (e_arrived e) (e_peer e)
  | WQueue it => mkE (e_out e) (e_out2 e) (e_dq e ++ [it]) (e_in e) (e_arrived e) (e_peer e)
  | WItem => mkE (e_out e) (e_out2 e) (e_dq e) (tl (e_in e)) (e_arrived e) (e_peer e)
  | _ => e
  end.

(* drop glue of an operation's future: the permit it owns goes back, the popped batch it holds is gone *)
Definition glue (p : Proto) : Proto :=
  set_reg None (if p_fperm p then set_rt (p_rtgt p) false false p else p).

Definition finish (r : N) (p : Proto) : Proto := add_ret r (glue p).

Inductive thr := TIdle | TPark (q : prog).

(* run until the next await that is not ready, or to the end *)
Fixpoint exec (c : Cfg) (q : prog) (p : Proto) (e : Env) : thr * Proto * Env :=
  match q with
  | [] => (TIdle, finish 1 p, e)
  | Act f :: r => exec c r (f p) e
  | Chk g err :: r => if g p then exec c r p e else (TIdle, finish err p, e)
  | Aw w h :: r => if ready c w p e then exec c r (peff w e p) (eeff w e) else (TPark q, p, e)
  | Ret x :: _ => (TIdle, finish x p, e)
  end.

(* ---- frame processing done by the sockets ---- *)
Definition is_delim (f : frame) : bool := fst f =? DELIM.

(* REQ: strip one leading empty frame *)
Definition strip1 (fs : list frame) : list frame :=
  match fs with f :: r => if is_delim f then r else fs | [] => [] end.
(* REP extract_routing_prefix: everything up to and including the first empty frame *)
Fixpoint split_prefix (fs : list frame) : option (list frame * list frame) :=
  match fs with
  | [] => None
  | f :: r => if is_delim f then Some ([f], r)
              else match split_prefix r with Some (a, b) => Some (f :: a, b) | None => None end
  end.
Definition rep_split (fs : list frame) : list frame * list frame :=
  match split_prefix fs with Some x => x | None => ([], fs) end.
(* DEALER process_incoming_zmtp_message_for_dealer (automatic framing) *)
Definition dealer_strip (fs : list frame) : list frame :=
  match fs with
  | [] => []
  | f :: r => if is_delim f then r
              else match r with
                   | g :: r' => if is_delim g then r' else r
                   | [] => []
                   end
  end.
(* ROUTER: [identity, payload...] with one leading delimiter of a DEALER/REQ peer stripped *)
Definition router_view (fs : list frame) : list frame := norm ((IDENT, true) :: strip1 fs).

Definition first_or_empty (fs : list frame) : frame := match fs with f :: _ => f | [] => (0, false) end.

(* recv(): hand out the first frame, keep the rest in the buffer *)
Definition deliver_first (fs : list frame) (p : Proto) : Proto :=
  match fs with
  | [] => add_app [(0, false)] (set_reg None p)
  | [f] => add_app [f] (set_reg None p)
  | f :: r => add_app [f] (set_buf (Some r) (set_reg None p))
  end.
Definition deliver_all (fs : list frame) (p : Proto) : Proto := add_app fs (set_reg None p).

Definition reg_frames (p : Proto) : list frame := match p_reg p with Some x => x | None => [] end.

Definition same (p : Proto) : Proto := p.
Definition to (b : bool) (r : N) : tmo := if b then TRet same r else TNone.

(* ---- the programs ---- *)
(* route_message on one peer: try_send first, then the blocking send (one await, ready at once
   when the pipe has room); the interface's own timer covers it (30 s / 300 s when SNDTIMEO is unset) *)
Definition push_whole (it : item) (err : N) : prog := [Aw (WRoom 0 it) (TRet same err)].

Definition dealer_encode (fs : list frame) : item := norm ((DELIM, true) :: fs).
Definition dealer_route (c : Cfg) (e : Env) (it : item) : prog :=
  if e_peer e then push_whole it 2
  else [Aw WLock TNone; Aw (WQueue it) (to (sndto c) 2)].

Definition mand_err (c : Cfg) (err : N) : N := if mand c then err else 1.

Definition pub_prog (c : Cfg) (it : item) : prog :=
  let a := if ord c then 0%nat else 1%nat in
  let b := if ord c then 1%nat else 0%nat in
  [Aw (WRoom a it) TSkip; Aw (WRoom b it) TSkip].

Definition recv_buffered (mp : bool) (p : Proto) : option prog :=
  match p_buf p with
  | Some (f :: r) =>
      if mp then Some [Act (fun p => add_app (f :: r) (set_buf None p))]
      else Some [Act (fun p => add_app [f] (set_buf (match r with [] => None | _ => Some r end) p))]
  | _ => None
  end.

Definition program (c : Cfg) (t : sock) (o : opk) (p : Proto) (e : Env) : prog :=
  match t, o with
  (* PUSH: send_with_timeout(route_message(fb, wait_for_peer = true)) *)
  | PUSH, OSend f => [Aw WPeer (to (sndto c) 2); Aw (WRoom 0 [f]) (TRet same 2)]
  | PUSH, OSendMp ts =>
      match ts with [] => [Ret 1]
      | _ => [Aw WPeer (to (sndto c) 2); Aw (WRoom 0 (norm (untag ts))) (TRet same 2)] end
  | PUSH, _ => [Ret 5]
  (* PUB: Distributor::send_to_all(_multipart): peer after peer, a full peer is waited for *)
  | PUB, OSend f => pub_prog c [f]
  | PUB, OSendMp ts => match ts with [] => [Ret 1] | _ => pub_prog c (norm (untag ts)) end
  | PUB, _ => [Ret 3]
  (* PULL / SUB: AnonymousIngressEngine *)
  | PULL, ORecv | SUB, ORecv =>
      match recv_buffered false p with Some q => q
      | None => [Aw WItem (to (rcvto c) 2); Act (fun p => deliver_first (reg_frames p) p)] end
  | PULL, ORecvMp | SUB, ORecvMp =>
      match recv_buffered true p with Some q => q
      | None => [Aw WItem (to (rcvto c) 2); Act (fun p => deliver_all (reg_frames p) p)] end
  | PULL, _ | SUB, _ => [Ret 5]
  (* REQ *)
  | REQ, OSend f =>
      [Chk (fun p => negb (p_req p)) 3;
       Aw WPeer (to (sndto c) 2);
       Aw (WRoom 0 [(DELIM, true); (fst f, false)]) (TRet same 2);
       Act (set_req true)]
  | REQ, OSendMp _ => [Ret 5]
  | REQ, ORecv =>
      [Chk p_req 3;
       Aw WItem (if rcvto c then TRet (set_req false) 2 else TNone);
       Act (fun p => let pl := strip1 (reg_frames p) in
                     let f := first_or_empty pl in
                     add_app [f] (set_reg None (if snd f then p else set_req false p)))]
  | REQ, ORecvMp =>
      [Chk p_req 3;
       Aw WItem (if rcvto c then TRet (set_req false) 2 else TNone);
       Act (fun p => add_app (strip1 (reg_frames p)) (set_reg None (set_req false p)))]
  (* REP: the state goes back to ReadyToReceive BEFORE the awaited push *)
  | REP, OSend f =>
      match p_rep p with
      | None => [Ret 3]
      | Some pre => [Act (set_rep None)] ++ push_whole (norm (pre ++ [(fst f, false)])) 2
      end
  | REP, OSendMp ts =>
      match p_rep p with
      | None => [Ret 3]
      | Some pre => [Act (set_rep None)] ++
                    push_whole (norm (pre ++ match ts with [] => [(0, false)] | _ => untag ts end)) 2
      end
  | REP, ORecv =>
      [Chk (fun p => is_none (p_rep p)) 3;
       Aw WItem (to (rcvto c) 2);
       Act (fun p => let '(pre, pl) := rep_split (reg_frames p) in
                     add_app [first_or_empty pl] (set_reg None (set_rep (Some pre) p)))]
  | REP, ORecvMp =>
      [Chk (fun p => is_none (p_rep p)) 3;
       Aw WItem (to (rcvto c) 2);
       Act (fun p => let '(pre, pl) := rep_split (reg_frames p) in
                     add_app pl (set_reg None (set_rep (Some pre) p)))]
  (* DEALER *)
  | DEALER, OSend f =>
      if snd f then
        [Aw WLock TNone;
         Act (fun p => set_dtx (Some (match p_dtx p with Some parts => parts ++ [f] | None => [f] end)) p)]
      else
        let parts := match p_dtx p with Some parts => parts | None => [] end in
        [Aw WLock TNone; Act (set_dtx None)] ++ dealer_route c e (dealer_encode (parts ++ [f]))
  | DEALER, OSendMp ts =>
      match p_dtx p with
      | None => [Aw WLock TNone] ++ dealer_route c e (dealer_encode (untag ts))
      | Some _ => [Aw WLock TNone; Aw WTx (to (sndto c) 2); Aw WLock TNone] ++
                  dealer_route c e (dealer_encode (untag ts))
      end
  | DEALER, ORecv =>
      match recv_buffered false p with Some q => q
      | None => [Aw WItem (to (rcvto c) 2); Act (fun p => deliver_first (dealer_strip (reg_frames p)) p)] end
  | DEALER, ORecvMp =>
      match recv_buffered true p with Some q => q
      | None => [Aw WItem (to (rcvto c) 2); Act (fun p => deliver_all (dealer_strip (reg_frames p)) p)] end
  (* ROUTER *)
  | ROUTER, OSendMp ts =>
      match ts with
      | [] => [Ret 5]
      | idt :: pl =>
          if negb (idt =? IDENT) then [Ret (mand_err c 4)]          (* unknown identity *)
          else [Aw WPermit (to (sndto c) (if mand c then 2 else 5));
                Aw (WRoom 0 (norm ((IDENT, true) :: (DELIM, true) :: untag pl))) (TRet same (mand_err c 2))]
      end
  | ROUTER, OSend f =>
      if p_rtgt p then
        (* a payload part of the open envelope *)
        [Aw WLock TNone;
         Aw (WRoom 0 [f]) (TRet (set_rt false false false) (mand_err c 2))] ++
        (if snd f then [] else [Aw WLock TNone; Act (set_rt false false false)])
      else
        [Aw WLock TNone; Chk (fun _ => snd f) 5] ++
        (if negb (fst f =? IDENT) then [Ret (mand_err c 4)]
         else [Aw WPermit (to (sndto c) 2);
               Aw WLock TNone;
               Aw (WRoom 0 [(IDENT, true)]) (TRet same (mand_err c 2));
               Aw (WRoom 0 [(DELIM, true)]) (TRet same (mand_err c 2));
               Act (set_rt true true false)])
  | ROUTER, ORecv =>
      match recv_buffered false p with Some q => q
      | None => [Aw WItem (to (rcvto c) 2); Act (fun p => deliver_first (router_view (reg_frames p)) p)] end
  | ROUTER, ORecvMp =>
      match recv_buffered true p with Some q => q
      | None => [Aw WItem (to (rcvto c) 2); Act (fun p => deliver_all (router_view (reg_frames p)) p)] end
  end.

(* ---- events ---- *)
Inductive ev :=
| Call (o : opk)       (* the application starts an operation (first poll included) *)
| Poll                 (* the parked future is polled again *)
| Cancel               (* the parked future is dropped *)
| Tmo                  (* the timer around the parked await fires *)
| Drain (k : nat)      (* the session / peer k takes the head batch of the outgoing pipe *)
| QDrain               (* DEALER's processor moves the head of the pending queue to the pipe *)
| Arrive (it : item)   (* a complete message of the peer enters the ingress queue *)
| PeerUp.

Definition state : Type := thr * Proto * Env.

Definition step (c : Cfg) (t : sock) (x : ev) (s : state) : state :=
  let '(th, p, e) := s in
  match x, th with
  | Call o, TIdle => exec c (program c t o p e) p e
  | Poll, TPark q => exec c q p e
  | Cancel, TPark _ => (TIdle, add_ret 0 (glue p), e)
  | Tmo, TPark (Aw _ h :: r) =>
      match h with
      | TNone => s
      | TSkip => exec c r p e
      | TRet f x => (TIdle, finish x (f p), e)
      end
  | Drain O, _ => (th, p, mkE (tl (e_out e)) (e_out2 e) (e_dq e) (e_in e) (e_arrived e) (e_peer e))
  | Drain _, _ => (th, p, mkE (e_out e) (tl (e_out2 e)) (e_dq e) (e_in e) (e_arrived e) (e_peer e))
  | QDrain, _ =>
      match e_dq e with
      | it :: r => if e_peer e && Nat.ltb (length (e_out e)) (cap c)
                   then (th, p, mkE (e_out e ++ [it]) (e_out2 e) r (e_in e) (e_arrived e) (e_peer e))
                   else s
      | [] => s
      end
  | Arrive it, _ =>
      if Nat.ltb (length (e_in e)) (incap c)
      then (th, p, mkE (e_out e) (e_out2 e) (e_dq e) (e_in e ++ [it]) (e_arrived e ++ [it]) (e_peer e))
      else s
  | PeerUp, _ => (th, p, mkE (e_out e) (e_out2 e) (e_dq e) (e_in e) (e_arrived e) true)
  | _, _ => s
  end.

Definition run (c : Cfg) (t : sock) (es : list ev) (s : state) : state := fold_left (fun s x => step c t x s) es s.

(* events that are neither a new call nor the drop: the world and the polls *)
Definition is_bg (x : ev) : bool := match x with Call _ | Cancel => false | _ => true end.

(* ---- the peer's view: what the ZMTP / inproc reader reassembles from the pipe entries ---- *)
Fixpoint reassemble (acc : list frame) (fs : list frame) : list (list frame) :=
  match fs with
  | [] => []                                   (* an unterminated tail is not delivered (yet) *)
  | f :: r => if snd f then reassemble (acc ++ [f]) r else (acc ++ [f]) :: reassemble [] r
  end.
Definition wire_msgs (pushed : list item) : list (list frame) := reassemble [] (concat pushed).
Definition wire_tail (pushed : list item) : bool :=       (* is an unterminated message left on the pipe? *)
  match rev (concat pushed) with f :: _ => snd f | [] => false end.

(* the protocol state an application can observe / rely on *)
Definition core (p : Proto) :=
  (p_req p, p_rep p, p_dtx p, (p_rtgt p, p_perm p, p_fperm p), p_buf p, p_reg p,
   (p_pushed p, p_pushed2 p), p_taken p, p_app p).

(* does the socket's own state check let the call in? (the `return Err(InvalidState)` guards) *)
Definition accepts (t : sock) (o : opk) (p : Proto) : bool :=
  match t, o with
  | REQ, OSend _ => negb (p_req p)
  | REQ, ORecv | REQ, ORecvMp => p_req p
  | REP, OSend _ | REP, OSendMp _ => negb (is_none (p_rep p))
  | REP, ORecv | REP, ORecvMp => is_none (p_rep p)
  | _, _ => true
  end.

(* ------------------------------------------------------------------------------------------------
   DEALER with TWO application tasks on one socket handle: task A sends a message part by part
   (DealerSendTransaction::Buffering carries a fresh `completion_notifier`), task B's
   send_multipart() finds the transaction open, clones that notifier and awaits `notified()`
   (dealer_socket.rs:402-436).  A's last part takes the transaction (-> Idle) together with the
   notifier, awaits send_logical_message and only THEN calls `notify_waiters()` (lines 349-355):
   there is no drop glue, so a dropped last part never notifies.  Notifiers are per transaction
   (numbered here); `notify_waiters` wakes the futures that are registered at that moment. *)
Record dw := mkDw {
  w_tx : option nat;      (* Buffering, with the number of its notifier *)
  w_next : nat;           (* number of the next notifier *)
  w_last : option nat;    (* A's last part is in flight and owns notifier k *)
  w_wait : option nat;    (* B is parked on notifier k *)
  w_woken : bool;         (* ... and has been notified *)
  w_done : bool           (* B got its turn *)
}.
Inductive dwev :=
| DPart        (* A: send(part | MORE) *)
| DLast        (* A: send(last part) starts: takes the transaction *)
| DLastDone    (* ... returns (Ok or Err): notify_waiters() *)
| DLastDrop    (* ... its future is dropped *)
| DCallB       (* B: send_multipart() *)
| DPollB.      (* B's future is polled *)

Definition dw0 : dw := mkDw None 0 None None false false.

Definition b_check (s : dw) : dw :=       (* B looks at the transaction under the lock *)
  match w_tx s with
  | Some k => mkDw (w_tx s) (w_next s) (w_last s) (Some k) false (w_done s)
  | None => mkDw (w_tx s) (w_next s) (w_last s) None false true
  end.

Definition dwstep (s : dw) (x : dwev) : dw :=
  match x with
  | DPart => match w_last s, w_tx s with
             | None, None => mkDw (Some (w_next s)) (S (w_next s)) None (w_wait s) (w_woken s) (w_done s)
             | _, _ => s
             end
  | DLast => match w_last s, w_tx s with
             | None, Some k => mkDw None (w_next s) (Some k) (w_wait s) (w_woken s) (w_done s)
             | _, _ => s
             end
  | DLastDone => match w_last s with
                 | Some k => mkDw (w_tx s) (w_next s) None (w_wait s)
                                  (w_woken s || match w_wait s with Some j => Nat.eqb j k | None => false end) (w_done s)
                 | None => s
                 end
  | DLastDrop => mkDw (w_tx s) (w_next s) None (w_wait s) (w_woken s) (w_done s)
  | DCallB => if w_done s || negb (is_none (w_wait s)) then s else b_check s
  | DPollB => match w_wait s with
              | Some _ => if w_woken s then b_check s else s
              | None => s
              end
  end.
Definition dwrun (es : list dwev) (s : dw) : dw := fold_left dwstep es s.

(* somebody still owes B its notification *)
Definition owed (s : dw) : bool :=
  match w_wait s with
  | Some k => w_woken s || match w_tx s with Some j => Nat.eqb j k | None => false end
                        || match w_last s with Some j => Nat.eqb j k | None => false end
  | None => true
  end.
Definition no_drop (es : list dwev) : bool := forallb (fun x => match x with DLastDrop => false | _ => true end) es.
