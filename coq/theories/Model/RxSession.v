(* The receiving side of the tokio session's operational loop (core/src/sessionx/actor.rs) as far as it decides
   which decoded messages reach the socket:
     read arm      `read_and_process(..), if ingress_buffer.is_empty()`: one read = the next chunk the kernel holds,
                   or EOF when the peer has closed and nothing is left; DeliverMessage actions are appended to
                   ingress_buffer in order, a PeerError makes the session Terminating at once
     drain arm     `IngressDriver`, enabled while ingress_buffer is non-empty: moves batches to the socket's pipe,
                   front first, as far as the pipe has room
     the end       EOF or a fatal error leaves the loop; whatever ingress_buffer still holds is dropped with it
   The gate on the read arm is what makes EOF harmless: it can only be SEEN when the buffer is empty.
   Executable definitions only; proofs in Proofs/RxSessionProofs.v. *)
From RZ Require Import Base.Prelude Base.Stepper Model.Codec Model.Engine Model.Actor.
Local Open Scope N_scope.

Notation msg := (list frame) (only parsing).

Record rx := {
  x_eng : engine;
  x_in : list (bytes * N);     (* what the kernel still holds, in arrival order (chunk, arrival time); then EOF *)
  x_buf : list msg;            (* ingress_buffer *)
  x_pipe : list msg;           (* handed to the socket's pipe so far *)
  x_over : bool;               (* the loop has been left *)
  x_dropped : list msg;        (* dropped with the loop *)
  x_seen : list (bytes * N)    (* chunks read so far (ghost) *)
}.
Definition x_new (t : N) (g : engine) (input : list (bytes * N)) : rx :=
  {| x_eng := g; x_in := input; x_buf := []; x_pipe := []; x_over := false; x_dropped := []; x_seen := [] |}.

Inductive rxev :=
| XRead             (* the read arm is polled *)
| XDrain (k : nat). (* the drain arm is polled and the pipe takes k batches *)

(* `gate s` = the read arm's `if` condition. The code: ingress_buffer.is_empty() *)
Definition gate_empty (s : rx) : bool := match x_buf s with [] => true | _ => false end.

Definition x_step (gate : rx -> bool) (cfg : ecfg) (s : rx) (e : rxev) : rx :=
  if x_over s then s else
  match e with
  | XRead =>
      if gate s then
        match x_in s with
        | [] => (* EOF: ConnectionClosed -> Terminating; the buffer goes down with the loop *)
            {| x_eng := x_eng s; x_in := []; x_buf := []; x_pipe := x_pipe s; x_over := true;
               x_dropped := x_buf s; x_seen := x_seen s |}
        | (d, t) :: rest =>
            let '(g, o) := e_net cfg (x_eng s) d t in
            let b := x_buf s ++ deliveries o in
            if has_err o then
              {| x_eng := g; x_in := rest; x_buf := []; x_pipe := x_pipe s; x_over := true;
                 x_dropped := b; x_seen := x_seen s ++ [(d, t)] |}
            else
              {| x_eng := g; x_in := rest; x_buf := b; x_pipe := x_pipe s; x_over := false;
                 x_dropped := []; x_seen := x_seen s ++ [(d, t)] |}
        end
      else s
  | XDrain k =>
      {| x_eng := x_eng s; x_in := x_in s; x_buf := skipn k (x_buf s); x_pipe := x_pipe s ++ firstn k (x_buf s);
         x_over := false; x_dropped := []; x_seen := x_seen s |}
  end.

Fixpoint x_run (gate : rx -> bool) (cfg : ecfg) (s : rx) (es : list rxev) : rx :=
  match es with
  | [] => s
  | e :: rest => x_run gate cfg (x_step gate cfg s e) rest
  end.
