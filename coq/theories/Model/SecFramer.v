(* Executable model of rzmq's record layer for encrypted connections (CURVE, NOISE_XX):
     core/src/security/framer/mod.rs   LengthPrefixedFramer (seal_records, write_msg_batch / write_msg_multipart / try_read_msg)
     core/src/security/curve/cipher.rs CurveDataCipher (per-direction counters, start 1, += 1 per record)
     core/src/security/noise_xx.rs     NoiseDataCipher (snow TransportState, 65535-byte message limit)
     core/src/security/curve/handshake.rs into_session_keys (which inputs the data keys depend on)
     core/src/protocol/zmtp/engine.rs  Data phase on top of the active framer (on_app_message, on_tick,
                                       process_data: PING/PONG are encoded with the plain codec, NOT by the framer)
   The AEAD itself is ABSTRACT: [seal]/[open] are Section variables (the symbolic idealisation of DESIGN
   section 7); their laws are hypotheses of Proofs/SecFramerProofs.v. A toy executable instance ([toy_seal],
   [toy_open]) is defined at the end for the correspondence driver and for non-vacuity examples. *)
From RZ Require Import Base.Prelude Base.Stepper Model.Codec Model.Engine.
Local Open Scope N_scope.

Definition TAG : N := 16.              (* CRYPTO_BOX_MACBYTES = NOISE_TAG_LEN = MIN_NOISE_MSG_LEN = 16 *)
Definition U16 : N := 65536.
Definition NOISE_MAX_PT : N := 65519.  (* u16::MAX as usize - NOISE_TAG_LEN *)

Inductive ckind := KCurve | KNoise.

Section SecFramer.
Variable key : Type.
Variable seal : key -> N -> bytes -> bytes.            (* AEAD encryption under (key, nonce counter) *)
Variable open : key -> N -> bytes -> option bytes.

(* ---------- IDataCipher: CurveDataCipher / NoiseDataCipher ---------- *)
(* encode/decode key and one record counter per direction. CurveDataCipher::new sets both counters to 1;
   snow's transport CipherStates start at nonce 0. *)
Record cipher := { c_kind : ckind; c_ek : key; c_dk : key; c_sn : N; c_rn : N }.
Definition ctr_start (kd : ckind) : N := match kd with KCurve => 1 | KNoise => 0 end.
Definition cipher_new (kd : ckind) (ek dk : key) : cipher :=
  {| c_kind := kd; c_ek := ek; c_dk := dk; c_sn := ctr_start kd; c_rn := ctr_start kd |}.
Definition set_sn (c : cipher) (n : N) : cipher :=
  {| c_kind := c_kind c; c_ek := c_ek c; c_dk := c_dk c; c_sn := n; c_rn := c_rn c |}.
Definition set_rn (c : cipher) (n : N) : cipher :=
  {| c_kind := c_kind c; c_ek := c_ek c; c_dk := c_dk c; c_sn := c_sn c; c_rn := n |}.

(* the counter is a u64: `counter += 1` overflows at 2^64 - 1 (CURVE: panic in a checked build, wrap
   to 0 otherwise); snow refuses nonce 2^64 - 1 (reserved) with an error *)
Definition ctr_ok (n : N) : bool := n + 1 <? U64.

Inductive eres := EOk (ct : bytes) (c' : cipher) | EErr | EPanic.
Definition encrypt (c : cipher) (pt : bytes) : eres :=
  match c_kind c with
  | KCurve =>
      (* crypto_box_detached_afternm: no size check; [MAC][ciphertext] *)
      if ctr_ok (c_sn c) then EOk (seal (c_ek c) (c_sn c) pt) (set_sn c (c_sn c + 1)) else EPanic
  | KNoise =>
      (* `if plaintext.len() > u16::MAX - NOISE_TAG_LEN { return Err(InvalidMessage) }` *)
      if NOISE_MAX_PT <? len pt then EErr
      else if ctr_ok (c_sn c) then EOk (seal (c_ek c) (c_sn c) pt) (set_sn c (c_sn c + 1)) else EErr
  end.

Inductive dcres := DcOk (pt : bytes) (c' : cipher) | DcErr | DcPanic.
Definition decrypt (c : cipher) (ct : bytes) : dcres :=
  (* both ciphers: `if ciphertext.len() < 16 { return Err }` before touching the AEAD *)
  if len ct <? TAG then DcErr else
  match c_kind c with
  | KCurve =>
      match open (c_dk c) (c_rn c) ct with
      | Some pt => if ctr_ok (c_rn c) then DcOk pt (set_rn c (c_rn c + 1)) else DcPanic
      | None => DcErr     (* AuthenticationFailure; recv counter unchanged *)
      end
  | KNoise =>
      if ctr_ok (c_rn c) then
        match open (c_dk c) (c_rn c) ct with
        | Some pt => DcOk pt (set_rn c (c_rn c + 1))
        | None => DcErr
        end
      else DcErr
  end.

(* ---------- LengthPrefixedFramer, write side ---------- *)
(* `out.put_u16(ciphertext.len() as u16); out.extend_from_slice(&ciphertext)`: the cast truncates
   (it cannot any more since seal_records keeps every ciphertext <= 65535 bytes; before that repair the
   whole batch went into ONE record and the length of a CURVE record wrapped above 65535) *)
Definition record_of (ct : bytes) : bytes := be_bytes 2 (len ct mod U16) ++ ct.

(* MAX_RECORD_PLAINTEXT = u16::MAX - 16; `plaintext.chunks(MAX_RECORD_PLAINTEXT)`: consecutive slices of
   that many bytes, the last one shorter; NO slice for an empty plaintext *)
Definition CHUNK : nat := N.to_nat NOISE_MAX_PT.
Fixpoint chunk_fuel (fuel : nat) (p : bytes) : list bytes :=
  match fuel with
  | O => []
  | S f => match p with [] => [] | _ => firstn CHUNK p :: chunk_fuel f (skipn CHUNK p) end
  end.
Definition chunks (p : bytes) : list bytes := chunk_fuel (length p) p.

Inductive sres := SOk (wire : bytes) | SErr | SPanic.
(* seal_records: `for chunk in plaintext.chunks(..) { let ct = self.cipher.encrypt(chunk)?; out.put_u16(..); .. }`.
   An error in the middle drops `out`, the counter keeps what the earlier chunks consumed. *)
Fixpoint seal_chunks (c : cipher) (chs : list bytes) (out : bytes) : sres * cipher :=
  match chs with
  | [] => (SOk out, c)
  | ch :: r =>
      match encrypt c ch with
      | EOk ct c' => seal_chunks c' r (out ++ record_of ct)
      | EErr => (SErr, c)
      | EPanic => (SPanic, c)
      end
  end.
Definition seal_records (c : cipher) (pt : bytes) : sres * cipher := seal_chunks c (chunks pt) [].

(* write_msg_batch: frame_contiguous of the WHOLE batch, then seal_records *)
Definition write_msg_batch (c : cipher) (batch : list (list frame)) : sres * cipher :=
  seal_records c (enc_contiguous batch).
(* write_msg_multipart(msgs) = the same code on `&[msgs]`; frame_vectored/write_msg_split default to it *)
Definition write_msg_multipart (c : cipher) (msgs : list frame) : sres * cipher := write_msg_batch c [msgs].

(* a sequence of write calls; a panic ends the sequence *)
Fixpoint send_all (c : cipher) (bs : list (list (list frame))) : list sres * cipher :=
  match bs with
  | [] => ([], c)
  | b :: r =>
      let '(s, c1) := write_msg_batch c b in
      match s with
      | SPanic => ([SPanic], c1)
      | _ => let '(ss, c2) := send_all c1 r in (s :: ss, c2)
      end
  end.
Definition wire_of (s : sres) : bytes := match s with SOk w => w | _ => [] end.
Definition wires (ss : list sres) : bytes := concat (map wire_of ss).

(* the records an honest sender with key k emits for a list of plaintext chunks from counter n on *)
Fixpoint chunk_wires (k : key) (n : N) (chs : list bytes) : list bytes :=
  match chs with [] => [] | ch :: r => record_of (seal k n ch) :: chunk_wires k (n + 1) r end.
(* the (nonce, plaintext) pairs it sealed *)
Fixpoint sealed (n : N) (chs : list bytes) : list (N * bytes) :=
  match chs with [] => [] | ch :: r => (n, ch) :: sealed (n + 1) r end.
(* the chunks of a sequence of write calls *)
Definition all_chunks (bs : list (list (list frame))) : list bytes :=
  concat (map (fun b => chunks (enc_contiguous b)) bs).

(* ---------- LengthPrefixedFramer, read side ---------- *)
Inductive rout := RFrame (f : frame) | RErr | RPanic.
(* r_closed: try_read_msg returned Err (or panicked); the engine sets phase = Closed and never calls it again *)
Record rstate := { r_c : cipher; r_dbuf : bytes; r_closed : bool }.
Definition r_init (c : cipher) : rstate := {| r_c := c; r_dbuf := []; r_closed := false |}.

Definition conv (o : option frame) : rout := match o with Some f => RFrame f | None => RErr end.

(* one length-prefixed record taken from the network buffer: decrypt, append the plaintext to
   decrypted_buffer, then the loop of try_read_msg calls hands out the frames it now contains:
   `self.parser.decode_from_buffer(&mut self.decrypted_buffer)` repeated until Ok(None) / Err, which is
   Codec.buffer_step pumped over the decrypted buffer (a frame may span records) *)
Definition on_record (maxsz : Z) (st : rstate) (rec : bytes) : rstate * list rout :=
  match decrypt (r_c st) rec with
  | DcOk pt c' =>
      let '(failed, d', o) := pump (buffer_step maxsz) buffer_mu 1%nat false (r_dbuf st ++ pt) in
      ({| r_c := c'; r_dbuf := d'; r_closed := failed |}, map conv o)
  | DcErr => ({| r_c := r_c st; r_dbuf := r_dbuf st; r_closed := true |}, [RErr])
  | DcPanic => ({| r_c := r_c st; r_dbuf := r_dbuf st; r_closed := true |}, [RPanic])
  end.

(* try_read_msg as an accumulator stepper. One step = the loop iterations from taking one record off
   the network buffer until decode_from_buffer(decrypted_buffer) next returns Ok(None); decrypted_buffer
   never holds a complete frame between steps (it starts empty and every step drains it). *)
Definition sstep (maxsz : Z) (st : rstate) (buf : bytes) : res rstate rout :=
  if r_closed st then Need else
  if len buf <? 2 then Need else                                 (* network_buffer.len() < 2 *)
  let l := be_val (firstn 2 buf) in                              (* get_u16() *)
  if len buf <? 2 + l then Need else                             (* network_buffer.len() < 2 + len *)
  let '(st', o) := on_record maxsz st (firstn (N.to_nat l) (skipn 2 buf)) in
  Step st' (2 + N.to_nat l)%nat o.
Definition smu (st : rstate) : nat := 0%nat.

Definition recv_run (maxsz : Z) (c : cipher) (chunks : list bytes) : rstate * bytes * list rout :=
  feed (sstep maxsz) smu 0%nat (r_init c) [] chunks.

(* ---------- the engine's Data phase on top of the framer (ZMTP/3.x; encrypted links are never v2) ---------- *)
Record dstate := { d_partial : list frame; d_closed : bool }.
Definition d_init : dstate := {| d_partial := []; d_closed := false |}.
Definition d_close (st : dstate) : dstate := {| d_partial := d_partial st; d_closed := true |}.

(* process_data for one try_read_msg result. NOTE the PONG: `encode_msg(pong)` = plain ZmtpCodec bytes
   pushed as NetAction::Send, bypassing `self.framer`. *)
Definition data_on (st : dstate) (o : rout) : dstate * list eout :=
  if d_closed st then (st, []) else
  match o with
  | RErr => (d_close st, [OErr ESecurity])
  | RPanic => (d_close st, [OPanic])
  | RFrame f =>
      if f_cmd f then
        match parse_cmd f with
        | CPing ctx => (st, [OSend (enc_codec (cmd_frame (pong_body ctx))) false])
        | CPong _ => (st, [OPongSeen])
        | CError => (d_close st, [OErr EProto])
        | _ => (st, [])
        end
      else if (MAX_FRAMES <=? length (d_partial st))%nat then (d_close st, [OErr EProto])
      else if f_more f then ({| d_partial := d_partial st ++ [f]; d_closed := false |}, [])
      else ({| d_partial := []; d_closed := false |}, [ODeliver (d_partial st ++ [f])])
  end.
Fixpoint data_fold (st : dstate) (os : list rout) : dstate * list eout :=
  match os with
  | [] => (st, [])
  | o :: r => let '(st1, e1) := data_on st o in let '(st2, e2) := data_fold st1 r in (st2, e1 ++ e2)
  end.

(* on_app_message under an encrypted framer *)
Definition sec_app (zc : bool) (c : cipher) (msgs : list frame) : cipher * list eout :=
  match write_msg_multipart c msgs with
  | (SOk w, c') => (c', [OSend w zc])
  | (SErr, c') => (c', [OErr ESecurity])
  | (SPanic, c') => (c', [OPanic])
  end.

(* what on_tick puts on the wire when a heartbeat is due (Engine.e_tick): `encode_msg(ping_msg)`,
   plain codec, no record layer *)
Definition hb_ping (ttl : N) : bytes := enc_codec (cmd_frame (ping_body ttl [])).
Definition hb_pong (ctx : bytes) : bytes := enc_codec (cmd_frame (pong_body ctx)).

(* ---------- where the data keys come from ---------- *)
Variable statics : Type.      (* the two long-term key pairs of a connection *)
Variable eph : Type.          (* per-session ephemeral key material *)
(* curve/handshake.rs into_session_keys: crypto_kx_{client,server}_session_keys(local static pk,
   local static sk, remote static pk) -> (rx, tx). The ephemeral keys and `precomputed_key` are not used. *)
Variable curve_kx : bool -> statics -> key * key.
Definition curve_data_cipher (server : bool) (sk : statics) (e_client e_server : eph) : cipher :=
  let '(rx, tx) := curve_kx server sk in cipher_new KCurve tx rx.
(* snow: Split() of the handshake chaining key, which mixed in ee, es, se *)
Variable noise_split : bool -> statics -> eph -> eph -> key * key.
Definition noise_data_cipher (server : bool) (sk : statics) (e_client e_server : eph) : cipher :=
  let '(rx, tx) := noise_split server sk e_client e_server in cipher_new KNoise tx rx.

End SecFramer.

Arguments c_kind {key}. Arguments c_ek {key}. Arguments c_dk {key}. Arguments c_sn {key}. Arguments c_rn {key}.
Arguments Build_cipher {key}.
Arguments cipher_new {key}. Arguments set_sn {key}. Arguments set_rn {key}.
Arguments EOk {key}. Arguments EErr {key}. Arguments EPanic {key}.
Arguments DcOk {key}. Arguments DcErr {key}. Arguments DcPanic {key}.
Arguments r_c {key}. Arguments r_dbuf {key}. Arguments r_closed {key}. Arguments Build_rstate {key}.
Arguments r_init {key}.

(* ---------- a toy executable AEAD: 16-byte tag binding key, nonce, length and a checksum ---------- *)
Definition adler (p : bytes) : N := let '(_, a, _, _) := digest p in a.
Definition toy_tag (k n : N) (p : bytes) : bytes :=
  be_bytes 8 n ++ be_bytes 2 k ++ be_bytes 2 (len p) ++ be_bytes 4 (adler p).
Definition toy_seal (k n : N) (p : bytes) : bytes := toy_tag k n p ++ p.
Definition toy_open (k n : N) (c : bytes) : option bytes :=
  if (16 <=? length c)%nat && bytes_eqb (firstn 16 c) (toy_tag k n (skipn 16 c)) then Some (skipn 16 c) else None.
