(* Small-step interleaving model of core/src/socket/req_socket.rs (ReqSocket) and
   core/src/socket/rep_socket.rs (RepSocket), cut at the code's lock scopes and await points.

   A system = shared socket state + one program (list of calls) per task.  A schedule is a list
   of tokens: `ST t` lets task t execute ONE step of its current call (the next call is started
   if it is idle; nothing happens if the step is an await that is not ready), `SE e` is one
   environment event (a peer's message is queued, a peer's connection is closed by the core,
   pipe_detached runs, a peer attaches, a RCVTIMEO timer fires).

   REQ send()                                  REQ recv()
     QStart        lock; ReadyToSend?  (scope 1)   QStart        lock; ExpectingReply?
     QSendChecked  get_next_connection + push       QRecvChecked  select! entered: Notified polled, pop polled
     QSendPushed p lock; state := Expecting(p)      QRecvParked   both pending; re-polled (biased: notifier first)
                                                    QRecvNbEmpty  notifier arm, try_pop gave nothing; lock; is_ready?
                                                    QRecvGot r    lock; if Expecting && finished {Ready; notify_waiters}
   REP recv()                                  REP send() / send_multipart()
     PStart        lock; ReadyToReceive?            PStart        lock; mem::replace(state, Ready) (atomic take)
     PRecvChecked  pop (await)                      PSendTaken i  endpoint lookup + push of prefix ++ payload
     PRecvPopped   core_state read: uri lookup
     PRecvGot      lock; state := ReceivedRequest   (unconditional overwrite)

   The linearisation point of a call is its commit step (QSendPushed, QRecvGot, QRecvMGot, PRecvGot,
   the take in PStart); commit steps append to `s_trace`.  Every finished call is appended to `s_log`
   together with a ghost bit `dirty`: did any step of the call change the observable shared state.

   Messages are lists of frames; a frame is an N: 0 = empty frame, n > 0 = some non-empty content.
   tokio::sync::Notify as used by REQ: notify_waiters() wakes exactly the Notified futures that exist
   (generation counter) and stores nothing; notify_one() wakes the oldest registered waiter or, if
   there is none, stores one permit that the next Notified consumes on its first poll.  One poll of
   the select! is atomic.  The socket is running (is_running() = true) throughout. *)
From RZ Require Import Base.Prelude Model.Balancer.

(* ------------------------------------------------------------------ calls and results *)

Inductive op := OSend | ORecv | OSendM | ORecvM.
Record call := mkCall { c_op : op; c_tag : N }.

(* RInvalid false: ZmqError::InvalidState returned by the state check that opens the call;
   RInvalid true : InvalidState("Socket state changed while waiting for reply") from REQ recv's notifier arm.
   RErr k: 3 UnsupportedFeature, 4 HostUnreachable, 5 Internal, 6 Timeout *)
Inductive res := ROk (d : list N) | ROkMore (d : list N) | RInvalid (late : bool) | RErr (k : N).

(* ------------------------------------------------------------------ small helpers *)

Definition memN (x : N) (l : list N) : bool := existsb (N.eqb x) l.
Definition remN (x : N) (l : list N) : list N := filter (fun y => negb (N.eqb y x)) l.
Definition memn (x : nat) (l : list nat) : bool := existsb (Nat.eqb x) l.
Definition remn (x : nat) (l : list nat) : list nat := filter (fun y => negb (Nat.eqb y x)) l.

Fixpoint upd {A} (n : nat) (x : A) (l : list A) : list A :=
  match l with
  | [] => []
  | y :: t => match n with 0 => x :: t | S k => y :: upd k x t end
  end.

Fixpoint list_eqb {A} (eqb : A -> A -> bool) (a b : list A) : bool :=
  match a, b with
  | [], [] => true
  | x :: a', y :: b' => eqb x y && list_eqb eqb a' b'
  | _, _ => false
  end.
Definition opt_eqb {A} (eqb : A -> A -> bool) (a b : option A) : bool :=
  match a, b with
  | None, None => true
  | Some x, Some y => eqb x y
  | _, _ => false
  end.
Definition pair_eqb {A B} (ea : A -> A -> bool) (eb : B -> B -> bool) (a b : A * B) : bool :=
  ea (fst a) (fst b) && eb (snd a) (snd b).

(* ------------------------------------------------------------------ ingress queue (ReadyPipeQueue)
   one FIFO per pipe plus the list of ready pipes; a pipe joins the END of the ready list on its
   0 -> 1 transition and again after a pop that leaves it non-empty (pop / try_pop). *)

Definition msg := list N.
Record inq := mkQ { iq_ready : list N; iq_pipes : list (N * list msg) }.
Definition iq0 : inq := mkQ [] [].

Fixpoint aq_get (p : N) (l : list (N * list msg)) : list msg :=
  match l with
  | [] => []
  | (q, ms) :: t => if N.eqb q p then ms else aq_get p t
  end.
Fixpoint aq_set (p : N) (v : list msg) (l : list (N * list msg)) : list (N * list msg) :=
  match l with
  | [] => [(p, v)]
  | (q, ms) :: t => if N.eqb q p then (q, v) :: t else (q, ms) :: aq_set p v t
  end.

Definition iq_push (p : N) (m : msg) (q : inq) : inq :=
  let old := aq_get p (iq_pipes q) in
  mkQ (match old with [] => iq_ready q ++ [p] | _ => iq_ready q end) (aq_set p (old ++ [m]) (iq_pipes q)).

(* None: nothing ready (a stale ready entry - unreachable here - also gives None and is left alone) *)
Definition iq_pop (q : inq) : option (N * msg * inq) :=
  match iq_ready q with
  | [] => None
  | p :: r =>
      match aq_get p (iq_pipes q) with
      | [] => None
      | m :: rest =>
          Some (p, m, mkQ (match rest with [] => r | _ => r ++ [p] end) (aq_set p rest (iq_pipes q)))
      end
  end.

Definition inq_eqb (a b : inq) : bool :=
  list_eqb N.eqb (iq_ready a) (iq_ready b)
  && list_eqb (pair_eqb N.eqb (list_eqb (list_eqb N.eqb))) (iq_pipes a) (iq_pipes b).

(* what recv() hands to the caller out of the payload frames: the first frame (an empty Msg if there
   is none); its MORE flag is set iff further frames follow (they are dropped) *)
Definition first_frame (payload : list N) : res :=
  match payload with
  | [] => ROk [0%N]
  | [x] => ROk [x]
  | x :: _ => ROkMore [x]
  end.

(* ------------------------------------------------------------------ the generic machine *)

Section Machine.
  Context {Sh Pc Ev Env : Type}.
  Variable pc0 : Pc.
  Variable tstep : nat -> call -> Pc -> Sh -> option (Sh * list Ev * (Pc + res)).
  Variable estep : Env -> Sh -> Sh * list Ev.
  Variable obs_eqb : Sh -> Sh -> bool.

  (* t_pc = None: between two calls *)
  Record task := mkTask { t_prog : list call; t_pc : option Pc; t_dirty : bool }.
  Record entry := mkEntry { e_task : nat; e_call : call; e_res : res; e_dirty : bool }.
  Record sys := mkSys { s_sh : Sh; s_tasks : list task; s_trace : list Ev; s_log : list entry }.
  Inductive sched := ST (t : nat) | SE (e : Env).

  Definition init (sh : Sh) (progs : list (list call)) : sys :=
    mkSys sh (map (fun p => mkTask p None false) progs) [] [].

  Definition step_task (t : nat) (s : sys) : sys :=
    match nth_error (s_tasks s) t with
    | None => s
    | Some tk =>
        match t_prog tk with
        | [] => s
        | c :: rest =>
            let pc := match t_pc tk with Some pc => pc | None => pc0 end in
            match tstep t c pc (s_sh s) with
            | None => s
            | Some (sh', evs, nxt) =>
                let d := t_dirty tk || negb (obs_eqb (s_sh s) sh') in
                match nxt with
                | inl pc' =>
                    mkSys sh' (upd t (mkTask (c :: rest) (Some pc') d) (s_tasks s)) (s_trace s ++ evs) (s_log s)
                | inr r =>
                    mkSys sh' (upd t (mkTask rest None false) (s_tasks s)) (s_trace s ++ evs)
                          (s_log s ++ [mkEntry t c r d])
                end
            end
        end
    end.

  Definition step_env (e : Env) (s : sys) : sys :=
    let '(sh', evs) := estep e (s_sh s) in
    mkSys sh' (s_tasks s) (s_trace s ++ evs) (s_log s).

  Definition step (s : sys) (x : sched) : sys :=
    match x with
    | ST t => step_task t s
    | SE e => step_env e s
    end.
  Definition run (xs : list sched) (s : sys) : sys := fold_left step xs s.

  (* schedules without overlapping calls: whenever a task moves, every other task is between calls *)
  Definition idleb (tk : task) : bool := match t_pc tk with None => true | Some _ => false end.
  Fixpoint others_idle_from (i t : nat) (l : list task) : bool :=
    match l with
    | [] => true
    | tk :: l' => (Nat.eqb i t || idleb tk) && others_idle_from (S i) t l'
    end.
  Definition others_idle (t : nat) (s : sys) : bool := others_idle_from 0 t (s_tasks s).
  Fixpoint nonoverlap (xs : list sched) (s : sys) : bool :=
    match xs with
    | [] => true
    | x :: xs' =>
        (match x with ST t => others_idle t s | SE _ => true end) && nonoverlap xs' (step s x)
    end.
End Machine.

Arguments task : clear implicits.
Arguments sys : clear implicits.
Arguments sched : clear implicits.
Arguments ST {Env} t.
Arguments SE {Env} e.

(* ================================================================== REQ *)

Record qsh := mkQS {
  q_st : option N;          (* None = ReadyToSend; Some u = ExpectingReply { target_endpoint_uri: u } *)
  q_lb : bal;               (* load_balancer *)
  q_att : list N;           (* pipe_read_to_endpoint_uri: peers with an attached pipe (pipe id = uri here) *)
  q_closed : list N;        (* connections the core has already closed: a send on them fails *)
  q_in : inq;               (* ingress_engine *)
  q_permit : bool;          (* reply_available_notifier: stored notify_one permit *)
  q_gen : nat;              (*   number of notify_waiters() calls *)
  q_waiters : list nat;     (*   tasks whose Notified is registered, oldest first *)
  q_woken : list nat;       (*   tasks whose Notified received a notify_one *)
  q_out : list (N * msg);   (* what was handed to the peers' connections, in order *)
  q_parked : list nat;      (* tasks waiting inside recv_logical_message(rcvtimeo) *)
  q_tmo : list nat;         (*   ... whose timer has fired *)
  q_rcvtimeo : bool         (* RCVTIMEO set to a positive value *)
}.

Inductive qpc :=
| QStart
| QSendChecked
| QSendPushed (p : N)
| QRecvChecked
| QRecvParked (seen : nat)
| QRecvNbEmpty
| QRecvGot (r : res)
| QRecvMChecked
| QRecvMParked
| QRecvMGot (r : res).

(* commit events: successful send; recv returning a last frame; recv returning a frame with MORE
   (state kept); reset of ExpectingReply by something else than a successful recv
   (target peer detached, or a recv that failed) *)
Inductive aev := AS | AR | AM | AX.

Definition qset_st (s : qsh) (st : option N) : qsh :=
  mkQS st (q_lb s) (q_att s) (q_closed s) (q_in s) (q_permit s) (q_gen s) (q_waiters s) (q_woken s)
       (q_out s) (q_parked s) (q_tmo s) (q_rcvtimeo s).
Definition qset_in (s : qsh) (q : inq) : qsh :=
  mkQS (q_st s) (q_lb s) (q_att s) (q_closed s) q (q_permit s) (q_gen s) (q_waiters s) (q_woken s)
       (q_out s) (q_parked s) (q_tmo s) (q_rcvtimeo s).
Definition qset_lb_out (s : qsh) (b : bal) (o : list (N * msg)) : qsh :=
  mkQS (q_st s) b (q_att s) (q_closed s) (q_in s) (q_permit s) (q_gen s) (q_waiters s) (q_woken s)
       o (q_parked s) (q_tmo s) (q_rcvtimeo s).
Definition qset_notify (s : qsh) (permit : bool) (gen : nat) (ws wk : list nat) : qsh :=
  mkQS (q_st s) (q_lb s) (q_att s) (q_closed s) (q_in s) permit gen ws wk
       (q_out s) (q_parked s) (q_tmo s) (q_rcvtimeo s).
Definition qset_wait (s : qsh) (parked tmo : list nat) : qsh :=
  mkQS (q_st s) (q_lb s) (q_att s) (q_closed s) (q_in s) (q_permit s) (q_gen s) (q_waiters s) (q_woken s)
       (q_out s) parked tmo (q_rcvtimeo s).
Definition qset_peers (s : qsh) (b : bal) (att closed : list N) : qsh :=
  mkQS (q_st s) b att closed (q_in s) (q_permit s) (q_gen s) (q_waiters s) (q_woken s)
       (q_out s) (q_parked s) (q_tmo s) (q_rcvtimeo s).

(* task t leaves the select! / the pop: its Notified is dropped, its timer is gone *)
Definition qleave (t : nat) (s : qsh) : qsh :=
  qset_wait (qset_notify s (q_permit s) (q_gen s) (remn t (q_waiters s)) (remn t (q_woken s)))
            (remn t (q_parked s)) (remn t (q_tmo s)).

(* process_incoming_zmtp_message_for_req: strip a leading empty delimiter, else keep everything *)
Definition req_payload (m : msg) : list N :=
  match m with
  | 0%N :: rest => rest
  | _ => m
  end.

(* the notifier arm of recv's select!: recv_logical_message(Some(ZERO)) = try_pop *)
Definition q_nb (t : nat) (s : qsh) : qsh * list aev * (qpc + res) :=
  let s := qleave t s in
  match iq_pop (q_in s) with
  | Some (_, m, q') => (qset_in s q', [], inl (QRecvGot (first_frame (req_payload m))))
  | None => (s, [], inl QRecvNbEmpty)
  end.

(* notify_waiters(): every existing Notified completes; nothing is stored *)
Definition q_notify_waiters (s : qsh) : qsh :=
  qset_notify s (q_permit s) (S (q_gen s)) [] (q_woken s).
(* notify_one() *)
Definition q_notify_one (s : qsh) : qsh :=
  match q_waiters s with
  | w :: ws => qset_notify s (q_permit s) (q_gen s) ws (q_woken s ++ [w])
  | [] => qset_notify s true (q_gen s) [] (q_woken s)
  end.

Definition finished (r : res) : bool := match r with ROkMore _ => false | _ => true end.
Definition recv_event (r : res) (was_expecting : bool) : list aev :=
  match r with
  | ROk _ => [AR]
  | ROkMore _ => [AM]
  | _ => if was_expecting then [AX] else []
  end.
Definition is_some {A} (o : option A) : bool := match o with Some _ => true | None => false end.

Definition qstep (t : nat) (c : call) (pc : qpc) (s : qsh) : option (qsh * list aev * (qpc + res)) :=
  match pc with
  | QStart =>
      match c_op c with
      | OSend => Some (s, [], if is_some (q_st s) then inr (RInvalid false) else inl QSendChecked)
      | ORecv => Some (s, [], if is_some (q_st s) then inl QRecvChecked else inr (RInvalid false))
      | ORecvM => Some (s, [], if is_some (q_st s) then inl QRecvMChecked else inr (RInvalid false))
      | OSendM => Some (s, [], inr (RErr 3))
      end
  | QSendChecked =>
      match get_next (q_lb s) with
      | (None, _) => None                      (* wait_for_connection().await *)
      | (Some p, b') =>
          if memN p (q_closed s)
          then Some (qset_lb_out s (remove p b') (q_out s), [], inr (RErr 4))
          else Some (qset_lb_out s b' (q_out s ++ [(p, [0%N; c_tag c])]), [], inl (QSendPushed p))
      end
  | QSendPushed p => Some (qset_st s (Some p), [AS], inr (ROk []))
  | QRecvChecked =>
      if q_permit s then Some (q_nb t (qset_notify s false (q_gen s) (q_waiters s) (q_woken s)))
      else
        match iq_pop (q_in s) with
        | Some (_, m, q') => Some (qset_in s q', [], inl (QRecvGot (first_frame (req_payload m))))
        | None =>
            Some (qset_wait (qset_notify s false (q_gen s) (q_waiters s ++ [t]) (q_woken s))
                            (q_parked s ++ [t]) (q_tmo s),
                  [], inl (QRecvParked (q_gen s)))
        end
  | QRecvParked seen =>
      if negb (Nat.eqb (q_gen s) seen) || memn t (q_woken s) then Some (q_nb t s)
      else
        match iq_pop (q_in s) with
        | Some (_, m, q') => Some (qset_in (qleave t s) q', [], inl (QRecvGot (first_frame (req_payload m))))
        | None => if memn t (q_tmo s) then Some (qleave t s, [], inl (QRecvGot (RErr 6))) else None
        end
  | QRecvNbEmpty =>
      Some (s, [], inl (QRecvGot (if is_some (q_st s) then RErr 5 else RInvalid true)))
  | QRecvGot r =>
      if is_some (q_st s) then
        if finished r then Some (q_notify_waiters (qset_st s None), recv_event r true, inr r)
        else Some (s, recv_event r true, inr r)
      else Some (s, recv_event r false, inr r)
  | QRecvMChecked =>
      match iq_pop (q_in s) with
      | Some (_, m, q') => Some (qset_in s q', [], inl (QRecvMGot (ROk (req_payload m))))
      | None => Some (qset_wait s (q_parked s ++ [t]) (q_tmo s), [], inl QRecvMParked)
      end
  | QRecvMParked =>
      match iq_pop (q_in s) with
      | Some (_, m, q') => Some (qset_in (qleave t s) q', [], inl (QRecvMGot (ROk (req_payload m))))
      | None => if memn t (q_tmo s) then Some (qleave t s, [], inl (QRecvMGot (RErr 6))) else None
      end
  | QRecvMGot r =>
      if is_some (q_st s) then Some (q_notify_waiters (qset_st s None), recv_event r true, inr r)
      else Some (s, recv_event r false, inr r)
  end.

Inductive qenv :=
| QReply (p : N) (m : msg)     (* peer p's message reaches the ingress queue *)
| QDetachCore (p : N)          (* the core closes p's connection and forgets its endpoint *)
| QDetachSock (p : N)          (* ReqSocket::pipe_detached *)
| QAttach (p : N)              (* ReqSocket::pipe_attached *)
| QTimeout (t : nat).          (* task t's RCVTIMEO timer fires *)

Definition qestep (e : qenv) (s : qsh) : qsh * list aev :=
  match e with
  | QReply p m => (if memN p (q_att s) then qset_in s (iq_push p m (q_in s)) else s, [])
  | QDetachCore p => (qset_peers s (q_lb s) (q_att s) (if memN p (q_closed s) then q_closed s else p :: q_closed s), [])
  | QDetachSock p =>
      if memN p (q_att s) then
        let s1 := qset_peers s (remove p (q_lb s)) (remN p (q_att s)) (q_closed s) in
        match q_st s1 with
        | Some u => if N.eqb u p then (q_notify_one (qset_st s1 None), [AX]) else (s1, [])
        | None => (s1, [])
        end
      else (s, [])
  | QAttach p =>
      if memN p (q_att s) then (s, [])
      else (qset_peers s (add p (q_lb s)) (q_att s ++ [p]) (remN p (q_closed s)), [])
  | QTimeout t =>
      (if q_rcvtimeo s && memn t (q_parked s) && negb (memn t (q_tmo s))
       then qset_wait s (q_parked s) (q_tmo s ++ [t]) else s, [])
  end.

(* observable shared state: everything but the notifier's internals and the timer bookkeeping *)
Definition qobs_eqb (a b : qsh) : bool :=
  opt_eqb N.eqb (q_st a) (q_st b)
  && list_eqb N.eqb (peers (q_lb a)) (peers (q_lb b)) && Nat.eqb (next_idx (q_lb a)) (next_idx (q_lb b))
  && list_eqb N.eqb (q_att a) (q_att b) && list_eqb N.eqb (q_closed a) (q_closed b)
  && inq_eqb (q_in a) (q_in b)
  && list_eqb (pair_eqb N.eqb (list_eqb N.eqb)) (q_out a) (q_out b).

Definition qsys := sys qsh qpc aev.
Definition qsched := sched qenv.
Definition qstep_sys : qsys -> qsched -> qsys := step QStart qstep qestep qobs_eqb.
Definition qrun : list qsched -> qsys -> qsys := run QStart qstep qestep qobs_eqb.
Definition qnonoverlap : list qsched -> qsys -> bool := nonoverlap QStart qstep qestep qobs_eqb.

(* peers 0 .. n-1 attached in this order *)
Fixpoint npeers (n : nat) : list N :=
  match n with
  | 0 => []
  | S k => npeers k ++ [N.of_nat k]
  end.
Definition qsh0 (n : nat) (tmo : bool) : qsh :=
  mkQS None (mkBal (npeers n) 0) (npeers n) [] iq0 false 0 [] [] [] [] [] tmo.
Definition qinit (n : nat) (tmo : bool) (progs : list (list call)) : qsys := init (qsh0 n tmo) progs.

(* the alternation automaton over commit events:
   A0 = a send is due (initially / after a completed recv), A1 = a reply is due,
   A2 = the exchange was abandoned (reset): a send may start a new one, and the recv that was
        already under way when the reset happened may still complete *)
Inductive ast := A0 | A1 | A2.
Definition astep (a : ast) (e : aev) : option ast :=
  match a, e with
  | A0, AS => Some A1
  | A0, AX => Some A0
  | A0, _ => None
  | A1, AS => None
  | A1, AR => Some A0
  | A1, AM => Some A1
  | A1, AX => Some A2
  | A2, AS => Some A1
  | A2, AR => Some A0
  | A2, AM => Some A2
  | A2, AX => Some A2
  end.
Definition arun (tr : list aev) (a : option ast) : option ast :=
  fold_left (fun o e => match o with Some a => astep a e | None => None end) tr a.
Definition req_accepts (tr : list aev) : bool := is_some (arun tr (Some A0)).

(* ================================================================== REP *)

Definition pinfo := (N * list N)%type.     (* PeerInfo: source pipe (= endpoint uri) and routing_prefix *)

Record psh := mkPS {
  p_st : option pinfo;      (* None = ReadyToReceive; Some i = ReceivedRequest(i) *)
  p_eps : list N;           (* core_state.endpoints / pipe_read_id_to_endpoint_uri *)
  p_att : list N;           (* RepSocket.pipe_read_id_to_endpoint_uri *)
  p_in : inq;
  p_out : list (N * msg);   (* replies handed to the peers' connections, in order *)
  p_parked : list nat;
  p_tmo : list nat;
  p_rcvtimeo : bool
}.

Inductive ppc :=
| PStart
| PRecvChecked
| PRecvParked
| PRecvPopped (p : N) (raw : msg)
| PRecvGot (i : pinfo) (payload : list N)
| PSendTaken (i : pinfo).

Inductive pev := PERecv (i : pinfo) | PETake (i : pinfo) | PEReset.

Definition pset_st (s : psh) (st : option pinfo) : psh :=
  mkPS st (p_eps s) (p_att s) (p_in s) (p_out s) (p_parked s) (p_tmo s) (p_rcvtimeo s).
Definition pset_in (s : psh) (q : inq) : psh :=
  mkPS (p_st s) (p_eps s) (p_att s) q (p_out s) (p_parked s) (p_tmo s) (p_rcvtimeo s).
Definition pset_out (s : psh) (o : list (N * msg)) : psh :=
  mkPS (p_st s) (p_eps s) (p_att s) (p_in s) o (p_parked s) (p_tmo s) (p_rcvtimeo s).
Definition pset_wait (s : psh) (parked tmo : list nat) : psh :=
  mkPS (p_st s) (p_eps s) (p_att s) (p_in s) (p_out s) parked tmo (p_rcvtimeo s).
Definition pset_peers (s : psh) (eps att : list N) : psh :=
  mkPS (p_st s) eps att (p_in s) (p_out s) (p_parked s) (p_tmo s) (p_rcvtimeo s).
Definition pleave (t : nat) (s : psh) : psh := pset_wait s (remn t (p_parked s)) (remn t (p_tmo s)).

(* RepSocket::extract_routing_prefix: everything up to and including the first empty frame;
   no empty frame: the whole message is payload *)
Fixpoint split_prefix (raw : msg) : option (list N * list N) :=
  match raw with
  | [] => None
  | x :: t =>
      if N.eqb x 0 then Some ([x], t)
      else match split_prefix t with Some (pre, pay) => Some (x :: pre, pay) | None => None end
  end.
Definition extract_routing_prefix (raw : msg) : list N * list N :=
  match split_prefix raw with Some r => r | None => ([], raw) end.

(* the user's frames: send(tag) = one frame, send_multipart = two *)
Definition rep_payload (c : call) : list N :=
  match c_op c with
  | OSendM => [c_tag c; (c_tag c + 1)%N]
  | _ => [c_tag c]
  end.
Definition is_multi (c : call) : bool := match c_op c with ORecvM => true | _ => false end.

Definition pstep (t : nat) (c : call) (pc : ppc) (s : psh) : option (psh * list pev * (ppc + res)) :=
  match pc with
  | PStart =>
      match c_op c with
      | ORecv | ORecvM => Some (s, [], if is_some (p_st s) then inr (RInvalid false) else inl PRecvChecked)
      | OSend | OSendM =>
          match p_st s with
          | Some i => Some (pset_st s None, [PETake i], inl (PSendTaken i))
          | None => Some (s, [], inr (RInvalid false))
          end
      end
  | PRecvChecked =>
      match iq_pop (p_in s) with
      | Some (p, m, q') => Some (pset_in s q', [], inl (PRecvPopped p m))
      | None => Some (pset_wait s (p_parked s ++ [t]) (p_tmo s), [], inl PRecvParked)
      end
  | PRecvParked =>
      match iq_pop (p_in s) with
      | Some (p, m, q') => Some (pset_in (pleave t s) q', [], inl (PRecvPopped p m))
      | None => if memn t (p_tmo s) then Some (pleave t s, [], inr (RErr 6)) else None
      end
  | PRecvPopped p raw =>
      if memN p (p_eps s) then
        let '(pre, pay) := extract_routing_prefix raw in Some (s, [], inl (PRecvGot (p, pre) pay))
      else Some (s, [], inr (RErr 5))
  | PRecvGot i pay =>
      Some (pset_st s (Some i), [PERecv i], inr (if is_multi c then ROk pay else first_frame pay))
  | PSendTaken i =>
      if memN (fst i) (p_eps s)
      then Some (pset_out s (p_out s ++ [(fst i, snd i ++ rep_payload c)]), [], inr (ROk []))
      else Some (s, [], inr (RErr 4))
  end.

Inductive penv :=
| PReq (p : N) (m : msg)
| PDetachCore (p : N)
| PDetachSock (p : N)
| PAttach (p : N)
| PTimeout (t : nat).

Definition pestep (e : penv) (s : psh) : psh * list pev :=
  match e with
  | PReq p m => (if memN p (p_att s) then pset_in s (iq_push p m (p_in s)) else s, [])
  | PDetachCore p => (pset_peers s (remN p (p_eps s)) (p_att s), [])
  | PDetachSock p =>
      if memN p (p_att s) then
        let s1 := pset_peers s (p_eps s) (remN p (p_att s)) in
        match p_st s1 with
        | Some i => if N.eqb (fst i) p then (pset_st s1 None, [PEReset]) else (s1, [])
        | None => (s1, [])
        end
      else (s, [])      (* pipe_detached runs once per attached pipe *)
  | PAttach p =>
      if memN p (p_att s) then (s, []) else (pset_peers s (p_eps s ++ [p]) (p_att s ++ [p]), [])
  | PTimeout t =>
      (if p_rcvtimeo s && memn t (p_parked s) && negb (memn t (p_tmo s))
       then pset_wait s (p_parked s) (p_tmo s ++ [t]) else s, [])
  end.

Definition pinfo_eqb : pinfo -> pinfo -> bool := pair_eqb N.eqb (list_eqb N.eqb).
Definition pobs_eqb (a b : psh) : bool :=
  opt_eqb pinfo_eqb (p_st a) (p_st b)
  && list_eqb N.eqb (p_eps a) (p_eps b) && list_eqb N.eqb (p_att a) (p_att b)
  && inq_eqb (p_in a) (p_in b)
  && list_eqb (pair_eqb N.eqb (list_eqb N.eqb)) (p_out a) (p_out b).

Definition psys := sys psh ppc pev.
Definition psched := sched penv.
Definition pstep_sys : psys -> psched -> psys := step PStart pstep pestep pobs_eqb.
Definition prun : list psched -> psys -> psys := run PStart pstep pestep pobs_eqb.
Definition pnonoverlap : list psched -> psys -> bool := nonoverlap PStart pstep pestep pobs_eqb.

Definition psh0 (n : nat) (tmo : bool) : psh := mkPS None (npeers n) (npeers n) iq0 [] [] [] tmo.
Definition pinit (n : nat) (tmo : bool) (progs : list (list call)) : psys := init (psh0 n tmo) progs.

(* the REP automaton: recv only in ReadyToReceive; a take only of what the last recv stored *)
Definition pstepA (a : option pinfo) (e : pev) : option (option pinfo) :=
  match e, a with
  | PERecv i, None => Some (Some i)
  | PERecv _, Some _ => None
  | PETake i, Some j => if pinfo_eqb i j then Some None else None
  | PETake _, None => None
  | PEReset, _ => Some None
  end.
Definition prunA (tr : list pev) (a : option (option pinfo)) : option (option pinfo) :=
  fold_left (fun o e => match o with Some a => pstepA a e | None => None end) tr a.
Definition rep_accepts (tr : list pev) : bool := is_some (prunA tr (Some None)).

(* successful calls of a log, in completion order *)
Definition is_ok (r : res) : bool := match r with ROk _ | ROkMore _ => true | _ => false end.
Definition ok_ops (l : list entry) : list op :=
  map (fun e => c_op (e_call e)) (filter (fun e => is_ok (e_res e)) l).
