(* The handshake loop of the session actor (sessionx/actor.rs): reads are fed to the engine until it
   reaches Data / Closed or the handshake timer fires. `per_read = true` is the code at the pinned
   commit (tokio::time::timeout(hs_timeout, read) - re-armed by every read); `per_read = false` is the
   code after the fix: commit (timeout_at(one deadline for the whole handshake)). Time is abstract. *)
From RZ Require Import Base.Prelude Base.Stepper Model.Codec Model.Engine.
Local Open Scope N_scope.

Inductive hs_result :=
| HsDone (t : N)       (* engine reached Data at time t *)
| HsFailed (t : N)     (* PeerError at time t: session terminating *)
| HsTimeout (t : N).   (* handshake timer fired at time t: session terminating, slot released *)

Definition out_err (o : list eout) : bool := existsb (fun x => match x with OErr _ | OPanic => true | _ => false end) o.

(* evs: the peer's pacing - each event is (gap since the previous read returned, bytes read) *)
Fixpoint hs_loop (per_read : bool) (D : N) (cfg : ecfg) (g : engine) (now : N) (evs : list (N * bytes)) : hs_result :=
  match evs with
  | [] => HsTimeout (if per_read then now + D else D)          (* silence until the timer fires *)
  | (gap, d) :: rest =>
      let t := now + gap in
      let fires := if per_read then D <=? gap else D <=? t in
      if fires then HsTimeout (if per_read then now + D else D)
      else
        let '(g', o) := e_net cfg g d t in
        if out_err o then HsFailed t
        else match e_phase (g_st g') with
             | PData => HsDone t
             | PClosed => HsFailed t
             | _ => hs_loop per_read D cfg g' t rest
             end
  end.

Definition decided_at (r : hs_result) : N := match r with HsDone t | HsFailed t | HsTimeout t => t end.
