(* Executable model of the inproc path: `DirectInprocConnection::send_multipart_owned`
   (core/src/transport/inproc/connection.rs: the batch goes into the peer's bounded fibre channel,
   by try_send or by awaiting `send`) and the reader task `inproc_reader::spawn`
   (core/src/socket/core/inproc_reader.rs: recv + try_recv_batch into drain_buf, re-assembly in
   `accumulator` until a frame without MORE, `out`, then try_send_batch / pop_front + send into
   the per-pipe queue). The fibre channel is a bounded FIFO list; the per-pipe queue a bounded
   FIFO as in IngressDriver.v. The reader task is not inside a select!: its `send` is never
   dropped while pending. *)
From RZ Require Import Base.Prelude Model.Codec.

Definition batch := list frame.

Record nstate := {
  n_rx : list batch;              (* peer_queue: sender -> reader channel *)
  n_acc : list frame;             (* accumulator *)
  n_out : list batch;             (* out *)
  n_fly : option batch;           (* `front` popped from out, its send().await is pending *)
  n_q : list batch;               (* per-pipe queue *)
  n_delivered : list batch;
  n_sent : list batch             (* GHOST: batches accepted by send_multipart_owned, in order *)
}.

Definition n_new : nstate :=
  {| n_rx := []; n_acc := []; n_out := []; n_fly := None; n_q := []; n_delivered := []; n_sent := [] |}.

Definition last_not_more (a : list frame) : bool :=
  match rev a with [] => false | m :: _ => negb (f_more m) end.

(* `for batch in drain_buf.drain(..) { accumulator.extend(batch); if last is !MORE { out.push_back(take) } }` *)
Fixpoint regroup (acc : list frame) (out : list batch) (bs : list batch) : list frame * list batch :=
  match bs with
  | [] => (acc, out)
  | b :: rest =>
      let acc' := acc ++ b in
      if last_not_more acc' then regroup [] (out ++ [acc']) rest else regroup acc' out rest
  end.

(* try_send_batch(&mut out): move while the queue has room *)
Fixpoint bulk (cap : nat) (q out : list batch) : list batch * list batch :=
  match out with
  | [] => (q, [])
  | x :: r => if length q <? cap then bulk cap (q ++ [x]) r else (q, out)
  end.

Inductive nev :=
| NSend (b : batch)               (* sender: accepted into the channel (chan_cap respected) *)
| NRecv (extra : nat)             (* reader at `rx.recv().await` gets 1 + up to `extra` (<= rcvbatch_count-1) batches *)
| NPush                           (* reader: one attempt to move `out` / the in-flight front into the queue *)
| NPop.                           (* application recv() *)

Definition n_step (chan_cap cap : nat) (rcvbatch : nat) (s : nstate) (e : nev) : nstate :=
  match e with
  | NSend b =>
      if length (n_rx s) <? chan_cap then
        {| n_rx := n_rx s ++ [b]; n_acc := n_acc s; n_out := n_out s; n_fly := n_fly s; n_q := n_q s;
           n_delivered := n_delivered s; n_sent := n_sent s ++ [b] |}
      else s
  | NRecv extra =>
      (* only at the top of 'outer: out is empty and nothing is in flight *)
      match n_out s, n_fly s, n_rx s with
      | [], None, b :: rest =>
          let k := Nat.min extra (rcvbatch - 1) in
          let '(acc', out') := regroup (n_acc s) [] (b :: firstn k rest) in
          let '(q', out'') := bulk cap (n_q s) out' in     (* sender.try_send_batch(&mut out) *)
          {| n_rx := skipn k rest; n_acc := acc'; n_out := out''; n_fly := None; n_q := q';
             n_delivered := n_delivered s; n_sent := n_sent s |}
      | _, _, _ => s
      end
  | NPush =>
      match n_fly s with
      | Some x =>                                         (* sender.send(front).await resumes *)
          if length (n_q s) <? cap then
            let '(q', out') := bulk cap (n_q s ++ [x]) (n_out s) in   (* then try_send_batch again *)
            {| n_rx := n_rx s; n_acc := n_acc s; n_out := out'; n_fly := None; n_q := q';
               n_delivered := n_delivered s; n_sent := n_sent s |}
          else s
      | None =>
          match n_out s with
          | [] => s
          | x :: r =>                                     (* while let Some(front) = out.pop_front() *)
              {| n_rx := n_rx s; n_acc := n_acc s; n_out := r; n_fly := Some x; n_q := n_q s;
                 n_delivered := n_delivered s; n_sent := n_sent s |}
          end
      end
  | NPop =>
      match n_q s with
      | [] => s
      | x :: r => {| n_rx := n_rx s; n_acc := n_acc s; n_out := n_out s; n_fly := n_fly s; n_q := r;
                     n_delivered := n_delivered s ++ [x]; n_sent := n_sent s |}
      end
  end.

Definition n_run (chan_cap cap rcvbatch : nat) (evs : list nev) : nstate :=
  fold_left (n_step chan_cap cap rcvbatch) evs n_new.

Definition fly_list (s : nstate) : list batch := match n_fly s with Some x => [x] | None => [] end.

(* a batch that is one complete message: MORE on all frames but the last *)
Definition whole (b : batch) : bool :=
  match rev b with [] => false | l :: init => negb (f_more l) && forallb f_more init end.
