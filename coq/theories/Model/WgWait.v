(* Small-step model of WaitGroup::wait racing with add() / done() (core/src/runtime/waitgroup.rs).

   The code as it is since its fix: commit (g_fixed = true):
     pub async fn wait(&self) {
       if self.count.load() == 0 { return; }          -- GIdle   : fast-path check
       loop {
         let notified = self.notify_on_zero.notified(); -- GFCreate: the Notified future is created
         if self.count.load() == 0 { return; }         -- GFCheck : check with the future in hand
         [schedule point wg_wait_before_notified]
         notified.await;                               -- GAwait  : ready iff notify_waiters() was called
       }                                                            after the future was created
     }
   The order at the pinned commit (g_fixed = false), kept as the refuted legacy witness:
       if count == 0 { return }                        -- GIdle
       loop { self.notify_on_zero.notified()           -- GCreate (future created AFTER the check)
                                 .await;               -- GAwait
              if count == 0 { return } }               -- GCheck
     pub fn done(&self) {
       let old = self.count.fetch_sub(1);              -- EDec   (old = 0: restore and panic)
       if old == 1 { self.notify_on_zero.notify_waiters(); }   -- ENotify
     }

   tokio::sync::Notify semantics used: `notify_waiters()` wakes exactly the `Notified` futures that
   already exist (a future remembers the notify_waiters call counter at creation and is ready as
   soon as the counter differs); no permit is stored for futures created later. *)
From RZ Require Import Base.Prelude.

Inductive wgpc :=
| GIdle                 (* wait() not called yet; next: the fast-path check *)
| GCreate               (* the check said "non-zero"; the future is not created yet *)
| GAwait (seen : nat)   (* parked on the future created when the counter was `seen` *)
| GCheck                (* woken; next: re-check the count *)
| GFCreate              (* repaired order: next: create the future *)
| GFCheck (seen : nat)  (* repaired order: the future exists; next: check *)
| GDone.

(* g_pend: done() calls that have brought the count to zero and have not yet called notify_waiters *)
Record gst := mkG { g_count : nat; g_calls : nat; g_pend : nat; g_fixed : bool; g_pc : wgpc; g_panic : bool }.

Definition g0 (fixed : bool) : gst := mkG 0 0 0 fixed GIdle false.
Definition gset_pc (s : gst) (p : wgpc) : gst := mkG (g_count s) (g_calls s) (g_pend s) (g_fixed s) p (g_panic s).

(* one step of the waiting task; None = it cannot move (parked, or finished) *)
Definition gstep (s : gst) : option gst :=
  match g_pc s with
  | GIdle =>
      Some (gset_pc s (if g_count s =? 0 then GDone
                       else if g_fixed s then GFCreate else GCreate))
  | GCreate => Some (gset_pc s (GAwait (g_calls s)))
  | GAwait seen =>
      if g_calls s =? seen then None
      else Some (gset_pc s (if g_fixed s then GFCreate else GCheck))
  | GCheck => Some (gset_pc s (if g_count s =? 0 then GDone else GCreate))
  | GFCreate => Some (gset_pc s (GFCheck (g_calls s)))
  | GFCheck seen => Some (gset_pc s (if g_count s =? 0 then GDone else GAwait seen))
  | GDone => None
  end.

Inductive geop := EAdd (d : nat) | EDec | ENotify.

Definition gestep (s : gst) (e : geop) : gst :=
  match e with
  | EAdd d => mkG (g_count s + d) (g_calls s) (g_pend s) (g_fixed s) (g_pc s) (g_panic s)
  | EDec =>
      match g_count s with
      | O => mkG 0 (g_calls s) (g_pend s) (g_fixed s) (g_pc s) true
      | S k => mkG k (g_calls s) (if k =? 0 then S (g_pend s) else g_pend s) (g_fixed s) (g_pc s) (g_panic s)
      end
  | ENotify =>
      match g_pend s with
      | O => s
      | S k => mkG (g_count s) (S (g_calls s)) k (g_fixed s) (g_pc s) (g_panic s)
      end
  end.

Inductive gsch := GW | GE (e : geop).

Definition gsstep (s : gst) (x : gsch) : gst :=
  match x with
  | GW => match gstep s with Some s' => s' | None => s end
  | GE e => gestep s e
  end.
Definition grun (xs : list gsch) (s : gst) : gst := fold_left gsstep xs s.

(* the waiter sleeps although the count is zero and no done() is about to notify *)
Definition glost (s : gst) : bool :=
  match g_pc s with
  | GAwait seen => (g_calls s =? seen) && (g_count s =? 0) && (g_pend s =? 0)
  | _ => false
  end.

Fixpoint gsettle (k : nat) (s : gst) : gst :=
  match k with
  | O => s
  | S k' => match gstep s with Some s' => gsettle k' s' | None => s end
  end.

(* One poll of the future as the harness drives it (single thread; the code after the fix: commit):
   the fast-path check, the future is created, the count is checked, and the schedule point sits
   between that check and the await.  `gap` = operations of other tasks that land at that point
   (first time it is reached in this poll), then on until the task parks or returns.
   Returns (schedule point reached?, state after the poll). *)
Definition gpoll_gap (s : gst) (gap : list geop) : bool * gst :=
  let started :=
    match g_pc s with
    | GIdle => Some (grun [GW; GW; GW] s)
    | GAwait _ => match gstep s with Some s' => Some (grun [GW; GW] s') | None => None end
    | _ => None
    end in
  match started with
  | None => (false, s)
  | Some s1 =>
      match g_pc s1 with
      | GAwait _ => (true, gsettle 8 (grun (map GE gap) s1))
      | _ => (false, s1)
      end
  end.
