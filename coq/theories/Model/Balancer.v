(* Model of core/src/socket/patterns/load_balancer.rs (LoadBalancer), written branch for branch.
   Peers are identified by their endpoint uri (an N here); the `iface` handle of a `Peer` plays
   no role in the cursor arithmetic.  Every method of the Rust type takes the mutex for its whole
   body, so each function below is one atomic step of the real object. *)
From RZ Require Import Base.Prelude.

Record bal := mkBal { peers : list N; next_idx : nat }.

(* LoadBalancer::default *)
Definition bal0 : bal := mkBal [] 0.

(* state.peers.iter().any(|p| p.uri == endpoint_uri) *)
Definition has (u : N) (l : list N) : bool := existsb (fun x => N.eqb x u) l.

(* state.peers.iter().position(|p| p.uri == endpoint_uri) *)
Fixpoint position (u : N) (l : list N) : option nat :=
  match l with
  | [] => None
  | x :: t => if N.eqb x u then Some 0 else option_map S (position u t)
  end.

(* Vec::remove(pos) *)
Fixpoint remove_at (n : nat) (l : list N) : list N :=
  match l with
  | [] => []
  | x :: t => match n with 0 => t | S k => x :: remove_at k t end
  end.

(* add_connection: push unless a peer with this uri is present.  The cursor is not touched. *)
Definition add (u : N) (b : bal) : bal :=
  if has u (peers b) then b else mkBal (peers b ++ [u]) (next_idx b).
(* ... and `notify_waiters()` is called exactly when the peer was pushed *)
Definition add_notifies (u : N) (b : bal) : bool := negb (has u (peers b)).

(* remove_connection *)
Definition remove (u : N) (b : bal) : bal :=
  match position u (peers b) with
  | Some pos =>
      let ps := remove_at pos (peers b) in
      if (pos <? next_idx b) && (0 <? next_idx b) then mkBal ps (next_idx b - 1)
      else if length ps <=? next_idx b then mkBal ps 0
      else mkBal ps (next_idx b)
  | None => b
  end.

(* get_next_connection.  `next_idx + 1` cannot overflow usize: next_idx < len <= isize::MAX. *)
Definition get_next (b : bal) : option N * bal :=
  let len := length (peers b) in
  if len =? 0 then (None, b)
  else
    let i := if len <=? next_idx b then 0 else next_idx b in
    (Some (nth i (peers b) 0%N), mkBal (peers b) ((i + 1) mod len)).

(* connection_count / has_connections *)
Definition count (b : bal) : nat := length (peers b).

(* ---- histories of balancer operations ---- *)
Inductive bop := BAdd (u : N) | BRemove (u : N) | BNext.

Definition bstep (b : bal) (o : bop) : bal :=
  match o with
  | BAdd u => add u b
  | BRemove u => remove u b
  | BNext => snd (get_next b)
  end.

Definition brun (ops : list bop) (b : bal) : bal := fold_left bstep ops b.

(* m consecutive get_next calls: the peers handed out and the final state *)
Fixpoint picks (m : nat) (b : bal) : list N * bal :=
  match m with
  | 0 => ([], b)
  | S k =>
      match get_next b with
      | (Some p, b') => let '(l, b'') := picks k b' in (p :: l, b'')
      | (None, b') => ([], b')
      end
  end.

(* the order in which the peers get their turn during the next pass over the list *)
Definition rot (i : nat) (l : list N) : list N := skipn i l ++ firstn i l.
Definition view (b : bal) : list N := rot (next_idx b) (peers b).
