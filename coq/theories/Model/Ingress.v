(* Receiving side of a socket, written after the Rust code:
     socket/patterns/anonymous_ingress.rs  AnonymousIngressEngine (PULL, SUB): queue + `local_cache`
     socket/dealer_socket.rs / router_socket.rs: recv / recv_multipart with `frame_recv_buffer`
       (recv_multipart drains the buffer first)
     socket/rep_socket.rs / req_socket.rs: recv returns `payload.remove(0)` only
     socket/patterns/ready_pipe_queue.rs: a SEQUENTIAL model of ReadyPipeQueue (one caller at a time;
       interleavings of its atomic steps are the subject of C08, not of this file)
     socket/core/inproc_reader.rs: the accumulator that re-assembles messages sent part by part over inproc
   The ingress state machines are generic in the queue: they only use its `pop`, so the theorems hold for
   every queue discipline.  Executable definitions only; proofs are in Proofs/IngressProofs.v. *)
From RZ Require Import Base.Prelude Model.Codec Model.RouterMap Model.Envelope Model.FrameBatch Model.SendFlags.
Local Open Scope N_scope.

(* ================================================================ ReadyPipeQueue, sequential *)
(* pipes: HashMap<pipe_id, Arc<PipeSlot>>; ready list: FIFO of Arc<PipeSlot>; a sender holds a Weak to its
   slot, so a slot is reachable iff it is still in the map or still sits in the ready list.
   Channel capacities are not modelled (the correspondence runs stay below them). *)
Definition sid := nat.
Record rpq := {
  q_pipes : list (pipe * sid);
  q_slots : list (sid * (pipe * list batch));
  q_ready : list sid;
  q_closed : bool;           (* ready_tx.close() happened *)
  q_next : sid
}.
Definition q_new : rpq := {| q_pipes := []; q_slots := []; q_ready := []; q_closed := false; q_next := 0%nat |}.

Fixpoint slot_get (s : sid) (l : list (sid * (pipe * list batch))) : option (pipe * list batch) :=
  match l with
  | [] => None
  | (s', v) :: t => if (s =? s')%nat then Some v else slot_get s t
  end.
Fixpoint slot_set (s : sid) (v : pipe * list batch) (l : list (sid * (pipe * list batch))) :=
  match l with
  | [] => [(s, v)]
  | (s', v') :: t => if (s =? s')%nat then (s, v) :: t else (s', v') :: slot_set s v t
  end.
Fixpoint pipe_get (p : pipe) (l : list (pipe * sid)) : option sid :=
  match l with
  | [] => None
  | (p', s) :: t => if p =? p' then Some s else pipe_get p t
  end.

(* register_pipe: an existing entry is reused *)
Definition q_register (p : pipe) (q : rpq) : rpq * sid :=
  match pipe_get p (q_pipes q) with
  | Some s => (q, s)
  | None =>
      let s := q_next q in
      ({| q_pipes := (p, s) :: q_pipes q; q_slots := slot_set s (p, []) (q_slots q); q_ready := q_ready q;
          q_closed := q_closed q; q_next := S s |}, s)
  end.
Definition q_alive (s : sid) (q : rpq) : bool :=
  existsb (fun '(_, s') => (s =? s')%nat) (q_pipes q) || existsb (fun s' => (s =? s')%nat) (q_ready q).
(* ReadyPipeSender::try_send: Weak::upgrade, channel write, queued_count 0 -> 1 puts the slot on the ready list *)
Definition q_try_send (s : sid) (b : batch) (q : rpq) : rpq * bool :=
  if negb (q_alive s q) then (q, false)
  else match slot_get s (q_slots q) with
       | None => (q, false)
       | Some (p, items) =>
           ({| q_pipes := q_pipes q; q_slots := slot_set s (p, items ++ [b]) (q_slots q);
               q_ready := match items with [] => q_ready q ++ [s] | _ => q_ready q end;
               q_closed := q_closed q; q_next := q_next q |}, true)
       end.
(* try_pop: head of the ready list; one item; the slot goes to the back if more remain
   (`let _ = ready_tx.try_send(..)`: silently fails once the queue is closed) *)
Definition q_try_pop (q : rpq) : rpq * option (pipe * batch) :=
  match q_ready q with
  | [] => (q, None)
  | s :: rest =>
      match slot_get s (q_slots q) with
      | Some (p, b :: items) =>
          ({| q_pipes := q_pipes q; q_slots := slot_set s (p, items) (q_slots q);
              q_ready := match items with
                         | [] => rest
                         | _ => if q_closed q then rest else rest ++ [s]
                         end;
              q_closed := q_closed q; q_next := q_next q |}, Some (p, b))
      | _ =>   (* stale ready signal: discarded, try_pop answers None *)
          ({| q_pipes := q_pipes q; q_slots := q_slots q; q_ready := rest; q_closed := q_closed q;
              q_next := q_next q |}, None)
      end
  end.
Fixpoint pipes_remove (p : pipe) (l : list (pipe * sid)) : list (pipe * sid) :=
  match l with
  | [] => []
  | (p', s) :: t => if p =? p' then pipes_remove p t else (p', s) :: pipes_remove p t
  end.
Definition q_deregister (p : pipe) (q : rpq) : rpq :=
  {| q_pipes := pipes_remove p (q_pipes q); q_slots := q_slots q; q_ready := q_ready q;
     q_closed := q_closed q; q_next := q_next q |}.
Definition q_close (q : rpq) : rpq :=
  {| q_pipes := []; q_slots := q_slots q; q_ready := q_ready q; q_closed := true; q_next := q_next q |}.

(* ================================================================ operations and results *)
Inductive op :=
| ORecv | ORecvMultipart
| OEnqueue (h : sid) (b : batch)       (* the pipe's PipeMessageSender delivers one batch *)
| ORegister (p : pipe) | ODeregister (p : pipe) | OClose.

Inductive ret :=
| RFrame (f : frame)         (* recv() -> Ok(msg) *)
| RBatch (fs : list frame)   (* recv_multipart() -> Ok(batch), frames in order *)
| RWouldBlock                (* Err(ResourceLimitReached): nothing queued (RCVTIMEO = 0) *)
| RPanic.                    (* the call panics *)

(* what one operation shows: its result and, for the two receive calls, the (pipe, batch) taken off the queue *)
Inductive ev :=
| EvRet (r : ret) (popped : option (pipe * batch))
| EvEnq (ok : bool)
| EvReg (h : sid)
| EvUnit.

Record qops (Q : Type) := {
  qo_pop : Q -> Q * option (pipe * batch);
  qo_enq : sid -> batch -> Q -> Q * bool;
  qo_reg : pipe -> Q -> Q * sid;
  qo_dereg : pipe -> Q -> Q;
  qo_close : Q -> Q
}.
Arguments qo_pop {Q}. Arguments qo_enq {Q}. Arguments qo_reg {Q}. Arguments qo_dereg {Q}. Arguments qo_close {Q}.
Definition rpq_ops : qops rpq :=
  {| qo_pop := q_try_pop; qo_enq := q_try_send; qo_reg := q_register; qo_dereg := q_deregister; qo_close := q_close |}.

(* `while let Some(msg) = deque.pop_front() { is_more = msg.is_more(); batch.push(msg); if !is_more { completed; break } }` *)
Fixpoint take_message (d : list frame) : list frame * bool * list frame :=
  match d with
  | [] => ([], false, [])
  | f :: t => if fmore f then let '(tk, c, r) := take_message t in (f :: tk, c, r)
              else ([f], true, t)
  end.

(* first frame handed out by recv(), remaining frames stashed:
   `if b.is_empty() { Msg::new() } else if b.len() == 1 { b.remove(0) } else { deque = b.into_iter().collect();
    first = deque.pop_front().unwrap(); stash = Some(deque); first }` *)
Definition split_first (b : batch) : out (frame * option (list frame)) :=
  if fb_is_empty b then Ok ((false, []), None)
  else if (fb_len b =? 1)%nat then bind (fb_remove 0 b) (fun '(f, _) => Ok (f, None))
  else match fb_list b with
       | [] => Panic                       (* pop_front().unwrap() on an empty deque *)
       | f :: rest => Ok (f, Some rest)
       end.

Section Ingress.
Context {Q : Type} (qo : qops Q).

(* ================================================================ AnonymousIngressEngine *)
Definition cache := option (list frame).     (* Mutex<Option<VecDeque<Msg>>> *)
Definition astate : Type := Q * cache.

Definition anon_pop_first (q : Q) : astate * ev :=
  let '(q', r) := qo_pop qo q in
  match r with
  | None => ((q', None), EvRet RWouldBlock None)
  | Some (p, b) =>
      match split_first b with
      | Panic => ((q', None), EvRet RPanic (Some (p, b)))
      | Ok (f, stash) => ((q', stash), EvRet (RFrame f) (Some (p, b)))
      end
  end.
(* recv(Some(ZERO)) *)
Definition anon_recv (st : astate) : astate * ev :=
  let '(q, c) := st in
  match c with
  | Some (f :: rest) => ((q, match rest with [] => None | _ => Some rest end), EvRet (RFrame f) None)
  | _ => anon_pop_first q           (* `*cache = None` for Some(empty deque) *)
  end.

Definition anon_pop_whole (q : Q) : astate * ev :=
  let '(q', r) := qo_pop qo q in
  match r with
  | None => ((q', None), EvRet RWouldBlock None)
  | Some (p, b) => ((q', None), EvRet (RBatch (fb_list b)) (Some (p, b)))
  end.
(* recv_multipart(Some(ZERO)) *)
Definition anon_recv_multipart (st : astate) : astate * ev :=
  let '(q, c) := st in
  match c with
  | Some d =>
      let '(taken, completed, rest) := take_message d in
      match fb_extend fb_new taken with          (* FrameBatch::new() + push per frame *)
      | Panic => ((q, Some rest), EvRet RPanic None)
      | Ok bt =>
          if completed then ((q, match rest with [] => None | _ => Some rest end), EvRet (RBatch (fb_list bt)) None)
          else anon_pop_whole q                   (* the collected frames are dropped; next queued batch returned *)
      end
  | None => anon_pop_whole q
  end.

Definition anon_step (o : op) (st : astate) : astate * ev :=
  let '(q, c) := st in
  match o with
  | ORecv => anon_recv st
  | ORecvMultipart => anon_recv_multipart st
  | OEnqueue h b => let '(q', ok) := qo_enq qo h b q in ((q', c), EvEnq ok)
  | ORegister p => let '(q', h) := qo_reg qo p q in ((q', c), EvReg h)
  | ODeregister p => ((qo_dereg qo p q, c), EvUnit)        (* the cache is left alone (fix of C02 finding 1) *)
  | OClose => ((qo_close qo q, None), EvUnit)              (* `*self.local_cache.lock() = None` *)
  end.
Fixpoint anon_run (os : list op) (st : astate) : astate * list ev :=
  match os with
  | [] => (st, [])
  | o :: t => let '(st1, e) := anon_step o st in
              let '(st2, es) := anon_run t st1 in (st2, e :: es)
  end.

(* ================================================================ DEALER / ROUTER: frame_recv_buffer *)
(* `process p raw` = the socket's envelope handling of one raw batch (below), Panic included *)
Context (process : pipe -> batch -> out batch).

Definition fbuf_recv (st : astate) : astate * ev :=
  let '(q, c) := st in
  match c with
  | Some (f :: rest) => ((q, match rest with [] => None | _ => Some rest end), EvRet (RFrame f) None)
  | _ =>
      let '(q', r) := qo_pop qo q in
      match r with
      | None => ((q', None), EvRet RWouldBlock None)
      | Some (p, raw) =>
          match bind (process p raw) split_first with
          | Panic => ((q', None), EvRet RPanic (Some (p, raw)))
          | Ok (f, stash) => ((q', stash), EvRet (RFrame f) (Some (p, raw)))
          end
      end
  end.
(* recv_multipart (fix of C02 finding 2): `if let Some(frames) = buffer.take() { if !frames.is_empty() {
   rest = FrameBatch::new(); rest.extend(frames); return Ok(rest) } }`, then the queue *)
Definition fbuf_recv_multipart (st : astate) : astate * ev :=
  let '(q, c) := st in
  match c with
  | Some (f :: rest) =>
      match fb_extend fb_new (f :: rest) with
      | Panic => ((q, None), EvRet RPanic None)
      | Ok bt => ((q, None), EvRet (RBatch (fb_list bt)) None)
      end
  | _ =>
      let '(q', r) := qo_pop qo q in
      match r with
      | None => ((q', None), EvRet RWouldBlock None)
      | Some (p, raw) =>
          match process p raw with
          | Panic => ((q', None), EvRet RPanic (Some (p, raw)))
          | Ok b => ((q', None), EvRet (RBatch (fb_list b)) (Some (p, raw)))
          end
      end
  end.
(* pipe_detached / Command::Stop only reach the AddressedIngressEngine: the buffer is left alone *)
Definition fbuf_step (o : op) (st : astate) : astate * ev :=
  let '(q, c) := st in
  match o with
  | ORecv => fbuf_recv st
  | ORecvMultipart => fbuf_recv_multipart st
  | OEnqueue h b => let '(q', ok) := qo_enq qo h b q in ((q', c), EvEnq ok)
  | ORegister p => let '(q', h) := qo_reg qo p q in ((q', c), EvReg h)
  | ODeregister p => ((qo_dereg qo p q, c), EvUnit)
  | OClose => ((qo_close qo q, c), EvUnit)
  end.
Fixpoint fbuf_run (os : list op) (st : astate) : astate * list ev :=
  match os with
  | [] => (st, [])
  | o :: t => let '(st1, e) := fbuf_step o st in
              let '(st2, es) := fbuf_run t st1 in (st2, e :: es)
  end.
End Ingress.

(* ================================================================ envelope handling on receive, with FrameBatch limits *)
(* `if !b.is_empty() && b[0].size() == 0 { b.remove(0); }` *)
Definition strip_delim_fb (b : batch) : out batch :=
  if fb_is_empty b then Ok b
  else bind (fb_index b 0) (fun f0 => if fempty f0 then bind (fb_remove 0 b) (fun '(_, r) => Ok r) else Ok b).

(* router_socket.rs process_incoming_zmtp_message (payload part) *)
Definition router_process_fb (manual : bool) (pt : option ptype) (raw : batch) : out batch :=
  if manual then Ok raw
  else match pt with
       | Some TRouter => Ok raw
       | _ => strip_delim_fb raw
       end.
(* router_socket.rs transform_qitem_to_app_frames:
   FrameBatch::with_capacity(1 + payload.len()); push(id); extend(payload); last_mut clears MORE *)
Definition router_transform_fb (id : ident) (payload : batch) : out batch :=
  bind (@fb_with_capacity frame (1 + fb_len payload)) (fun r0 =>
  bind (fb_push r0 ((negb (fb_is_empty payload), id) : frame)) (fun r1 =>
  bind (fb_extend r1 (fb_list payload)) (fun r2 => Ok (fb_clear_last r2)))).
Definition router_recv_fb (manual : bool) (pt : option ptype) (id : ident) (raw : batch) : out batch :=
  bind (router_process_fb manual pt raw) (router_transform_fb id).

(* dealer_socket.rs process_incoming_zmtp_message_for_dealer *)
Definition dealer_process_fb (manual : bool) (b : batch) : out batch :=
  if fb_is_empty b then Ok b
  else if manual then Ok b
  else bind (fb_index b 0) (fun f0 =>
       if negb (fempty f0) then
         bind (fb_remove 0 b) (fun '(_, b1) =>
         if fb_is_empty b1 then Ok b1
         else bind (fb_index b1 0) (fun f1 =>
              if negb (fempty f1) then Ok b1 else bind (fb_remove 0 b1) (fun '(_, b2) => Ok b2)))
       else bind (fb_remove 0 b) (fun '(_, b1) => Ok b1)).

(* rep_socket.rs extract_routing_prefix: two fresh batches filled with push *)
Fixpoint rep_extract_fb (fs : list frame) (found : bool) (prefix payload : batch) : out (bool * batch * batch) :=
  match fs with
  | [] => Ok (found, prefix, payload)
  | f :: t =>
      if found then bind (fb_push payload f) (fun pl => rep_extract_fb t true prefix pl)
      else bind (fb_push prefix f) (fun pr => rep_extract_fb t (fempty f) pr payload)
  end.
Definition rep_extract_routing_prefix (raw : batch) : out (batch * batch) :=
  bind (rep_extract_fb (fb_list raw) false fb_new fb_new) (fun '(found, pr, pl) =>
  if found then Ok (pr, pl) else Ok (fb_new, pr)).
(* REP recv(): `if payload.is_empty() { Msg::new() } else { payload.remove(0) }` - the other frames are dropped *)
Definition first_or_empty (payload : batch) : out frame :=
  if fb_is_empty payload then Ok (false, []) else bind (fb_remove 0 payload) (fun '(f, _) => Ok f).
Definition rep_recv_fb (raw : batch) : out frame :=
  bind (rep_extract_routing_prefix raw) (fun '(_, pl) => first_or_empty pl).
Definition rep_recv_multipart_fb (raw : batch) : out batch :=
  bind (rep_extract_routing_prefix raw) (fun '(_, pl) => Ok pl).
(* REQ *)
Definition req_recv_fb (raw : batch) : out frame := bind (strip_delim_fb raw) first_or_empty.
Definition req_recv_multipart_fb (raw : batch) : out batch := strip_delim_fb raw.

(* ================================================================ inproc_reader.rs accumulator *)
(* per received batch: accumulator.extend(batch); if the last frame has no MORE the accumulator is emitted *)
Definition inproc_feed (acc : batch) (b : list frame) : out (batch * option batch) :=
  bind (fb_extend acc b) (fun acc' =>
  match List.rev (fb_list acc') with
  | l :: _ => if fmore l then Ok (acc', None) else Ok (fb_new, Some acc')
  | [] => Ok (acc', None)
  end).
Fixpoint inproc_run (acc : batch) (bs : list (list frame)) : out (batch * list batch) :=
  match bs with
  | [] => Ok (acc, [])
  | b :: t =>
      bind (inproc_feed acc b) (fun '(acc1, o) =>
      bind (inproc_run acc1 t) (fun '(acc2, os) =>
      Ok (acc2, match o with Some m => m :: os | None => os end)))
  end.

(* ================================================================ reading the events of a run *)
Definition ret_frames (r : ret) : list frame :=
  match r with RFrame f => [f] | RBatch fs => fs | _ => [] end.
(* everything the application was handed, in order *)
Fixpoint returned (es : list ev) : list frame :=
  match es with
  | [] => []
  | EvRet r _ :: t => ret_frames r ++ returned t
  | _ :: t => returned t
  end.
(* the batches taken off the queue, in order *)
Fixpoint popped (es : list ev) : list batch :=
  match es with
  | [] => []
  | EvRet _ (Some (_, b)) :: t => b :: popped t
  | _ :: t => popped t
  end.
Definition cache_frames (c : cache) : list frame := match c with Some d => d | None => [] end.
Definition has_panic (es : list ev) : bool :=
  existsb (fun e => match e with EvRet RPanic _ => true | _ => false end) es.
