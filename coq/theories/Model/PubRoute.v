(* Executable model of the PUB fan-out: `Distributor::send_to_all` / `send_to_all_multipart`
   (core/src/socket/patterns/distributor.rs:47-178) calling `ISocketConnection::send_message` of
   the session interface (core/src/sessionx/iface.rs:43-95) for each peer IN SEQUENCE, and
   `PubSocket::send` (pub_socket.rs:66-100) removing the failed peers.  Time is abstract
   (milliseconds); what a full pipe does while the publisher waits on it is an input. *)
From RZ Require Import Base.Prelude.
Local Open Scope N_scope.

(* what a full pipe does while the publisher awaits `pipe_sender.send` *)
Inductive wait_outcome := Frees (after : N) | Closes (after : N) | Never.

(* state of one subscriber connection at the moment the distributor reaches it *)
Inductive peer :=
| Room                      (* try_send -> Ok *)
| Closed                    (* try_send -> Closed *)
| Stale                     (* URI still in the distributor, no ISocketConnection in CoreState *)
| Full (w : wait_outcome).  (* try_send -> Full: slow, stalled or vanished-but-not-yet-detected subscriber *)

(* SNDTIMEO: None (-1), Some(0), Some(d>0) *)
Inductive sndtimeo := TNone | TZero | TMs (d : N).

Inductive outcome := Sent | Dropped | FailedClosed | FailedStale.

(* iface.rs: `self.sndtimeo.unwrap_or(Duration::from_secs(30))`; inproc uses 300 s instead *)
Definition wait_limit (default_ms : N) (t : sndtimeo) : N :=
  match t with TNone => default_ms | TZero => 0 | TMs d => d end.

(* one `conn_iface.send_message(msg).await`: (result, milliseconds the publisher spent in it) *)
Definition peer_send (default_ms : N) (t : sndtimeo) (p : peer) : outcome * N :=
  match p with
  | Room => (Sent, 0)
  | Closed => (FailedClosed, 0)
  | Stale => (FailedStale, 0)
  | Full w =>
      match t with
      | TZero => (Dropped, 0)                      (* ResourceLimitReached at once *)
      | _ =>
          let lim := wait_limit default_ms t in
          match w with
          | Frees a => if a <? lim then (Sent, a) else (Dropped, lim)
          | Closes a => if a <? lim then (FailedClosed, a) else (Dropped, lim)
          | Never => (Dropped, lim)
          end
      end
  end.

(* the `for uri_to_send in uris_to_send_to` loop: for every peer, its outcome and the time (since
   the start of this publish) at which the distributor finished with it; plus the total time *)
Fixpoint send_to_all (default_ms : N) (t : sndtimeo) (now : N) (peers : list peer)
  : list (outcome * N) * N :=
  match peers with
  | [] => ([], now)
  | p :: rest =>
      let '(o, dt) := peer_send default_ms t p in
      let '(os, fin) := send_to_all default_ms t (now + dt) rest in
      ((o, now + dt) :: os, fin)
  end.

(* PubSocket::send: peers reported failed are removed from the distributor, the rest stay *)
Definition keeps (o : outcome) : bool :=
  match o with Sent | Dropped => true | _ => false end.
