(* Executable model of `SubscriptionTrie` (core/src/socket/patterns/trie.rs) and of the
   subscriber-side filter of `PipeMessageSender::FilteredAnonymous`
   (core/src/socket/patterns/ready_pipe_queue.rs: send / try_send_sync / try_send_batch).
   Definitions only; proofs are in Proofs/TrieProofs.v.

   A node is `Node count children`; `children` is the HashMap<u8, Arc<RwLock<TrieNode>>> as an
   association list in insertion order (keys stay distinct because `ins` only appends a key that
   `lookup` did not find).  `count` is the AtomicUsize: fetch_add / fetch_sub wrap at 2^64. *)
From RZ Require Import Base.Prelude.
Local Open Scope N_scope.

Definition U64 : N := 18446744073709551616.

Inductive trie := Node (count : N) (children : list (N * trie)).

Definition t_count (t : trie) : N := match t with Node c _ => c end.
Definition t_children (t : trie) : list (N * trie) := match t with Node _ ch => ch end.

(* TrieNode::default() / SubscriptionTrie::new() *)
Definition empty : trie := Node 0 [].

(* AtomicUsize::fetch_add(1) / fetch_sub(1): wrapping on the usize domain *)
Definition wrap_add1 (c : N) : N := if c =? U64 - 1 then 0 else c + 1.
Definition wrap_sub1 (c : N) : N := if c =? 0 then U64 - 1 else c - 1.

(* children.get(&byte) *)
Fixpoint lookup (b : N) (ch : list (N * trie)) : option trie :=
  match ch with
  | [] => None
  | (k, c) :: r => if k =? b then Some c else lookup b r
  end.

(* children.entry(byte).or_insert_with(default) followed by `f` on the (existing or new) child *)
Fixpoint ins (b : N) (f : trie -> trie) (ch : list (N * trie)) : list (N * trie) :=
  match ch with
  | [] => [(b, f empty)]
  | (k, c) :: r => if k =? b then (k, f c) :: r else (k, c) :: ins b f r
  end.

(* write-back of a child that `lookup` found (the Rust code mutates it in place through the Arc) *)
Fixpoint put (b : N) (c' : trie) (ch : list (N * trie)) : list (N * trie) :=
  match ch with
  | [] => []
  | (k, c) :: r => if k =? b then (k, c') :: r else (k, c) :: put b c' r
  end.

(* trie.rs:37-55.  Walks the topic creating missing children (never pruned later), then
   fetch_add(1) on the final node. *)
Fixpoint subscribe (t : trie) (topic : bytes) : trie :=
  match topic with
  | [] => Node (wrap_add1 (t_count t)) (t_children t)
  | b :: rest => Node (t_count t) (ins b (fun c => subscribe c rest) (t_children t))
  end.

(* trie.rs:59-90.  Missing child on the path: return false, nothing touched.  At the final node:
   old = fetch_sub(1); old > 0 => result (old == 1); otherwise fetch_add(1) restores, result false. *)
Fixpoint unsubscribe (t : trie) (topic : bytes) : trie * bool :=
  match topic with
  | [] =>
      let old := t_count t in
      let c1 := wrap_sub1 old in
      if 0 <? old then (Node c1 (t_children t), old =? 1)
      else (Node (wrap_add1 c1) (t_children t), false)
  | b :: rest =>
      match lookup b (t_children t) with
      | None => (t, false)
      | Some c =>
          let '(c', r) := unsubscribe c rest in
          (Node (t_count t) (put b c' (t_children t)), r)
      end
  end.

(* trie.rs:105-126: the loop over the message topic, then the final-node test *)
Fixpoint walk (t : trie) (m : bytes) : bool :=
  match m with
  | [] => 0 <? t_count t
  | b :: rest =>
      if 0 <? t_count t then true
      else match lookup b (t_children t) with
           | Some c => walk c rest
           | None => false
           end
  end.

(* trie.rs:94-127: root count is tested first ("" matches everything), then the loop *)
Definition matches (t : trie) (m : bytes) : bool :=
  if 0 <? t_count t then true else walk t m.

(* trie.rs:129-152 collect_topics_recursive: pre-order, children in map iteration order *)
Fixpoint collect (t : trie) (pre : bytes) : list bytes :=
  match t with
  | Node c ch =>
      (if 0 <? c then [pre] else []) ++
      flat_map (fun p => collect (snd p) (pre ++ [fst p])) ch
  end.

Definition get_all_topics (t : trie) : list bytes := collect t [].

(* ---- abstraction: the multiset of active subscriptions, as a multiplicity function ---- *)

(* number of active subscriptions of exactly the topic s *)
Fixpoint count_of (t : trie) (s : bytes) : N :=
  match s with
  | [] => t_count t
  | b :: rest => match lookup b (t_children t) with
                 | Some c => count_of c rest
                 | None => 0
                 end
  end.

(* ---- op histories ---- *)

Inductive op := Sub (s : bytes) | Unsub (s : bytes) | Match (m : bytes) | Topics.

(* what one op returns: Sub -> none; Unsub -> its bool; Match -> its bool; Topics -> the list *)
Inductive ret := RNone | RBool (b : bool) | RTopics (l : list bytes).

Definition step (t : trie) (o : op) : trie * ret :=
  match o with
  | Sub s => (subscribe t s, RNone)
  | Unsub s => let '(t', r) := unsubscribe t s in (t', RBool r)
  | Match m => (t, RBool (matches t m))
  | Topics => (t, RTopics (get_all_topics t))
  end.

Fixpoint run (t : trie) (ops : list op) : trie * list ret :=
  match ops with
  | [] => (t, [])
  | o :: rest =>
      let '(t1, r) := step t o in
      let '(t2, rs) := run t1 rest in
      (t2, r :: rs)
  end.

(* ---- the subscriber-side filter (ready_pipe_queue.rs, PipeMessageSender::FilteredAnonymous) ---- *)

(* a frame is a Msg; Msg::data() is an Option *)
Definition mframe := option bytes.
Definition message := list mframe.   (* FrameBatch *)

(* batch.first().and_then(|m| m.data()).unwrap_or(&[]) *)
Definition topic_of (m : message) : bytes :=
  match m with
  | [] => []
  | f :: _ => match f with Some d => d | None => [] end
  end.

(* total frame count of a deque of batches: items.iter().map(|b| b.len()).sum() *)
Definition frames (items : list message) : nat :=
  fold_right (fun b acc => (length b + acc)%nat) 0%nat items.

Definition passes (t : trie) (m : message) : bool := matches t (topic_of m).

(* `send` (async, :576-589) and `try_send_sync` (:591-604): what is handed to the pipe.
   `alive` = sender.slot.upgrade() is Some (otherwise ConnectionClosed / Closed(item));
   `room` = the pipe's channel accepts the item (try_send Ok rather than Full).  The async
   `send` waits for room instead of refusing. *)
Inductive sent1 := Forwarded (m : message) | Discarded | Refused (m : message).

Definition send_single (t : trie) (alive : bool) (m : message) : sent1 :=
  if passes t m then (if alive then Forwarded m else Refused m) else Discarded.

Definition try_send_sync (t : trie) (alive room : bool) (m : message) : sent1 :=
  if passes t m then
    (if alive then (if room then Forwarded m else Refused m) else Refused m)
  else Discarded.

(* the `while let Some(item) = items.pop_front()` loop of try_send_batch (:645-672).
   `cap` = how many items `slot.tx.try_send` accepts before answering Full/Closed.
   Result: (forwarded in order, items left in the deque, frames consumed). *)
Fixpoint batch_loop (t : trie) (cap : nat) (items : list message)
  : list message * list message * nat :=
  match items with
  | [] => ([], [], 0%nat)
  | it :: rest =>
      if passes t it then
        match cap with
        | O => ([], it :: rest, 0%nat)         (* Full / Closed: push_front(returned); break *)
        | S c => let '(s, r, n) := batch_loop t c rest in (it :: s, r, (length it + n)%nat)
        end
      else let '(s, r, n) := batch_loop t cap rest in (s, r, (length it + n)%nat)
  end.

(* try_send_batch (:611-690), FilteredAnonymous arm. `alive` = sender.slot.upgrade() is Some. *)
Definition try_send_batch (t : trie) (alive : bool) (cap : nat) (items : list message)
  : list message * list message * nat :=
  match items with
  | [] => ([], [], 0%nat)
  | _ =>
      let match_count := length (filter (passes t) items) in
      if (match_count =? 0)%nat then
        ([], [], frames items)
      else if negb alive then ([], items, 0%nat)
      else batch_loop t cap items
  end.

(* ---- reference semantics: the subscription multiset as a plain list of topics ---- *)

Fixpoint bytes_eqb (a b : bytes) : bool :=
  match a, b with
  | [], [] => true
  | x :: a', y :: b' => (x =? y) && bytes_eqb a' b'
  | _, _ => false
  end.

(* s is a byte-prefix of m *)
Fixpoint prefixb (s m : bytes) : bool :=
  match s, m with
  | [], _ => true
  | x :: s', y :: m' => (x =? y) && prefixb s' m'
  | _ :: _, [] => false
  end.

(* multiplicity of s in the multiset l *)
Fixpoint occ (s : bytes) (l : list bytes) : N :=
  match l with
  | [] => 0
  | x :: r => (if bytes_eqb s x then 1 else 0) + occ s r
  end.

Fixpoint remove_one (s : bytes) (l : list bytes) : list bytes :=
  match l with
  | [] => []
  | x :: r => if bytes_eqb s x then r else x :: remove_one s r
  end.

Definition spec_matches (l : list bytes) (m : bytes) : bool := existsb (fun s => prefixb s m) l.

Definition spec_step (l : list bytes) (o : op) : list bytes * ret :=
  match o with
  | Sub s => (s :: l, RNone)
  | Unsub s => (remove_one s l, RBool (occ s l =? 1))
  | Match m => (l, RBool (spec_matches l m))
  | Topics => (l, RTopics l)
  end.

Fixpoint spec_run (l : list bytes) (ops : list op) : list bytes * list ret :=
  match ops with
  | [] => (l, [])
  | o :: rest =>
      let '(l1, r) := spec_step l o in
      let '(l2, rs) := spec_run l1 rest in
      (l2, r :: rs)
  end.

(* per-topic balance of a history: +1 per subscribe, -1 (never below 0) per unsubscribe *)
Definition bal (s : bytes) (c : N) (o : op) : N :=
  match o with
  | Sub s' => if bytes_eqb s' s then c + 1 else c
  | Unsub s' => if bytes_eqb s' s then c - 1 else c
  | _ => c
  end.

Definition forwarded1 (r : sent1) : list message :=
  match r with Forwarded m => [m] | _ => [] end.
