(* C14. Executable model of what send() / recv() answer at a high-water mark, and when.

   PART 1 - the send paths of the `ISocketConnection` implementations, one function per method,
   written arm by arm after the code:
     ScaConnectionIface      core/src/sessionx/iface.rs          (tcp / ipc sessions)
     DirectInprocConnection  core/src/transport/inproc/connection.rs
     ZmtpSmartConnection     core/src/io_uring_backend/zmtp_handler.rs
     trait defaults          core/src/socket/connection_iface.rs (send_message, send_multipart_owned)
   (`UringFdConnection` is never constructed; `DummyConnection` never sends.)

   Every path starts with `try_send` on the bounded fibre channel towards the peer ("the pipe":
   capacity SNDHWM for sessions, the PEER's RCVHWM for inproc).  What it answers is the input
   `trysend`.  If the path then awaits `pipe.send(m)`, what the pipe does while we wait is the
   oracle `waitres`: room appears after t ms (the consumer popped), the receiver is dropped after
   t ms, or nothing ever happens.  Time is an abstract clock in milliseconds that starts at 0
   when the call starts; the synchronous part of a call takes 0.

   `tokio::time::timeout(d, fut)` enters through `fire : N -> N`, the instant at which a timer
   armed for d ms fires (Section hypothesis of the theorems: d <= fire d <= d + slack).
   `Timeout::poll` polls the inner future first, so a future that is ready at the firing instant
   wins.

   PART 2 - the socket-level wrappers that sit between the application and the iface:
   `OutgoingMessageOrchestrator::route_message` for one connected peer, `PushSocket::
   send_with_timeout`, `DealerSocket::send_logical_message` + `queue_message_or_error`.

   PART 3 - the recv paths: `AnonymousIngressEngine::recv / recv_multipart` (PULL, SUB),
   `AddressedIngressEngine::recv_logical_message` (DEALER, REQ, REP) and ROUTER's
   `recv_logical_finalized`: `try_pop` / `timeout(d, pop())` / `pop()`.

   PART 4 - the buffers of one connection: C01's pipeline model (Pipeline.v) with the one thing it
   leaves out - the pipe refuses a message when it holds SNDHWM of them - as an admissibility
   condition on events. *)
From RZ Require Import Base.Prelude Base.Stepper Model.Codec Model.Engine Model.Actor
  Model.Batch Model.Egress Model.IngressDriver Model.Pipeline.
Local Open Scope N_scope.

(* ------------------------------------------------------------------ vocabulary *)

Inductive trysend := TsOk | TsFull | TsClosed.            (* Ok(()) / TrySendError::Full / ::Closed *)
Inductive waitres := WRoom (t : N) | WClosed (t : N) | WNever.
Definition timeo := option N.                             (* None = -1, Some 0 = 0, Some d = d ms *)

(* Ok(()) / ResourceLimitReached / Timeout / ConnectionClosed *)
Inductive answer := AOk | AWouldBlock | ATimeout | AClosed.
(* where the message is when the call has returned:
   Enqueued - on the pipe (exactly one copy: the only push is the successful try_send / send);
   Returned - ownership handed back to the caller inside the Err;
   Dropped  - neither: consumed by the call (the API has no way to return it, or the message sat
              inside the dropped `send` future and the Err carries `FrameBatch::new()`) *)
Inductive fate := Enqueued | Returned | Dropped.
(* Hang: the call never returns; the message is held by the suspended future, not enqueued *)
Inductive outcome := Ret (a : answer) (t : N) (f : fate) | Hang.

Definition is_zero (s : timeo) : bool := match s with Some 0 => true | _ => false end.

Inductive tmo := FutOk (t : N) | FutErr (t : N) | Elapsed (t : N).
Definition tokio_timeout (fire : N -> N) (d : N) (w : waitres) : tmo :=
  match w with
  | WRoom t => if t <=? fire d then FutOk t else Elapsed (fire d)
  | WClosed t => if t <=? fire d then FutErr t else Elapsed (fire d)
  | WNever => Elapsed (fire d)
  end.

(* `Duration::from_secs(30)` in iface.rs / zmtp_handler.rs, `from_secs(300)` in inproc/connection.rs *)
Definition SCA_FALLBACK_MS : N := 30000.
Definition URING_FALLBACK_MS : N := 30000.
Definition INPROC_FALLBACK_MS : N := 300000.

Section Paths.
Variable fire : N -> N.

(* ------------------------------------------------------------------ ScaConnectionIface *)

(* iface.rs send_message: try_send(fb) *)
Definition sca_send_message (ts : trysend) (s : timeo) (w : waitres) : outcome :=
  match ts with
  | TsOk => Ret AOk 0 Enqueued                                   (* Ok(()) => return Ok(()) *)
  | TsClosed => Ret AClosed 0 Dropped                            (* Closed(_) => Err(ConnectionClosed) *)
  | TsFull =>
      if is_zero s then Ret AWouldBlock 0 Dropped                (* Full(_) if sndtimeo == Some(ZERO) *)
      else
        let d := match s with Some d => d | None => SCA_FALLBACK_MS end in   (* unwrap_or(30 s) *)
        match tokio_timeout fire d w with
        | FutOk t => Ret AOk t Enqueued                          (* Ok(Ok(())) *)
        | FutErr t => Ret AClosed t Dropped                      (* Ok(Err(_)) => ConnectionClosed *)
        | Elapsed t => Ret AWouldBlock t Dropped                 (* Err(_) => ResourceLimitReached *)
        end
  end.

(* iface.rs send_multipart: the same arms on `msgs` *)
Definition sca_send_multipart (ts : trysend) (s : timeo) (w : waitres) : outcome :=
  match ts with
  | TsOk => Ret AOk 0 Enqueued
  | TsClosed => Ret AClosed 0 Dropped
  | TsFull =>
      if is_zero s then Ret AWouldBlock 0 Dropped
      else
        let d := match s with Some d => d | None => SCA_FALLBACK_MS end in
        match tokio_timeout fire d w with
        | FutOk t => Ret AOk t Enqueued
        | FutErr t => Ret AClosed t Dropped
        | Elapsed t => Ret AWouldBlock t Dropped
        end
  end.

(* iface.rs send_multipart_owned *)
Definition sca_send_multipart_owned (ts : trysend) (s : timeo) (w : waitres) : outcome :=
  match ts with
  | TsOk => Ret AOk 0 Enqueued
  | TsClosed => Ret AClosed 0 Returned                           (* Err((returned, ConnectionClosed)) *)
  | TsFull =>
      if is_zero s then Ret AWouldBlock 0 Returned               (* Err((returned, ResourceLimitReached)) *)
      else
        match s with
        | None =>                                                (* pipe_sender.send(returned).await *)
            match w with
            | WRoom t => Ret AOk t Enqueued
            | WClosed t => Ret AClosed t Dropped                 (* Err((FrameBatch::new(), ConnectionClosed)) *)
            | WNever => Hang
            end
        | Some d =>
            match tokio_timeout fire d w with
            | FutOk t => Ret AOk t Enqueued
            | FutErr t => Ret AClosed t Dropped
            | Elapsed t => Ret ATimeout t Dropped                (* Err((FrameBatch::new(), Timeout)) *)
            end
        end
  end.

(* iface.rs try_send_multipart_owned_sync: SNDTIMEO is not consulted *)
Definition sca_try_sync (ts : trysend) : outcome :=
  match ts with
  | TsOk => Ret AOk 0 Enqueued
  | TsFull => Ret AWouldBlock 0 Returned
  | TsClosed => Ret AClosed 0 Returned
  end.

(* ------------------------------------------------------------------ trait defaults *)

(* connection_iface.rs: `async fn send_message` = push into a FrameBatch, send_multipart *)
Definition default_send_message (send_multipart : outcome) : outcome := send_multipart.
(* connection_iface.rs: `async fn send_multipart_owned`: Err(e) => Err((FrameBatch::new(), e)) *)
Definition default_send_multipart_owned (send_multipart : outcome) : outcome :=
  match send_multipart with
  | Ret AOk t f => Ret AOk t f
  | Ret a t _ => Ret a t Dropped
  | Hang => Hang
  end.

(* ------------------------------------------------------------------ DirectInprocConnection *)

(* inproc/connection.rs send_multipart_owned (the congestion events are not modelled) *)
Definition inproc_send_multipart_owned (ts : trysend) (s : timeo) (w : waitres) : outcome :=
  match ts with
  | TsOk => Ret AOk 0 Enqueued
  | TsClosed => Ret AClosed 0 Returned
  | TsFull =>
      if is_zero s then Ret AWouldBlock 0 Returned               (* return Err((returned, RLR)) *)
      else
        let d := match s with Some d => d | None => INPROC_FALLBACK_MS end in   (* unwrap_or(300 s) *)
        match tokio_timeout fire d w with
        | FutOk t => Ret AOk t Enqueued
        | FutErr t => Ret AClosed t Dropped
        | Elapsed t => Ret ATimeout t Dropped
        end
  end.

(* send_multipart: `match self.send_multipart_owned(msgs).await { Ok => Ok, Err((_, e)) => Err(e) }` *)
Definition inproc_send_multipart (ts : trysend) (s : timeo) (w : waitres) : outcome :=
  match inproc_send_multipart_owned ts s w with
  | Ret AOk t f => Ret AOk t f
  | Ret a t _ => Ret a t Dropped
  | Hang => Hang
  end.

Definition inproc_send_message (ts : trysend) (s : timeo) (w : waitres) : outcome :=
  default_send_message (inproc_send_multipart ts s w).

Definition inproc_try_sync (ts : trysend) : outcome :=
  match ts with
  | TsOk => Ret AOk 0 Enqueued
  | TsFull => Ret AWouldBlock 0 Returned
  | TsClosed => Ret AClosed 0 Returned
  end.

(* ------------------------------------------------------------------ ZmtpSmartConnection (io_uring) *)

Definition uring_send_multipart (ts : trysend) (s : timeo) (w : waitres) : outcome :=
  match ts with
  | TsOk => Ret AOk 0 Enqueued
  | TsClosed => Ret AClosed 0 Dropped
  | TsFull =>
      if is_zero s then Ret AWouldBlock 0 Dropped
      else
        let d := match s with Some d => d | None => URING_FALLBACK_MS end in
        match tokio_timeout fire d w with
        | FutOk t => Ret AOk t Enqueued
        | FutErr t => Ret AClosed t Dropped
        | Elapsed t => Ret AWouldBlock t Dropped                 (* Err(_) => ResourceLimitReached *)
        end
  end.

Definition uring_send_multipart_owned (ts : trysend) (s : timeo) (w : waitres) : outcome :=
  match ts with
  | TsOk => Ret AOk 0 Enqueued
  | TsClosed => Ret AClosed 0 Returned
  | TsFull =>
      if is_zero s then Ret AWouldBlock 0 Returned
      else
        let d := match s with Some d => d | None => URING_FALLBACK_MS end in
        match tokio_timeout fire d w with
        | FutOk t => Ret AOk t Enqueued
        | FutErr t => Ret AClosed t Dropped
        | Elapsed t => Ret ATimeout t Dropped                    (* Err((FrameBatch::new(), Timeout)) *)
        end
  end.

Definition uring_send_message (ts : trysend) (s : timeo) (w : waitres) : outcome :=
  default_send_message (uring_send_multipart ts s w).

Definition uring_try_sync (ts : trysend) : outcome :=
  match ts with
  | TsOk => Ret AOk 0 Enqueued
  | TsFull => Ret AWouldBlock 0 Returned
  | TsClosed => Ret AClosed 0 Returned
  end.

(* ------------------------------------------------------------------ all of them, by name *)

Inductive variant :=
| VScaMsg | VScaMulti | VScaOwned | VScaSync
| VInprocMsg | VInprocMulti | VInprocOwned | VInprocSync
| VUringMsg | VUringMulti | VUringOwned | VUringSync.

Definition all_variants : list variant :=
  [VScaMsg; VScaMulti; VScaOwned; VScaSync; VInprocMsg; VInprocMulti; VInprocOwned; VInprocSync;
   VUringMsg; VUringMulti; VUringOwned; VUringSync].

Definition send_path (v : variant) (ts : trysend) (s : timeo) (w : waitres) : outcome :=
  match v with
  | VScaMsg => sca_send_message ts s w
  | VScaMulti => sca_send_multipart ts s w
  | VScaOwned => sca_send_multipart_owned ts s w
  | VScaSync => sca_try_sync ts
  | VInprocMsg => inproc_send_message ts s w
  | VInprocMulti => inproc_send_multipart ts s w
  | VInprocOwned => inproc_send_multipart_owned ts s w
  | VInprocSync => inproc_try_sync ts
  | VUringMsg => uring_send_message ts s w
  | VUringMulti => uring_send_multipart ts s w
  | VUringOwned => uring_send_multipart_owned ts s w
  | VUringSync => uring_try_sync ts
  end.

(* ---- what the theorems say per variant (tables READ OFF the functions above, and proved) ---- *)

(* the synchronous fast path never waits, whatever SNDTIMEO is *)
Definition is_sync (v : variant) : bool :=
  match v with VScaSync | VInprocSync | VUringSync => true | _ => false end.
(* the `_owned` / `_sync` signatures can give the message back *)
Definition can_return (v : variant) : bool :=
  match v with VScaOwned | VScaSync | VInprocOwned | VInprocSync | VUringOwned | VUringSync => true | _ => false end.
(* SNDTIMEO = -1 is replaced by this many ms (None: a real unbounded wait) *)
Definition fallback (v : variant) : option N :=
  match v with
  | VScaMsg | VScaMulti => Some SCA_FALLBACK_MS
  | VScaOwned => None
  | VInprocMsg | VInprocMulti | VInprocOwned => Some INPROC_FALLBACK_MS
  | VUringMsg | VUringMulti | VUringOwned => Some URING_FALLBACK_MS
  | VScaSync | VInprocSync | VUringSync => None
  end.
(* the error a timed-out wait is mapped to *)
Definition expiry_answer (v : variant) : answer :=
  match v with
  | VScaMsg | VScaMulti | VUringMsg | VUringMulti => AWouldBlock
  | _ => ATimeout
  end.

(* ------------------------------------------------------------------ PART 2: socket wrappers *)

(* OutgoingMessageOrchestrator::route_message with ONE connected peer and no membership change
   (the general rotation is C13's Route.v): the sweep is one try_send_multipart_owned_sync; if it
   is full, attempts (1) >= max_attempts (1) and the blocking target `get_next_connection()` is the
   same peer: send_multipart_owned, which starts with a second try_send (`ts2`).
     Ok(()) => Ok; Err((returned, ResourceLimitReached)) => Err((returned, RLR));
     Err((_, e)) => Err((FrameBatch::new(), e)) *)
Definition route_one (sync : trysend -> outcome) (owned : trysend -> timeo -> waitres -> outcome)
  (ts1 ts2 : trysend) (s : timeo) (w : waitres) : outcome :=
  match sync ts1 with
  | Ret AOk t f => Ret AOk t f
  | Ret AWouldBlock _ _ =>
      match owned ts2 s w with
      | Ret AOk t f => Ret AOk t f
      | Ret AWouldBlock t f => Ret AWouldBlock t f
      | Ret a t _ => Ret a t Dropped
      | Hang => Hang
      end
  | Ret a t _ => Ret a t Dropped
  | Hang => Hang
  end.

(* route_message when no peer is connected: wait_for_peer = false => Err((msgs, RLR));
   true => parked in wait_for_connection (a peer attaching is outside this model: Hang) *)
Definition route_none (wait_for_peer : bool) : outcome :=
  if wait_for_peer then Hang else Ret AWouldBlock 0 Returned.

(* PushSocket::send / send_multipart -> send_with_timeout (push_socket.rs): a second timer of the
   same duration around the routing. `fire_o` is that outer timer. The public API returns
   Result<(), ZmqError>: a message that comes back from the orchestrator is dropped here. *)
Variable fire_o : N -> N.
Definition push_send (route : timeo -> outcome) (s : timeo) : outcome :=
  match s with
  | Some d =>
      if (d =? 0) then
        match route s with Ret a t Returned => Ret a t Dropped | o => o end
      else
        match route s with
        | Ret a t f => if t <=? fire_o d then Ret a t (match f with Returned => Dropped | _ => f end)
                       else Ret ATimeout (fire_o d) Dropped          (* Err(_) => Err(ZmqError::Timeout) *)
        | Hang => Ret ATimeout (fire_o d) Dropped
        end
  | None => match route s with Ret a t Returned => Ret a t Dropped | o => o end
  end.

(* DealerSocket::queue_message_or_error: `pend` = pending_outgoing_queue.len() seen under the lock,
   then on each wake-up; `wakes` = the notifications that arrive on outgoing_queue_activity_notifier
   (and peer_availability_notifier for -1) while we wait: after how long, and the queue length then.
   The timed wait is re-armed with the FULL duration after every wake-up. *)
Fixpoint dealer_queue (hwm : nat) (s : timeo) (elapsed : N) (pend : nat) (wakes : list (N * nat)) : outcome :=
  if (pend <? hwm)%nat then Ret AOk elapsed Enqueued                    (* push_back; notify_one; Ok *)
  else
    match s with
    | Some d =>
        if d =? 0 then Ret AWouldBlock elapsed Dropped
        else
          match wakes with
          | (t, p) :: rest =>
              if t <=? fire d then dealer_queue hwm s (elapsed + t) p rest
              else Ret ATimeout (elapsed + fire d) Dropped
          | [] => Ret ATimeout (elapsed + fire d) Dropped
          end
    | None =>
        match wakes with
        | (t, p) :: rest => dealer_queue hwm s (elapsed + t) p rest
        | [] => Hang
        end
    end.

(* DealerSocket::send_logical_message: route_message(frames, false); RLR with the message back =>
   queue it; any other error => report it (the message is gone) *)
Definition dealer_send (route : outcome) (hwm : nat) (s : timeo) (pend : nat) (wakes : list (N * nat)) : outcome :=
  match route with
  | Ret AOk t f => Ret AOk t f
  | Ret AWouldBlock t Returned => dealer_queue hwm s t pend wakes
  | Ret a t _ => Ret a t Dropped
  | Hang => Hang
  end.

(* DealerSocketOutgoingProcessor::run (dealer_socket.rs): after a wake-up it pops the front of
   pending_outgoing_queue, keeps a clone, and calls route_message(msg, false):
     Ok(()) => {}                                   handed to a peer's pipe
     Err((returned, _)) => push_front(if returned.is_empty() { clone } else { returned })
   (for Timeout / ConnectionClosed `returned` is FrameBatch::new(): the frames went down with the blocking
   send that failed; before the fix: commit the EMPTY batch was pushed back and the message was lost -
   QEmpty is kept in the type to state that)
   Result: (queue afterwards, handed over?). *)
Inductive qitem (M : Type) := QMsg (m : M) | QEmpty.
Global Arguments QMsg {M} m.
Global Arguments QEmpty {M}.
Definition proc_route {M : Type} (route : outcome) (m : M) (rest : list (qitem M)) : list (qitem M) * bool :=
  match route with
  | Ret AOk _ _ => (rest, true)
  | Ret _ _ _ => (QMsg m :: rest, false)
  | Hang => (rest, false)                   (* still held by the suspended route_message *)
  end.
(* is message m still somewhere: handed over, back in the queue, or held by the suspended call *)
Definition proc_keeps {M : Type} (route : outcome) (m : M) (rest : list (qitem M)) : Prop :=
  match route with
  | Hang => True
  | _ => snd (proc_route route m rest) = true \/ fst (proc_route route m rest) = QMsg m :: rest
  end.

(* ------------------------------------------------------------------ PART 3: recv *)

Inductive trypop := PItem | PEmpty.                 (* queue.try_pop(): Some / None (closed = None) *)
Inductive popres := PAt (t : N) | PClosedAt (t : N) | PNever.   (* queue.pop().await *)
(* answers reuse `answer`; AClosed stands for Err(InvalidState("ready queue closed")) *)
(* RRet a t popped: `popped` = one batch was taken off the ready queue by this call *)
Inductive routcome := RRet (a : answer) (t : N) (popped : bool) | RHang.

Definition timed_pop (d : N) (w : popres) : routcome :=
  match w with
  | PAt t => if t <=? fire d then RRet AOk t true else RRet ATimeout (fire d) false
  | PClosedAt t => if t <=? fire d then RRet AClosed t false else RRet ATimeout (fire d) false
  | PNever => RRet ATimeout (fire d) false
  end.

Definition pop_forever (w : popres) : routcome :=
  match w with
  | PAt t => RRet AOk t true
  | PClosedAt t => RRet AClosed t false
  | PNever => RHang
  end.

(* AnonymousIngressEngine::recv: `cached` = local_cache holds an unread frame *)
Definition anon_recv (cached : bool) (r : timeo) (tp : trypop) (w : popres) : routcome :=
  if cached then RRet AOk 0 false
  else
    match r with
    | Some d =>
        if d =? 0 then match tp with PItem => RRet AOk 0 true | PEmpty => RRet AWouldBlock 0 false end
        else timed_pop d w
    | None => pop_forever w
    end.

(* AnonymousIngressEngine::recv_multipart: `cached_complete` = the cache holds the rest of a
   message up to a frame without MORE *)
Definition anon_recv_multipart (cached_complete : bool) (r : timeo) (tp : trypop) (w : popres) : routcome :=
  if cached_complete then RRet AOk 0 false
  else
    match r with
    | Some d =>
        if d =? 0 then match tp with PItem => RRet AOk 0 true | PEmpty => RRet AWouldBlock 0 false end
        else timed_pop d w
    | None => pop_forever w
    end.

(* AddressedIngressEngine::recv_logical_message *)
Definition addr_recv (r : timeo) (tp : trypop) (w : popres) : routcome :=
  match r with
  | Some d =>
      if d =? 0 then match tp with PItem => RRet AOk 0 true | PEmpty => RRet AWouldBlock 0 false end
      else timed_pop d w
  | None => pop_forever w
  end.

(* RouterSocket::recv_logical_finalized with every attached pipe finalized (the steady state):
   `held` = a held batch of a finalized pipe is waiting. One deadline for the whole call,
   `select! { biased; notified, pop, sleep_until(deadline) }`: a ready pop beats the deadline. *)
Definition router_recv (held : bool) (r : timeo) (tp : trypop) (w : popres) : routcome :=
  if held then RRet AOk 0 false
  else
    match r with
    | Some d =>
        if d =? 0 then match tp with PItem => RRet AOk 0 true | PEmpty => RRet AWouldBlock 0 false end
        else timed_pop d w
    | None => pop_forever w
    end.

Inductive rvariant := RAnon | RAnonMulti | RAddr | RRouter.
Definition all_rvariants := [RAnon; RAnonMulti; RAddr; RRouter].
Definition recv_path (v : rvariant) (pre : bool) (r : timeo) (tp : trypop) (w : popres) : routcome :=
  match v with
  | RAnon => anon_recv pre r tp w
  | RAnonMulti => anon_recv_multipart pre r tp w
  | RAddr => addr_recv r tp w
  | RRouter => router_recv pre r tp w
  end.

End Paths.

(* ------------------------------------------------------------------ the bounded pipe itself *)

(* A bounded FIFO with `cap` slots holding `len` items, receiver alive or dropped: what try_send
   answers, and what a consumer that pops for the first time after `pop_at` ms / drops the
   receiver after `close_at` ms makes of a waiting `send`. *)
Definition try_of (cap len : nat) (closed : bool) : trysend :=
  if closed then TsClosed else if (len <? cap)%nat then TsOk else TsFull.
Definition wait_of (pop_at close_at : option N) : waitres :=
  match pop_at, close_at with
  | Some t, Some c => if t <=? c then WRoom t else WClosed c
  | Some t, None => WRoom t
  | None, Some c => WClosed c
  | None, None => WNever
  end.
Definition try_pop_of (len : nat) : trypop := match len with O => PEmpty | _ => PItem end.
Definition pop_of (push_at close_at : option N) : popres :=
  match push_at, close_at with
  | Some t, Some c => if t <=? c then PAt t else PClosedAt c
  | Some t, None => PAt t
  | None, Some c => PClosedAt c
  | None, None => PNever
  end.

(* queue contents after the call *)
Definition after_send {M} (q : list M) (m : M) (o : outcome) : list M :=
  match o with Ret _ _ Enqueued => q ++ [m] | _ => q end.

(* ------------------------------------------------------------------ PART 4: buffers of one connection *)

(* An event of Pipeline.v's connection is admissible in state s when
   - PSend: the pipe (capacity max(SNDHWM,1), command_processor.rs) has room: that is exactly when
     try_send answers Ok, i.e. when send() is answered Ok by any of the paths above;
   - PRead: the decoded messages of this one read number at most `rd` ("one read's worth": the
     read arm is only enabled while ingress_buffer is empty, message_processor.rs caps one read at
     max(RCVBATCH_BYTES, 512 KiB) + 512 KiB bytes). *)
Definition hadm (bc : bcfg) (ec : ecfg) (rd : nat) (s : pstate) (e : pev) : Prop :=
  match e with
  | PSend _ => (length (p_pipe s) < hwm_of bc)%nat
  | PRead k t => (length (deliveries (snd (e_net ec (p_eng s) (firstn k (p_wire s)) t))) <= rd)%nat
  | _ => True
  end.

Inductive hreach (bc : bcfg) (ec : ecfg) (cap rd : nat) (g0 : engine) : pstate -> Prop :=
| hr_init : hreach bc ec cap rd g0 (p_init g0)
| hr_step s e : hreach bc ec cap rd g0 s -> hadm bc ec rd s e ->
                hreach bc ec cap rd g0 (p_step bc ec cap s e).

(* the same conditions as a boolean check along a run (used to exhibit reachable states) *)
Definition hadm_b (bc : bcfg) (ec : ecfg) (rd : nat) (s : pstate) (e : pev) : bool :=
  match e with
  | PSend _ => (length (p_pipe s) <? hwm_of bc)%nat
  | PRead k t => (length (deliveries (snd (e_net ec (p_eng s) (firstn k (p_wire s)) t))) <=? rd)%nat
  | _ => true
  end.
Fixpoint hrun_ok (bc : bcfg) (ec : ecfg) (cap rd : nat) (s : pstate) (evs : list pev) : bool :=
  match evs with
  | [] => true
  | e :: r => hadm_b bc ec rd s e && hrun_ok bc ec cap rd (p_step bc ec cap s e) r
  end.

(* messages held by rzmq for this connection (the byte stream p_wire is the kernel's) *)
Definition buffered (s : pstate) : nat :=
  (length (p_pipe s) + length (p_carry s) + N.to_nat (e_msgs (p_eg s))
   + length (i_ib (p_in s)) + length (i_q (p_in s)))%nat.

(* a concrete run used as the non-vacuity example: SNDHWM = 2, three sends of which the third is
   only admissible after a batch was assembled *)
Definition ex_h_bc : bcfg := {| b_sndhwm := 2; b_count := 2; b_logical := 64; b_physical := 320 |}.
Definition ex_h_evs : list pev :=
  [PSend ex_m1; PSend ex_m2; PCycle; PSend ex_m3; PCycle; PWrite 1000; PRead 1000 0; PSend ex_m2].
(* the same with a send while the pipe holds SNDHWM messages: not admissible (send() is refused) *)
Definition ex_h_evs_bad : list pev := [PSend ex_m1; PSend ex_m2; PSend ex_m3].

(* ---- the inproc reader task at count level, with the sender interleaved INSIDE its drain ----
   core/src/socket/core/inproc_reader.rs: `rx.recv().await` takes one batch into drain_buf, then
   `rx.try_recv_batch_mut(&mut drain_buf, rcvbatch_count - 1)` takes more, one at a time, while
   the channel is not empty - and the sending socket's try_send may land between any two of them
   (other worker thread). Inproc.v (C01) takes the drain as one atomic snapshot, which is what the
   ORDER theorems need; for the BOUND the refill during the drain matters: the reader can stage up
   to RCVBATCH_COUNT batches although the channel never holds more than its RCVHWM slots.
   (RCVBATCH_COUNT >= 1 by the option parser; `- 1` is the truncated subtraction here.) *)
Record rstate := {
  r_rx : nat;        (* batches in the sender -> reader channel *)
  r_buf : nat;       (* drain_buf *)
  r_left : nat;      (* how many more this try_recv_batch_mut may take *)
  r_staged : nat;    (* out + the batch whose send().await is pending *)
  r_q : nat          (* per-pipe queue *)
}.
Definition r_new : rstate := {| r_rx := 0; r_buf := 0; r_left := 0; r_staged := 0; r_q := 0 |}.
Inductive rev :=
| RSend            (* sender: try_send / resumed send (refused when the channel is full) *)
| RRecv            (* reader at the top of 'outer: rx.recv() returns one batch *)
| RMore            (* try_recv_batch_mut takes one more *)
| RStop            (* the channel looked empty or the limit was reached: regroup into `out` *)
| RPush            (* one staged batch goes into the per-pipe queue (try_send_batch / send) *)
| RPop.            (* application recv() *)
Definition r_step (chan_cap cap rcvbatch : nat) (s : rstate) (e : rev) : rstate :=
  match e with
  | RSend => if (r_rx s <? chan_cap)%nat
             then {| r_rx := S (r_rx s); r_buf := r_buf s; r_left := r_left s; r_staged := r_staged s; r_q := r_q s |} else s
  | RRecv => match r_rx s, r_buf s, r_staged s with
             | S k, O, O => {| r_rx := k; r_buf := 1; r_left := (rcvbatch - 1)%nat; r_staged := 0; r_q := r_q s |}
             | _, _, _ => s
             end
  | RMore => match r_rx s, r_left s, r_buf s with
             | S k, S l, S b => {| r_rx := k; r_buf := S (S b); r_left := l; r_staged := r_staged s; r_q := r_q s |}
             | _, _, _ => s
             end
  | RStop => match r_buf s with
             | O => s
             | b => {| r_rx := r_rx s; r_buf := 0; r_left := 0; r_staged := b; r_q := r_q s |}
             end
  | RPush => match r_staged s with
             | S k => if (r_q s <? cap)%nat
                      then {| r_rx := r_rx s; r_buf := r_buf s; r_left := r_left s; r_staged := k; r_q := S (r_q s) |} else s
             | O => s
             end
  | RPop => {| r_rx := r_rx s; r_buf := r_buf s; r_left := r_left s; r_staged := r_staged s; r_q := Nat.pred (r_q s) |}
  end.
Definition r_run (chan_cap cap rcvbatch : nat) (evs : list rev) : rstate :=
  fold_left (r_step chan_cap cap rcvbatch) evs r_new.
Definition r_total (s : rstate) : nat := (r_rx s + r_buf s + r_staged s + r_q s)%nat.
