(* Resource automata of the io_uring backend:
   - SendBufferPool        (core/src/io_uring_backend/send_buffer_pool.rs)
   - ProvidedBufferRing    (core/src/io_uring_backend/provided_buffer_ring.rs) with its BufferPool
   - the worker's fd table (worker/handler_manager.rs + the close paths of zmtp_handler.rs and
     cqe_processor.rs: who emits a `RequestClose` blueprint and when)
   written branch for branch after the code.  Ghost components (who currently holds which
   buffer) are kept OUTSIDE the code state: they are computed by separate `*_ghost` functions so
   that the executable automaton is exactly what the Rust code stores. *)
From RZ Require Import Base.Prelude.

(* ------------------------------------------------------------------ send buffer pool *)

Record pool := {
  p_cap : nat;                 (* capacity_per_buffer *)
  p_inuse : list bool;         (* pool[i].in_kernel_use; length = count *)
  p_free : list nat            (* free_ids: VecDeque, head = front *)
}.

(* SendBufferPool::new(count, cap): count = 0 or cap = 0 gives the empty pool *)
Definition pool_new (count cap : nat) : pool :=
  match count, cap with
  | O, _ | _, O => {| p_cap := cap; p_inuse := []; p_free := [] |}
  | _, _ => {| p_cap := cap; p_inuse := repeat false count; p_free := seq 0 count |}
  end.

Fixpoint set_nth {X} (l : list X) (i : nat) (v : X) : list X :=
  match l, i with
  | [], _ => []
  | _ :: t, O => v :: t
  | h :: t, S j => h :: set_nth t j v
  end.

Definition memb (i : nat) (l : list nat) : bool := existsb (Nat.eqb i) l.

(* acquire_and_prep_buffer(data) with data.len() = len *)
Definition pool_acquire (p : pool) (len : nat) : pool * option nat :=
  match len with
  | O => (p, None)                                        (* empty data *)
  | _ =>
      match p_inuse p with
      | [] => (p, None)                                   (* no buffers configured *)
      | _ =>
          match p_free p with
          | [] => (p, None)                               (* exhausted *)
          | id :: rest =>
              if (p_cap p <? len)%nat then (p, None)      (* too large: push_front(id), still free *)
              else ({| p_cap := p_cap p; p_inuse := set_nth (p_inuse p) id true; p_free := rest |}, Some id)
          end
      end
  end.

(* acquire_lease(): no length test, no empty-pool test (pop_front on an empty deque is None) *)
Definition pool_lease (p : pool) : pool * option nat :=
  match p_free p with
  | [] => (p, None)
  | id :: rest => ({| p_cap := p_cap p; p_inuse := set_nth (p_inuse p) id true; p_free := rest |}, Some id)
  end.

(* release_buffer(id) *)
Definition pool_release (p : pool) (id : nat) : pool :=
  if (id <? length (p_inuse p))%nat then
    (* both arms end with: in_kernel_use := false (a no-op in the second arm) and
       `if !free_ids.contains(&id) { push_back(id) }` *)
    {| p_cap := p_cap p; p_inuse := set_nth (p_inuse p) id false;
       p_free := if memb id (p_free p) then p_free p else p_free p ++ [id] |}
  else p.                                                 (* unknown id: logged, no change *)

Inductive pop :=
  | PAcquire (len : nat)        (* worker: RequestSendZeroCopy blueprint *)
  | PLease                      (* application side: acquire_lease *)
  | PRelease (id : nat)         (* NOTIFY CQE, failed SQ push, non-MORE completion, CloseFd sweep - or a stale duplicate *)
  | PDrop (id : nat) (released_to_worker : bool).   (* Drop for SendBufferLease *)

Definition pool_step (p : pool) (o : pop) : pool * option nat :=
  match o with
  | PAcquire len => pool_acquire p len
  | PLease => pool_lease p
  | PRelease id => (pool_release p id, None)
  | PDrop id true => (p, None)
  | PDrop id false => (pool_release p id, None)
  end.

Fixpoint pool_run (p : pool) (os : list pop) : pool * list (option nat) :=
  match os with
  | [] => (p, [])
  | o :: rest =>
      let '(p1, r) := pool_step p o in
      let '(p2, rs) := pool_run p1 rest in (p2, r :: rs)
  end.

(* ghost: who holds what.  A holder is identified by its ticket = the position of the acquiring
   operation in the history.  Releases and lease drops are annotated with the ticket they give
   back (the code has no such thing: `release_buffer` only sees the id).  The history is
   `disciplined` when every release / lease drop gives back a ticket that is held for that id;
   a double release is a release of a ticket that is not held any more. *)
Fixpoint remove1 (i : nat) (l : list nat) : list nat :=
  match l with
  | [] => []
  | h :: t => if Nat.eqb i h then t else h :: remove1 i t
  end.

Definition tk_eqb (a b : nat * nat) : bool := Nat.eqb (fst a) (fst b) && Nat.eqb (snd a) (snd b).
Definition hmem (x : nat * nat) (l : list (nat * nat)) : bool := existsb (tk_eqb x) l.
Fixpoint hremove (x : nat * nat) (l : list (nat * nat)) : list (nat * nat) :=
  match l with
  | [] => []
  | h :: t => if tk_eqb x h then t else h :: hremove x t
  end.

Fixpoint pool_ghost (p : pool) (held : list (nat * nat)) (k : nat) (os : list (pop * nat))
  : list (nat * nat) * bool :=
  match os with
  | [] => (held, true)
  | (o, t) :: rest =>
      let '(p1, r) := pool_step p o in
      match o with
      | PAcquire _ | PLease =>
          pool_ghost p1 (match r with Some id => (k, id) :: held | None => held end) (S k) rest
      | PRelease id | PDrop id false =>
          let '(h, ok) := pool_ghost p1 (hremove (t, id) held) (S k) rest in (h, hmem (t, id) held && ok)
      | PDrop id true =>
          let '(h, ok) := pool_ghost p1 held (S k) rest in (h, hmem (t, id) held && ok)
      end
  end.

(* ------------------------------------------------------------------ provided buffer ring *)

(* Buffers are identified by allocation number; `bid` is the ring slot / kernel buffer id. *)
Record ring := {
  r_cap : nat;                        (* buffer_capacity *)
  r_slots : list (option nat);        (* slots[bid] = buffer currently lent to the kernel *)
  r_tail : N;                         (* local_tail : u16, wrapping *)
  r_free : list nat;                  (* BufferPool.free : Vec (stack: push/pop at the END) *)
  r_max : nat;                        (* BufferPool.max_pooled = 4 * entry_count *)
  r_next : nat;                       (* number of buffers ever allocated (vec![0; cap]) *)
  (* kernel side, not program state: ring entries published and not yet consumed (oldest first),
     and buffer ids the kernel has put into completions the worker has not processed yet *)
  r_entries : list nat;
  r_cq : list nat
}.

Fixpoint pow2_ge (n : nat) (fuel : nat) (acc : nat) : nat :=
  match fuel with
  | O => acc
  | S f => if (n <=? acc)%nat then acc else pow2_ge n f (2 * acc)
  end.
(* checked_next_power_of_two for 1 <= n <= 32768 *)
Definition next_pow2 (n : nat) : nat := pow2_ge n 16 1.

Definition u16 (x : N) : N := (x mod 65536)%N.

(* ProvidedBufferRing::new: entry_count fresh buffers 0..n-1 provided as bid 0..n-1 *)
Definition ring_new (requested cap : nat) : option ring :=
  match requested, cap with
  | O, _ | _, O => None
  | _, _ =>
      let n := next_pow2 requested in
      Some {| r_cap := cap; r_slots := map Some (seq 0 n); r_tail := u16 (N.of_nat n); r_free := [];
              r_max := 4 * n; r_next := n; r_entries := seq 0 n; r_cq := [] |}
  end.

(* pool.acquire(): pop() from the Vec, else allocate *)
Definition bp_acquire (free : list nat) (next : nat) : nat * list nat * nat :=
  match rev free with
  | [] => (next, free, S next)
  | b :: r => (b, rev r, next)
  end.

Inductive rres := RBytes (buf : nat) (filled : nat) | RUnit | RErr | RNone.

Definition slot_get (l : list (option nat)) (bid : nat) : option nat :=
  match nth_error l bid with Some (Some b) => Some b | _ => None end.

(* take(bid, filled) *)
Definition ring_take (r : ring) (bid filled : nat) : ring * rres :=
  if (r_cap r <? filled)%nat then (r, RErr) else
  match slot_get (r_slots r) bid with
  | None => (r, RErr)                                     (* out of range or not kernel-owned *)
  | Some buf =>
      let '(nb, free', next') := bp_acquire (r_free r) (r_next r) in
      ({| r_cap := r_cap r; r_slots := set_nth (r_slots r) bid (Some nb); r_tail := u16 (r_tail r + 1);
          r_free := free'; r_max := r_max r; r_next := next';
          r_entries := r_entries r ++ [bid]; r_cq := remove1 bid (r_cq r) |}, RBytes buf filled)
  end.

(* reprovide(bid) *)
Definition ring_reprovide (r : ring) (bid : nat) : ring * rres :=
  match slot_get (r_slots r) bid with
  | None => (r, RErr)
  | Some buf =>
      ({| r_cap := r_cap r; r_slots := r_slots r; r_tail := u16 (r_tail r + 1);
          r_free := r_free r; r_max := r_max r; r_next := r_next r;
          r_entries := r_entries r ++ [bid]; r_cq := remove1 bid (r_cq r) |}, RUnit)
  end.

(* Drop for PooledChunk -> BufferPool::release(buf) *)
Definition ring_chunk_drop (r : ring) (buf : nat) : ring * bool (* true = pooled, false = deallocated *) :=
  if (length (r_free r) <? r_max r)%nat then
    ({| r_cap := r_cap r; r_slots := r_slots r; r_tail := r_tail r; r_free := r_free r ++ [buf];
        r_max := r_max r; r_next := r_next r; r_entries := r_entries r; r_cq := r_cq r |}, true)
  else (r, false).

(* the kernel consumes the oldest published entry for a receive and reports it in a CQE *)
Definition ring_kernel (r : ring) : ring * option nat :=
  match r_entries r with
  | [] => (r, None)                                       (* -ENOBUFS *)
  | bid :: rest =>
      ({| r_cap := r_cap r; r_slots := r_slots r; r_tail := r_tail r; r_free := r_free r;
          r_max := r_max r; r_next := r_next r; r_entries := rest; r_cq := r_cq r ++ [bid] |}, Some bid)
  end.

Inductive rop :=
  | RKernel                              (* kernel fills a buffer *)
  | RTake (bid filled : nat)
  | RReprovide (bid : nat)
  | RDropChunk (buf : nat).

Record rghost := { g_out : list nat; g_dead : list nat }.   (* live PooledChunks; deallocated buffers *)

Definition ring_step (r : ring) (g : rghost) (o : rop) : ring * rghost * rres :=
  match o with
  | RKernel => let '(r1, _) := ring_kernel r in (r1, g, RNone)
  | RTake bid filled =>
      let '(r1, res) := ring_take r bid filled in
      (r1, match res with RBytes b _ => {| g_out := b :: g_out g; g_dead := g_dead g |} | _ => g end, res)
  | RReprovide bid => let '(r1, res) := ring_reprovide r bid in (r1, g, res)
  | RDropChunk b =>
      if memb b (g_out g) then
        let '(r1, pooled) := ring_chunk_drop r b in
        (r1, {| g_out := remove1 b (g_out g); g_dead := if pooled then g_dead g else b :: g_dead g |}, RNone)
      else (r, g, RNone)                                   (* not a live chunk: no such event exists *)
  end.

Fixpoint ring_run (r : ring) (g : rghost) (os : list rop) : ring * rghost :=
  match os with
  | [] => (r, g)
  | o :: rest => let '(r1, g1, _) := ring_step r g o in ring_run r1 g1 rest
  end.

(* discipline of the worker: take / reprovide only for a buffer id reported by a completion *)
Fixpoint ring_disciplined (r : ring) (g : rghost) (os : list rop) : bool :=
  match os with
  | [] => true
  | o :: rest =>
      let ok := match o with
                | RTake bid _ | RReprovide bid => memb bid (r_cq r)
                | _ => true
                end in
      let '(r1, g1, _) := ring_step r g o in ok && ring_disciplined r1 g1 rest
  end.

Definition slot_bufs (l : list (option nat)) : list nat :=
  concat (map (fun x => match x with Some b => [b] | None => [] end) l).

(* ------------------------------------------------------------------ fd table / close paths *)

(* One connection fd inside the worker.  `f_close_sqes` counts `RequestClose` blueprints
   (each becomes one IORING_OP_CLOSE on the same fd number). *)
Record fdst := {
  f_present : bool;        (* handler_manager.handlers contains fd *)
  f_closing : bool;        (* handler.is_closing *)
  f_deadline : bool;       (* handler.close_deadline.is_some() *)
  f_close_sqes : nat;      (* RequestClose blueprints emitted so far *)
  f_closed : nat           (* CloseFd completions with result >= 0 *)
}.

Definition fd_fresh : fdst :=
  {| f_present := true; f_closing := false; f_deadline := false; f_close_sqes := 0; f_closed := 0 |}.

Inductive fev :=
  | FEof               (* process_ring_read_bytes(empty): is_closing := true; RequestClose - no guard *)
  | FIoErr             (* handle_internal_sqe_completion(res < 0) from the RingRead/GenericHandlerOp arm: no guard *)
  | FPeerErr           (* AppAction::PeerError: initiate_close_due_to_error only (since the fix: commit; it used to set
                          is_closing first, which made close_initiated() return early) *)
  | FPipeClosed        (* try_send_sync -> Closed: initiate_close_due_to_error only *)
  | FReaderErr         (* multishot reader error: set_error_close *)
  | FShutdownReq       (* UringOpRequest::ShutdownConnectionHandler (nobody constructs it for ZMTP fds) *)
  | FSchedClose (delayed : bool)  (* NetAction::ScheduleClose(Some d) / (None) - only engine.close() emits it *)
  | FDeadline          (* prepare_sqes: deadline elapsed *)
  | FCloseCqe (ok : bool).  (* CloseFd completion *)

(* close_initiated(): guarded by is_closing *)
Definition fd_close_initiated (s : fdst) : fdst :=
  if f_closing s then s
  else {| f_present := f_present s; f_closing := true; f_deadline := false;
          f_close_sqes := S (f_close_sqes s); f_closed := f_closed s |}.

Definition fd_set (s : fdst) (closing deadline : bool) (extra : nat) : fdst :=
  {| f_present := f_present s; f_closing := closing; f_deadline := deadline;
     f_close_sqes := extra + f_close_sqes s; f_closed := f_closed s |}.

Definition fd_step (s : fdst) (e : fev) : fdst :=
  if negb (f_present s) then s else       (* every path starts with handler_manager.get_mut(fd) *)
  match e with
  | FEof => fd_set s true (f_deadline s) 1
  | FIoErr => fd_set s true (f_deadline s) 1
  | FPeerErr | FPipeClosed | FReaderErr | FShutdownReq => fd_close_initiated s
  | FSchedClose true => fd_set s true true 0
  | FSchedClose false => fd_close_initiated s
  | FDeadline =>
      (* prepare_sqes returns early when closing without a deadline; otherwise fires once *)
      if f_deadline s then fd_set s (f_closing s) false 1 else s
  | FCloseCqe true =>
      (* a completion needs a submission; success removes the handler and sweeps its ops *)
      if (f_closed s <? f_close_sqes s)%nat then
        {| f_present := false; f_closing := true; f_deadline := false;
           f_close_sqes := f_close_sqes s; f_closed := S (f_closed s) |}
      else s
  | FCloseCqe false => s
  end.

Fixpoint fd_run (s : fdst) (es : list fev) : fdst :=
  match es with
  | [] => s
  | e :: rest => fd_run (fd_step s e) rest
  end.

(* events after which some read / setsockopt completion is still processed by the handler *)
Definition fev_unguarded (e : fev) : bool :=
  match e with FEof | FIoErr => true | _ => false end.
