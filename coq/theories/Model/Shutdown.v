(* C15 - the socket core's ShutdownCoordinator (core/src/socket/core/shutdown.rs, state.rs), composed with
   the session's reaction to a stop request (core/src/sessionx/actor.rs) and with the data path of
   Model/Pipeline.v (socket-to-session pipe, batch assembly, EgressBuffer, byte stream, the peer's engine).

   Transcribed from the code:

   ShutdownPhase (state.rs:359)      Running | StoppingChildren | Lingering | CleaningPipes | Finished
   ShutdownCoordinator (state.rs:368) state + linger_deadline : Option<Instant>   (the pending maps are bookkeeping
                                      for close_active_connections and do not influence the phase)
   options.linger : Option<Duration>  None = LINGER -1 (infinite), Some(0) = the default, Some(d)
                                      (options.rs:531 parse_linger_option; default options.rs:160)

   start_linger_if_needed (shutdown.rs:117)
       if state != Lingering { return }
       if linger_deadline.is_some() && linger != Some(ZERO) { return }
       match linger { None => deadline = None, Some(0) => deadline = Some(now), Some(d) => deadline = Some(now + d) }
   is_linger_expired_or_queues_empty (shutdown.rs:149)
       if state != Lingering { return false }
       if pipes_tx.values().all(is_empty) { return true }        -- the SOCKET-TO-SESSION pipes only
       if let Some(dl) = deadline { if now >= dl { return true } }
       false
   initiate_core_shutdown (shutdown.rs:204)
       if state != Running { return }
       is_running_flag = false; begin_shutdown_sequence (fills the pending maps);
       ISocket::process_command(Stop); stop the listeners;
       state = Lingering; start_linger_if_needed(options.linger);
       if is_linger_expired_or_queues_empty { advance_to_cleaning_phase; close_active_connections (Stop to every
          session); perform_final_pipe_cleanup => state = Finished }
   check_and_advance_linger (shutdown.rs:445; called by the 100 ms maintenance tick of command_loop.rs:172 while
       the phase read at the top of the loop iteration is Lingering)
       if state != Lingering { return }
       if deadline.is_none() && linger != Some(ZERO) { start_linger_if_needed(linger) }
       if is_linger_expired_or_queues_empty { advance; close_active_connections; perform_final_pipe_cleanup }

   Who tells the session to stop: `UserClose` publishes SystemEvent::SocketClosing BEFORE calling
   initiate_core_shutdown (command_processor.rs:202-203); Context::term publishes ContextTerminating
   (context.rs:133). The session listens to the event bus itself (actor.rs:449, 843-856) and reacts to both
   exactly as to Command::Stop (actor.rs:829): transition_to_shutdown_stream(None) => ShuttingDownStream. The
   operational loop `while current_phase == Operational` (actor.rs:315) is left at once; its locals
   core_carryover, outgoing_batch, pending_vectored and egress_buffer go out of scope UNWRITTEN;
   perform_graceful_shutdown (actor.rs:1055) shuts the write half and perform_final_cleanup_actions
   detaches and clears the pipe from the core (detach_and_clear_pipes). When the core later handles the
   session's ActorStopping event, cleanup_stopped_child_resources removes the pipes_tx entry
   (pipe_manager.rs:86 remove_pipe_state), which is what usually ends Lingering.

   Time is an abstract N; every clock read is an explicit argument (two reads per call: the one in
   start_linger_if_needed and the later one in is_linger_expired_or_queues_empty). *)
From RZ Require Import Base.Prelude Base.Stepper Model.Codec Model.Engine Model.Actor
  Model.Batch Model.Egress Model.IngressDriver Model.Pipeline.
Local Open Scope N_scope.

Inductive sphase := SRunning | SStoppingChildren | SLingering | SCleaningPipes | SFinished.
Inductive linger := LInf | LMs (d : N).

Definition sphase_eqb (a b : sphase) : bool :=
  match a, b with
  | SRunning, SRunning | SStoppingChildren, SStoppingChildren | SLingering, SLingering
  | SCleaningPipes, SCleaningPipes | SFinished, SFinished => true
  | _, _ => false
  end.
Definition linger_is_zero (l : linger) : bool := match l with LMs 0 => true | _ => false end.

Record coord := { c_ph : sphase; c_dl : option N }.
Definition coord0 : coord := {| c_ph := SRunning; c_dl := None |}.
Definition set_ph (c : coord) (p : sphase) : coord := {| c_ph := p; c_dl := c_dl c |}.

Definition start_linger (l : linger) (now : N) (c : coord) : coord :=
  if negb (sphase_eqb (c_ph c) SLingering) then c
  else if (match c_dl c with Some _ => true | None => false end) && negb (linger_is_zero l) then c
  else match l with
       | LInf => {| c_ph := c_ph c; c_dl := None |}
       | LMs 0 => {| c_ph := c_ph c; c_dl := Some now |}
       | LMs d => {| c_ph := c_ph c; c_dl := Some (now + d) |}
       end.

Definition linger_done (c : coord) (pipes_empty : bool) (now : N) : bool :=
  if negb (sphase_eqb (c_ph c) SLingering) then false
  else if pipes_empty then true
  else match c_dl c with Some dl => dl <=? now | None => false end.

Definition advance_to_cleaning (c : coord) : coord :=
  if sphase_eqb (c_ph c) SLingering then set_ph c SCleaningPipes else c.

(* perform_final_pipe_cleanup ends with `coordinator.state = Finished` unconditionally *)
Definition final_cleanup (c : coord) : coord := set_ph c SFinished.

(* the tail shared by initiate_core_shutdown and check_and_advance_linger *)
Definition finish_if_done (c : coord) (pipes_empty : bool) (now : N) : coord :=
  if linger_done c pipes_empty now then final_cleanup (advance_to_cleaning c) else c.

Definition initiate (l : linger) (now now' : N) (pipes_empty : bool) (c : coord) : coord :=
  if negb (sphase_eqb (c_ph c) SRunning) then c
  else finish_if_done (start_linger l now (set_ph c SLingering)) pipes_empty now'.

Definition check_and_advance (l : linger) (now now' : N) (pipes_empty : bool) (c : coord) : coord :=
  if negb (sphase_eqb (c_ph c) SLingering) then c
  else
    let c1 := if (match c_dl c with None => true | Some _ => false end) && negb (linger_is_zero l)
              then start_linger l now c else c in
    finish_if_done c1 pipes_empty now'.

(* the maintenance ticks after close: (clock read 1, clock read 2, are all pipes_tx empty?) *)
Definition tick := (N * N * bool)%type.
Definition run_ticks (l : linger) (c : coord) (ts : list tick) : coord :=
  fold_left (fun c '(t, t', pe) => check_and_advance l t t' pe c) ts c.

Definition rank (p : sphase) : nat :=
  match p with SRunning => 0 | SStoppingChildren => 1 | SLingering => 2 | SCleaningPipes => 3 | SFinished => 4 end%nat.

(* ------------------------------------------------------------------------------------------------
   The composition: sender socket core + its one session + the data path to the peer.             *)

Inductive sess_ph :=
| SOperational                (* ConnectionPhaseX::Operational *)
| SShutting.                  (* ShuttingDownStream / Terminating: loop left, write half shut *)

Record sys := {
  y_p : pstate;               (* pipe, carry-over, EgressBuffer, wire, the peer's engine and ingress side *)
  y_co : coord;
  y_l : linger;               (* options.linger: cannot change once the phase is not Running (command_processor.rs:116) *)
  y_running : bool;           (* is_running_flag: send() tests it first (push_socket.rs:66) *)
  y_bus : bool;               (* SocketClosing / ContextTerminating is on the event bus *)
  y_sess : sess_ph;
  y_pipe_alive : bool;        (* the core still has the pipes_tx entry of this session *)
  y_eof : bool;               (* the write half has been shut: after p_wire the peer reads EOF *)
  y_lost : list msg * bytes   (* ghost: what the session threw away when it stopped: (carry ++ pipe, unwritten egress bytes) *)
}.

Inductive yev :=
| YData (e : pev)             (* an event of the data path (Model/Pipeline.v) *)
| YClose (now now' : N)       (* close() / term(): bus event, then initiate_core_shutdown *)
| YSessStop                   (* the session takes SocketClosing / ContextTerminating / Command::Stop *)
| YSessGone                   (* the core handles the session's ActorStopping: remove_pipe_state *)
| YTick (now now' : N).       (* one maintenance tick *)

Definition pipes_empty (s : sys) : bool :=
  negb (y_pipe_alive s) || match p_pipe (y_p s) with [] => true | _ => false end.

Definition set_p (s : sys) (p : pstate) : sys :=
  {| y_p := p; y_co := y_co s; y_l := y_l s; y_running := y_running s; y_bus := y_bus s; y_sess := y_sess s;
     y_pipe_alive := y_pipe_alive s; y_eof := y_eof s; y_lost := y_lost s |}.
Definition set_co (s : sys) (c : coord) : sys :=
  {| y_p := y_p s; y_co := c; y_l := y_l s; y_running := y_running s; y_bus := y_bus s; y_sess := y_sess s;
     y_pipe_alive := y_pipe_alive s; y_eof := y_eof s; y_lost := y_lost s |}.

(* the session leaves its loop: carry-over, pipe content and EgressBuffer are dropped *)
Definition drop_session_buffers (p : pstate) : pstate :=
  {| p_carry := []; p_pipe := []; p_eg := eg_new; p_wire := p_wire p; p_eng := p_eng p; p_in := p_in p;
     p_accepted := p_accepted p; p_batches := p_batches p; p_written := p_written p; p_reads := p_reads p |}.

(* may the session learn of the shutdown now?  Either from the bus, or from close_active_connections,
   which runs when the coordinator leaves Lingering *)
Definition stop_visible (s : sys) : bool :=
  y_bus s || (2 <? rank (c_ph (y_co s)))%nat.

Definition y_step (bc : bcfg) (ec : ecfg) (cap : nat) (s : sys) (e : yev) : sys :=
  match e with
  | YData pe =>
      match pe with
      | PSend _ => if y_running s then set_p s (p_step bc ec cap (y_p s) pe) else s
      | PCycle | PWrite _ =>
          match y_sess s with
          | SOperational => set_p s (p_step bc ec cap (y_p s) pe)
          | SShutting => s
          end
      | _ => set_p s (p_step bc ec cap (y_p s) pe)              (* the peer's side: reads, ingress driver, recv *)
      end
  | YClose now now' =>
      {| y_p := y_p s; y_co := initiate (y_l s) now now' (pipes_empty s) (y_co s); y_l := y_l s;
         y_running := false; y_bus := true; y_sess := y_sess s; y_pipe_alive := y_pipe_alive s;
         y_eof := y_eof s; y_lost := y_lost s |}
  | YSessStop =>
      match y_sess s with
      | SOperational =>
          if stop_visible s then
            {| y_p := drop_session_buffers (y_p s); y_co := y_co s; y_l := y_l s; y_running := y_running s;
               y_bus := y_bus s; y_sess := SShutting; y_pipe_alive := y_pipe_alive s; y_eof := true;
               y_lost := (p_carry (y_p s) ++ p_pipe (y_p s), eg_flat (p_eg (y_p s))) |}
          else s
      | SShutting => s
      end
  | YSessGone =>
      match y_sess s with
      | SShutting =>
          {| y_p := y_p s; y_co := y_co s; y_l := y_l s; y_running := y_running s; y_bus := y_bus s;
             y_sess := y_sess s; y_pipe_alive := false; y_eof := y_eof s; y_lost := y_lost s |}
      | SOperational => s
      end
  | YTick now now' => set_co s (check_and_advance (y_l s) now now' (pipes_empty s) (y_co s))
  end.

Definition y_init (l : linger) (g0 : engine) : sys :=
  {| y_p := p_init g0; y_co := coord0; y_l := l; y_running := true; y_bus := false; y_sess := SOperational;
     y_pipe_alive := true; y_eof := false; y_lost := ([], []) |}.

Definition y_run (bc : bcfg) (ec : ecfg) (cap : nat) (l : linger) (g0 : engine) (evs : list yev) : sys :=
  fold_left (y_step bc ec cap) evs (y_init l g0).

(* the byte stream that carries exactly the accepted messages *)
Definition stream_of (ms : list msg) : bytes := concat (map enc_codec (concat ms)).

(* everything send() accepted has been handed to the transport *)
Definition all_transmitted (s : sys) : Prop := p_written (y_p s) = stream_of (p_accepted (y_p s)).

(* the design intent stated in initiate_core_shutdown ("sessions must stay alive to drain pipes_tx during
   linger"): the session hears of the shutdown from the coordinator only, i.e. after Lingering is over *)
Fixpoint stop_after_linger (bc : bcfg) (ec : ecfg) (cap : nat) (s : sys) (evs : list yev) : Prop :=
  match evs with
  | [] => True
  | e :: r =>
      (match e with
       | YSessStop => y_sess s = SOperational -> (2 < rank (c_ph (y_co s)))%nat
       | _ => True
       end) /\ stop_after_linger bc ec cap (y_step bc ec cap s e) r
  end.

(* nothing is held in session-local buffers whenever the session stops *)
Fixpoint local_buffers_empty_at_stop (bc : bcfg) (ec : ecfg) (cap : nat) (s : sys) (evs : list yev) : Prop :=
  match evs with
  | [] => True
  | e :: r =>
      (match e with
       | YSessStop => y_sess s = SOperational -> p_carry (y_p s) = [] /\ e_chunks (p_eg (y_p s)) = []
       | _ => True
       end) /\ local_buffers_empty_at_stop bc ec cap (y_step bc ec cap s e) r
  end.

(* ---- the witness used by linger_transmits_all_refuted: one message in the EgressBuffer at Stop ---- *)
Definition wit_evs : list yev := [YData (PSend ex_m2); YData PCycle; YClose 0 0; YSessStop; YSessGone; YTick 100 100].
(* ---- and one where the message has not even left the socket-to-session pipe ---- *)
Definition wit_pipe_evs : list yev := [YData (PSend ex_m2); YClose 0 0; YSessStop; YSessGone; YTick 100 100].
