(* C16 - close() and term() always finish and leave nothing running or hanging. Statements only; proofs in
   Proofs/LifecycleProofs.v and Proofs/ShutdownProofs.v; models Model/Lifecycle.v (WaitGroup + ActorDropGuard
   over actor lifecycles; the table of user operations), Model/WgWait.v (WaitGroup::wait), Model/Shutdown.v. *)
From RZ Require Import Base.Prelude Model.WgWait Model.Lifecycle Model.Engine Model.Batch Model.Pipeline Model.Shutdown.
From RZ Require Import Proofs.WgWaitProofs Proofs.LifecycleProofs Proofs.ShutdownProofs.

(* for every interleaving of spawns, first polls, waive / set_error, normal exits, aborts and panics: the
   WaitGroup counts exactly the actors that hold a guard (each exit path decrements exactly once), and the
   `count was already zero` branch of publish_actor_stopping is never taken *)
Theorem C16_wg_counts_guarded : forall evs,
  l_count (l_run evs) = guarded (l_run evs) /\ l_underflow (l_run evs) = 0.
Proof. exact counts_guarded. Qed.

(* count = number of live actors: REFUTED - a spawned task that has not been polled yet is alive and not counted
   (every actor creates its ActorDropGuard inside its task), so term() can return before it has even started *)
Theorem C16_wg_counts_live_refuted : exists evs, l_count (l_run evs) = 0 /\ live (l_run evs) = 1.
Proof. exact counts_live_refuted. Qed.

(* ... and it holds exactly outside that window *)
Theorem C16_wg_counts_live : forall evs,
  l_count (l_run evs) = live (l_run evs) <-> unstarted (l_run evs) = 0.
Proof. exact counts_live_iff. Qed.

(* Context::term's wait(), against every interleaving of actor events, notifications and its own steps: it sees
   the guard count, never loses its wake-up, and has returned once all guards are dropped and it cannot move *)
Theorem C16_wg_wait_returns : forall xs,
  let '(ls, gs) := c_run xs in
  g_count gs = guarded ls /\ glost gs = false /\
  (guarded ls = 0 -> g_pend gs = 0 -> gstep gs = None -> g_pc gs = GDone).
Proof. exact wait_returns. Qed.

Theorem C16_wg_wait_proceeds : forall xs seen,
  let '(ls, gs) := c_run xs in
  g_pc gs = GAwait seen -> guarded ls = 0 -> g_pend gs = 0 -> g_pc (grun [GW; GW; GW] gs) = GDone.
Proof. exact wait_proceeds. Qed.

(* the operations table covers every (socket type, operation) exactly once *)
Theorem C16_table_complete : table_complete = true.
Proof. exact table_is_complete. Qed.

(* send / send_multipart / recv / recv_multipart of every socket type, issued on a closed socket: error at once *)
Theorem C16_closed_ops_fail_fast : forall r lp,
  In r op_table -> o_op r <> UDelegated -> after_close r lp = ErrPrompt.
Proof. exact direct_ops_fail_fast. Qed.

(* bind / connect / set_option / get_option / monitor ...: error at once, except in one window - REFUTED there *)
Theorem C16_closed_ops_delegated_outside : forall r lp,
  In r op_table -> lp <> LoopDrained -> after_close r lp = ErrPrompt.
Proof. exact delegated_ops_outside. Qed.
Theorem C16_closed_ops_delegated_refuted :
  exists r lp, In r op_table /\ o_op r = UDelegated /\ after_close r lp = HangsForever.
Proof. exact delegated_ops_refuted. Qed.

(* operations blocked in their first await when close()/term() happens: every one is released by the Stop arm,
   by the sessions' exit or by a timeout (REQ send() waiting for a first peer included, since the fix: commit) *)
Theorem C16_blocked_ops_released : forall r,
  In r op_table -> o_op r <> UDelegated -> blocked_at_close r <> StaysBlocked.
Proof. exact blocked_ops_released. Qed.

(* the shutdown state machine always terminates, for every LINGER (-1 included), from every reachable state *)
Theorem C16_close_reaches_finished : forall bc ec cap g0 l evs now now' t t',
  c_ph (y_co (y_run bc ec cap l g0 (evs ++ [YClose now now'; YSessStop; YSessGone; YTick t t']))) = SFinished.
Proof. exact sys_close_reaches_finished. Qed.
Theorem C16_phase_monotone : forall bc ec cap s e,
  (rank (c_ph (y_co s)) <= rank (c_ph (y_co (y_step bc ec cap s e))))%nat.
Proof. exact sys_phase_monotone. Qed.
Theorem C16_finished_stays : forall bc ec cap s e,
  c_ph (y_co s) = SFinished -> c_ph (y_co (y_step bc ec cap s e)) = SFinished.
Proof. exact sys_finished_stays. Qed.

(* non-vacuity: three actors - one exits normally, one is aborted while running, one is aborted before its
   first poll - while term() waits; the waiter ends in GDone with count 0 *)
Example C16_wait_nonvacuous :
  let xs := [CA LSpawn; CA LSpawn; CA LSpawn; CA (LStart 0); CA (LStart 1); CW; CW; CW;
             CA (LWaive 0); CA (LExit 0); CA (LAbort 2); CA (LAbort 1); CN; CW; CW; CW] in
  let '(ls, gs) := c_run xs in
  l_count ls = 0%nat /\ live ls = 0%nat /\ length (l_stopped ls) = 2%nat /\ g_pc gs = GDone /\ g_calls gs = 1%nat.
Proof. vm_compute. repeat split; reflexivity. Qed.
