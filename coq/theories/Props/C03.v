(* C03 - ZMTP framing round-trips and is independent of how the stream is cut.
   Only statements here; proofs live in Proofs/CodecProofs.v. *)
From RZ Require Import Base.Prelude Base.Stepper Model.Codec Proofs.CodecProofs.
Local Open Scope N_scope.

(* every encoder entry point emits exactly the RFC 23/37 frame for the frame it puts on the wire *)
Theorem C03_enc_codec_is_rfc : forall f, fits f -> enc_codec f = rfc_frame f.
Proof. exact enc_codec_rfc. Qed.
Theorem C03_enc_header_only_is_rfc : forall f, fits f -> enc_header_only f ++ f_payload f = rfc_frame f.
Proof. exact enc_header_payload_rfc. Qed.
Theorem C03_enc_split_is_rfc : forall f, fits f ->
  fst (enc_split f) ++ snd (enc_split f) = rfc_frame (nocmd f).
Proof. exact enc_split_rfc. Qed.
Theorem C03_enc_contiguous_is_rfc : forall bs, Forall fits (concat bs) ->
  enc_contiguous bs = concat (map rfc_frame (concat bs)).
Proof. exact enc_contiguous_rfc. Qed.
Theorem C03_enc_vectored_is_rfc : forall bs, Forall fits (concat bs) ->
  concat (enc_vectored bs) = concat (map (fun f => rfc_frame (nocmd f)) (concat bs)).
Proof. exact enc_vectored_rfc. Qed.
Theorem C03_enc_batch_vectored_is_rfc : forall bs, Forall fits (concat bs) ->
  (forall f, In f (concat bs) -> f_cmd f = false) ->
  concat (enc_batch_vectored bs) = concat (map rfc_frame (concat bs)).
Proof. exact enc_batch_vectored_rfc. Qed.

(* header rule *)
Theorem C03_header_rule_short : forall f, len (f_payload f) <= 255 ->
  enc_header_only f = [rfc_flags (f_more f) (f_cmd f) false; len (f_payload f)].
Proof. exact header_rule_short. Qed.
Theorem C03_header_rule_long : forall f, 255 < len (f_payload f) -> fits f ->
  exists l8, enc_header_only f = rfc_flags (f_more f) (f_cmd f) true :: l8 /\ length l8 = 8%nat
             /\ be_val l8 = len (f_payload f) /\ wf_bytes l8 = true.
Proof. exact header_rule_long. Qed.

(* round trip through any segmentation, live decoder (decode_from_buffer) *)
Theorem C03_roundtrip_stream : forall m fs cs,
  Forall (admitted m) fs -> concat cs = concat (map enc_codec fs) ->
  run_buffer m cs = (false, [], map Some fs).
Proof. exact roundtrip_buffer. Qed.
(* tokio codec, any primed prefix *)
Theorem C03_roundtrip_tokio : forall pre fs c cs,
  Forall admitted_tokio fs -> pre ++ concat (c :: cs) = concat (map enc_codec fs) ->
  run_tokio pre (c :: cs) = (TReadHeader, [], map Some fs).
Proof. exact roundtrip_tokio. Qed.

(* cut independence for EVERY byte string, valid or not *)
Theorem C03_cut_independence : forall m cs1 cs2,
  concat cs1 = concat cs2 -> run_buffer m cs1 = run_buffer m cs2.
Proof. exact cut_independence_buffer. Qed.
Theorem C03_cut_independence_tokio : forall pre c1 cs1 c2 cs2,
  concat (c1 :: cs1) = concat (c2 :: cs2) -> run_tokio pre (c1 :: cs1) = run_tokio pre (c2 :: cs2).
Proof. exact cut_independence_tokio. Qed.
(* the decoder driver never runs out of fuel / always ends quiescent *)
Theorem C03_decoder_total : forall m cs,
  let '(st, r, _) := run_buffer m cs in buffer_step m st r = Need.
Proof. exact buffer_never_stuck. Qed.

(* slice / Bytes / peek decoders agree with the live one wherever header+size fits in usize *)
Theorem C03_decoders_agree : forall chk m buf, no_overflow buf -> dec_slice chk m buf = dec_buffer m buf.
Proof. exact dec_slice_agrees. Qed.
Theorem C03_peek_agrees : forall chk m buf f k, no_overflow buf ->
  dec_buffer m buf = DFrame f k -> peek_len chk m buf = PLen (N.of_nat k).
Proof. exact peek_len_agrees. Qed.
Theorem C03_slice_overflow_characterised : forall chk m buf fl t,
  buf = fl :: t -> (hdr_len fl <= length buf)%nat -> len buf < U64 ->
  U64 <= N.of_nat (hdr_len fl) + raw_size fl buf -> over_limit m (raw_size fl buf) = false ->
  dec_slice chk m buf = (if chk then DPanic else
     if len buf <? (N.of_nat (hdr_len fl) + raw_size fl buf) mod U64 then DNeed else DPanic)
  /\ dec_buffer m buf = DNeed.
Proof. exact dec_slice_overflow. Qed.

(* non-vacuity: concrete frames meet the hypotheses and the functions compute *)
Example C03_example :
  let f1 := {| f_more := true; f_cmd := false; f_payload := fill 300 7 |} in
  let f2 := {| f_more := false; f_cmd := true; f_payload := [1; 2; 3] |} in
  admitted 1000 f1 /\ admitted 1000 f2 /\ admitted_tokio f1 /\
  run_buffer 1000 [firstn 5 (enc_codec f1); skipn 5 (enc_codec f1) ++ enc_codec f2] = (false, [], [Some f1; Some f2]).
Proof. vm_compute. repeat split; intros; discriminate. Qed.
