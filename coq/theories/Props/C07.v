(* C07 - no byte stream from a peer can crash the engine or make it buffer without bound. *)
From RZ Require Import Base.Prelude Base.Stepper Model.Codec Proofs.CodecProofs Model.Engine
  Proofs.EngineProofs Model.Actor Proofs.ActorProofs Proofs.EngineSafety Model.HsTimer Proofs.HsTimerProofs.
Local Open Scope N_scope.

(* for every configuration and every history of inputs (arbitrary bytes in arbitrary chunks, ticks,
   application messages, close) the engine never reaches a panic site *)
Theorem C07_no_panic : forall cfg is g, Forall no_panic (snd (e_run cfg g is)).
Proof. exact engine_never_panics. Qed.

(* the handler loop always terminates in a state that needs more bytes (fuel is never exhausted) *)
Theorem C07_no_out_of_fuel : forall cfg g d t, quiescent cfg (fst (e_net cfg g d t)).
Proof. exact engine_never_out_of_fuel. Qed.

(* every decode/protocol error closes the engine ... *)
Theorem C07_error_closes : forall cfg g d t,
  has_err (snd (e_net cfg g d t)) = true -> e_phase (g_st (fst (e_net cfg g d t))) = PClosed.
Proof. exact engine_error_closes. Qed.

(* ... and a closed engine ignores everything (only close() still emits its two net actions) *)
Theorem C07_closed_absorbing : forall cfg g i,
  e_phase (g_st g) = PClosed ->
  e_phase (g_st (fst (e_input cfg g i))) = PClosed /\
  (forall x, In x (snd (e_input cfg g i)) -> match x with OCork _ | OClose _ => True | _ => False end).
Proof. exact engine_closed_absorbing. Qed.

(* with MAXMSGSIZE = m >= 0 the undecoded leftover after every read is below max(64, 9 + m) *)
Theorem C07_buffer_bound : forall cfg g d t,
  g_inv g -> (0 <= c_maxsz cfg)%Z ->
  let g' := fst (e_net cfg g d t) in
  e_phase (g_st g') <> PClosed -> len (g_acc g') < buf_bound cfg.
Proof. exact engine_buffer_bound. Qed.
Theorem C07_invariant_reachable : forall cfg is t, g_inv (fst (e_run cfg (e_new t) is)).
Proof. intros cfg is t. exact (e_run_inv cfg is (e_new t) (fresh_engine_inv t)). Qed.

(* a frame of exactly the limit is accepted, anything above is rejected - both header forms *)
Theorem C07_limit_accept : forall m f rest,
  (0 <= m)%Z -> fits f -> len (f_payload f) = Z.to_N m ->
  dec_buffer m (enc_codec f ++ rest) = DFrame f (length (enc_codec f)).
Proof. exact limit_accepts_exact. Qed.
Theorem C07_limit_reject : forall m f rest,
  (0 <= m)%Z -> fits f -> Z.to_N m < len (f_payload f) ->
  dec_buffer m (enc_codec f ++ rest) = DErr.
Proof. exact limit_rejects_above. Qed.

(* the live decoder itself never panics (no overflowing addition, no out-of-range slice) *)
Theorem C07_decoder_no_panic : forall m b, dec_buffer m b <> DPanic.
Proof. exact dec_buffer_no_panic. Qed.

(* handshake deadline (session actor, tokio backend): whatever the peer's pacing - any inter-arrival
   gaps, one byte just inside each read timeout, silence - the handshake is decided (completed, failed
   or timed out) no later than HANDSHAKE_IVL after it started, and a timeout fires exactly then *)
Theorem C07_handshake_deadline : forall D cfg evs g now, now <= D ->
  decided_at (hs_loop false D cfg g now evs) <= D /\
  (forall t, hs_loop false D cfg g now evs = HsTimeout t -> t = D).
Proof. exact deadline_bounds_handshake. Qed.
(* the per-read timer of the pinned commit was re-armed by every read (repaired by a fix: commit) *)
Theorem C07_handshake_deadline_legacy_refuted :
  Forall (fun e => fst e < 300) drip_events /\
  hs_loop true 300 drip_cfg (e_new 0) 0 drip_events = HsTimeout 2700 /\
  hs_loop false 300 drip_cfg (e_new 0) 0 drip_events = HsTimeout 300.
Proof. exact per_read_timer_refuted. Qed.

Example C07_example :
  let cfg := legacy_witness_cfg in
  g_inv (e_new 0) /\
  (* 256 frames with MORE: PeerError, not a panic *)
  has_err (snd (e_net cfg (fst (e_net cfg (e_new 0) legacy_witness_stream 0))
                      (concat (repeat (enc_codec (data_frame true [1])) 256)) 0)) = true.
Proof. split; [apply fresh_engine_inv | vm_compute; reflexivity]. Qed.

(* ---- MAXMSGSIZE / HANDSHAKE_IVL as the application sets them (option layer, Model/Options.v) ---- *)
From RZ Require Import Model.Options Proofs.OptionsProofs.
Theorem C07_maxmsgsize_option_semantics : forall (o : opts) (b : bytes), (match apply_opt o MAXMSGSIZE b with | inl o' => exists v, i64_of b = Some v /\ -1 <= v /\ maxmsgsize_of o' = v /\ (forall g, g <> F_maxmsgsize -> o' g = o g) | inr e => e = EVal MAXMSGSIZE /\ (i64_of b = None \/ exists v, i64_of b = Some v /\ v < -1) end)%Z.
Proof. exact maxmsgsize_semantics. Qed.
Theorem C07_handshake_ivl_option_semantics : forall (o : opts) (b : bytes), (match apply_opt o HANDSHAKE_IVL b with | inl o' => exists v, i32_of b = Some v /\ 0 <= v /\ handshake_ivl_of o' = ivl_decode v /\ (forall g, g <> F_handshake_ivl -> o' g = o g) | inr e => e = EVal HANDSHAKE_IVL /\ (i32_of b = None \/ exists v, i32_of b = Some v /\ v < 0) end)%Z.
Proof. exact handshake_ivl_semantics. Qed.
(* composed with the live decoder: MAXMSGSIZE = m set through set_option admits a frame of exactly m bytes and rejects
   anything longer, whatever follows in the buffer *)
From RZ Require Import Model.EngineCfg Proofs.OptionsEngine.
Theorem C07_maxmsgsize_option_limit : forall (o : opts) (m : Z), (0 <= m <= 9223372036854775807)%Z -> exists o', apply_opt o MAXMSGSIZE (i64_bytes m) = inl o' /\ cfg_max_msg_size o' = m /\ (forall f rest, fits f -> len (f_payload f) = Z.to_N m -> dec_buffer (cfg_max_msg_size o') (enc_codec f ++ rest) = DFrame f (length (enc_codec f))) /\ (forall f rest, fits f -> Z.to_N m < len (f_payload f) -> dec_buffer (cfg_max_msg_size o') (enc_codec f ++ rest) = DErr).
Proof. exact maxmsgsize_option_limit. Qed.
Theorem C07_maxmsgsize_option_get_after_set : forall (o : opts) (v : Z), (-1 <= v <= 9223372036854775807)%Z -> exists o', apply_opt o MAXMSGSIZE (i64_bytes v) = inl o' /\ retrieve_opt o' MAXMSGSIZE = GOk (i64_bytes v).
Proof. exact maxmsgsize_get_after_set. Qed.
