(* C14 - High-water marks bound buffering; SNDTIMEO / RCVTIMEO mean what they say.
   Only statements here; the model is Model/Hwm.v (+ C01's Batch/Egress/IngressDriver/Pipeline,
   Inproc, Dealer), the proofs are in Proofs/HwmProofs.v.

   Clock: milliseconds from the start of the call. `fire d` is the instant a tokio timer armed for
   d ms fires; the only thing assumed about it is the timer law  d <= fire d <= d + slack.
   What the bounded pipe does while a call waits is the oracle `waitres` (room after t / the
   receiver dropped after t / nothing ever): the theorems quantify over all of it.

   Genuine defects recorded by `_refuted` theorems (the property is proved outside the class):
     SNDTIMEO = -1 is a 30 s wait then ResourceLimitReached in ScaConnectionIface::send_message /
     send_multipart (ROUTER, REQ, REP, PUB, XPUB ... over tcp/ipc), a 300 s wait then Timeout in
     DirectInprocConnection (every socket type over inproc), 30 s in ZmtpSmartConnection
     (io_uring); only ScaConnectionIface::send_multipart_owned (PUSH, DEALER over tcp/ipc) waits. *)
From RZ Require Import Base.Prelude Model.Batch Model.Egress Model.Engine Model.IngressDriver Model.Pipeline Model.Inproc Model.Dealer Model.Hwm.
From RZ Require Import Proofs.HwmProofs.
Local Open Scope N_scope.

(* ---- send, SNDTIMEO = 0: at the high-water mark every one of the twelve send methods answers
   would-block, at time 0, with the pipe untouched; the `_owned`/`_sync` methods hand the message
   back, the plain ones consume it ---- *)
Theorem C14_snd0_immediate : forall (fire : N -> N) (M : Type) (v : variant) (cap len : nat) (w : waitres) (q : list M) (m : M), (cap <= len)%nat -> let o := send_path fire v (try_of cap len false) (Some 0) w in (exists f : fate, o = Ret AWouldBlock 0 f /\ f <> Enqueued /\ (f = Returned <-> can_return v = true)) /\ after_send q m o = q.
Proof. exact snd0_immediate_all. Qed.

(* ---- send, SNDTIMEO = d > 0 on a full pipe, every waiting method, every oracle: the call
   returns; Ok only because room came (by d + slack); a closed pipe is reported as such; otherwise
   the error is Timeout or would-block (which of the two: `expiry_answer`), no earlier than d and
   no later than d + slack, and the message is not on the pipe ---- *)
Theorem C14_snd_positive_not_early : forall (fire : N -> N) (slack : N), (forall d : N, d <= fire d /\ fire d <= d + slack) -> forall (v : variant) (d : N) (w : waitres), is_sync v = false -> 0 < d -> positive_spec slack v d w (send_path fire v TsFull (Some d) w).
Proof. exact snd_positive_all. Qed.

(* ---- send, SNDTIMEO = -1 ---- *)
(* ScaConnectionIface::send_multipart_owned never fails while the peer may still drain *)
Theorem C14_snd_minus1_waits : forall fire : N -> N, minus1_spec fire VScaOwned.
Proof. exact snd_minus1_sca_owned. Qed.
(* every other waiting method gives up after its fall-back (30 s / 300 s / 30 s) with the peer alive *)
Theorem C14_snd_minus1_waits_refuted : forall (fire : N -> N) (slack : N), (forall d : N, d <= fire d /\ fire d <= d + slack) -> forall v : variant, is_sync v = false -> v <> VScaOwned -> exists (F : N) (w : waitres), fallback v = Some F /\ (forall t : N, w <> WClosed t) /\ send_path fire v TsFull None w = Ret (expiry_answer v) (fire F) Dropped /\ expiry_answer v <> AOk.
Proof. exact snd_minus1_fallback_refuted. Qed.
Theorem C14_snd_minus1_spec_refuted : forall (fire : N -> N) (slack : N), (forall d : N, d <= fire d /\ fire d <= d + slack) -> forall v : variant, is_sync v = false -> v <> VScaOwned -> ~ minus1_spec fire v.
Proof. exact snd_minus1_refuted. Qed.
(* outside the failing class: room within the fall-back => Ok at that moment; and nothing fails
   before the fall-back has run out *)
Theorem C14_snd_minus1_outside : forall (fire : N -> N) (slack : N), (forall d : N, d <= fire d /\ fire d <= d + slack) -> forall (v : variant) (F t : N), is_sync v = false -> fallback v = Some F -> t <= F -> send_path fire v TsFull None (WRoom t) = Ret AOk t Enqueued.
Proof. exact snd_minus1_outside. Qed.
Theorem C14_snd_minus1_not_before_fallback : forall (fire : N -> N) (slack : N), (forall d : N, d <= fire d /\ fire d <= d + slack) -> forall (v : variant) (F : N) (w : waitres) (a : answer) (t : N) (f : fate), is_sync v = false -> fallback v = Some F -> send_path fire v TsFull None w = Ret a t f -> a <> AOk -> a <> AClosed -> F <= t /\ t <= F + slack.
Proof. exact snd_minus1_not_before_fallback. Qed.

(* ---- send: no spurious success, nothing half-done; for EVERY method, pipe state, SNDTIMEO and
   oracle: Ok <=> the message is on the pipe (once); Err => it is not; it is handed back exactly
   by the `_owned`/`_sync` methods when the refusal is immediate, consumed otherwise; only
   send_multipart_owned with -1 on a pipe that never drains does not return ---- *)
Theorem C14_no_spurious_success : forall (fire : N -> N) (slack : N), (forall d : N, d <= fire d /\ fire d <= d + slack) -> forall (v : variant) (ts : trysend) (s : timeo) (w : waitres), no_spurious_spec v ts s w (send_path fire v ts s w).
Proof. exact no_spurious_all. Qed.
Theorem C14_enqueued_exactly_once : forall (fire : N -> N) (slack : N), (forall d : N, d <= fire d /\ fire d <= d + slack) -> forall (M : Type) (v : variant) (ts : trysend) (s : timeo) (w : waitres) (q : list M) (m : M), after_send q m (send_path fire v ts s w) = match send_path fire v ts s w with Ret AOk _ _ => q ++ [m] | _ => q end.
Proof. exact enqueued_exactly_once. Qed.

(* ---- the socket-level wrappers: PUSH (second timer around the routing), DEALER (pending queue) ---- *)
Theorem C14_push_snd0_immediate : forall (fire fire_o : N -> N) (i : iface) (w : waitres), push_full fire fire_o i (Some 0) w = Ret AWouldBlock 0 Dropped.
Proof. exact push_snd0_immediate. Qed.
Theorem C14_push_positive : forall (fire : N -> N) (slack : N), (forall d : N, d <= fire d /\ fire d <= d + slack) -> forall fire_o : N -> N, (forall d : N, d <= fire_o d /\ fire_o d <= d + slack) -> forall (i : iface) (d : N) (w : waitres), 0 < d -> match push_full fire fire_o i (Some d) w with | Hang => False | Ret AOk t f => f = Enqueued /\ w = WRoom t /\ t <= d + slack | Ret AClosed t f => f = Dropped /\ w = WClosed t /\ t <= d + slack | Ret a t f => a = ATimeout /\ f = Dropped /\ d <= t /\ t <= d + slack end.
Proof. exact push_positive. Qed.
Theorem C14_push_minus1_waits : forall (fire fire_o : N -> N) (w : waitres), push_full fire fire_o ISca None w = match w with WRoom t => Ret AOk t Enqueued | WClosed t => Ret AClosed t Dropped | WNever => Hang end.
Proof. exact push_minus1_waits_sca. Qed.
Theorem C14_push_minus1_waits_refuted : forall (fire : N -> N) (slack : N), (forall d : N, d <= fire d /\ fire d <= d + slack) -> forall fire_o : N -> N, (forall d : N, d <= fire_o d /\ fire_o d <= d + slack) -> forall i : iface, i <> ISca -> exists (F : N) (w : waitres), (forall t : N, w <> WClosed t) /\ push_full fire fire_o i None w = Ret ATimeout (fire F) Dropped /\ (F = INPROC_FALLBACK_MS \/ F = URING_FALLBACK_MS).
Proof. exact push_minus1_refuted. Qed.
(* SNDTIMEO is snapshotted by the connection object when the connection is made: a value set later
   is honoured by PUSH's / DEALER's own wrapper only. Connected with -1 and then set to 0, PUSH's
   send() on a full tcp/ipc pipe never returns; connected with 0 and then set to anything else it is
   still refused at once. With the same value at both times this is C14_push_* above. *)
Theorem C14_sndtimeo_set_after_connect_refuted : forall fire fire_o : N -> N, push_late fire fire_o ISca None (Some 0) WNever = Hang.
Proof. exact sndtimeo_snapshot_refuted. Qed.
Theorem C14_sndtimeo_set_after_connect_refuted_2 : forall (fire fire_o : N -> N) (i : iface) (s_now : timeo) (w : waitres), s_now <> Some 0 -> exists a : fate, push_late fire fire_o i (Some 0) s_now w = Ret AWouldBlock 0 a.
Proof. exact sndtimeo_snapshot_refuted'. Qed.
Theorem C14_sndtimeo_same_value : forall (fire fire_o : N -> N) (i : iface) (s : timeo) (w : waitres), push_late fire fire_o i s s w = push_full fire fire_o i s w.
Proof. exact push_late_same. Qed.
Theorem C14_dealer_snd0 : forall (fire : N -> N) (i : iface) (hwm pend : nat) (wakes : list (N * nat)) (w : waitres), dealer_send fire (route_full fire i (Some 0) w) hwm (Some 0) pend wakes = (if (pend <? hwm)%nat then Ret AOk 0 Enqueued else Ret AWouldBlock 0 Dropped).
Proof. exact dealer_snd0. Qed.
Theorem C14_dealer_positive : forall (fire : N -> N) (slack : N), (forall d : N, d <= fire d /\ fire d <= d + slack) -> forall (i : iface) (d : N) (hwm pend : nat) (wakes : list (N * nat)) (w : waitres), 0 < d -> match dealer_send fire (route_full fire i (Some d) w) hwm (Some d) pend wakes with | Hang => False | Ret AOk t f => f = Enqueued /\ w = WRoom t /\ t <= d + slack | Ret AClosed t f => f = Dropped /\ w = WClosed t /\ t <= d + slack | Ret a t f => a = ATimeout /\ f = Dropped /\ d <= t /\ t <= d + slack end.
Proof. exact dealer_positive. Qed.
(* DEALER's queue processor (messages accepted into pending_outgoing_queue, handed out later): whatever
   route_message answers, the popped message is handed over, back at the front of the queue or still held by
   the suspended call; with a positive SNDTIMEO and the peer's pipe staying full it goes back to the front
   (it used to be replaced by an empty batch: repaired by a fix: commit) *)
Theorem C14_dealer_processor_keeps : forall (M : Type) (route : outcome) (m : M) (rest : list (qitem M)), proc_keeps route m rest.
Proof. exact (@dealer_processor_keeps). Qed.
Theorem C14_dealer_processor_timeout_requeues : forall (fire : N -> N) (slack : N), (forall d : N, d <= fire d /\ fire d <= d + slack) -> forall (M : Type) (i : iface) (d : N) (m : M) (rest : list (qitem M)), 0 < d -> proc_route (route_full fire i (Some d) WNever) m rest = (QMsg m :: rest, false).
Proof. exact dealer_processor_timeout_requeues. Qed.
(* DEALER without a peer, pending queue full, positive SNDTIMEO: never early; on time when no futile
   wake-up arrives; a wake-up that finds the queue still full re-arms the whole interval *)
Theorem C14_dealer_queue_not_early : forall (fire : N -> N) (slack : N), (forall d : N, d <= fire d /\ fire d <= d + slack) -> forall (hwm : nat) (d : N), 0 < d -> forall (wakes : list (N * nat)) (e : N) (pend : nat) (a : answer) (t : N) (f : fate), dealer_queue fire hwm (Some d) e pend wakes = Ret a t f -> a <> AOk -> a = ATimeout /\ e + d <= t /\ f = Dropped.
Proof. exact dealer_queue_not_early. Qed.
Theorem C14_dealer_queue_on_time : forall (fire : N -> N) (slack : N), (forall d : N, d <= fire d /\ fire d <= d + slack) -> forall (hwm : nat) (d e : N) (pend : nat), 0 < d -> (hwm <= pend)%nat -> exists t : N, dealer_queue fire hwm (Some d) e pend [] = Ret ATimeout t Dropped /\ e + d <= t /\ t <= e + d + slack.
Proof. exact dealer_queue_on_time. Qed.
Theorem C14_dealer_queue_late_refuted : forall (fire : N -> N) (slack : N), (forall d : N, d <= fire d /\ fire d <= d + slack) -> forall (hwm : nat) (d : N), 0 < d -> slack < d -> (0 < hwm)%nat -> exists (wakes : list (N * nat)) (t : N), dealer_queue fire hwm (Some d) 0 hwm wakes = Ret ATimeout t Dropped /\ d + slack < t.
Proof. exact dealer_queue_late_refuted. Qed.

(* ---- recv: RCVTIMEO the same way, for PULL/SUB (recv, recv_multipart), DEALER/REQ/REP and ROUTER ---- *)
Theorem C14_rcv0_immediate : forall (fire : N -> N) (v : rvariant) (w : popres), recv_path fire v false (Some 0) (try_pop_of 0) w = RRet AWouldBlock 0 false.
Proof. exact rcv0_immediate_all. Qed.
Theorem C14_rcv0_takes_queued : forall (fire : N -> N) (v : rvariant) (n : nat) (w : popres), recv_path fire v false (Some 0) (try_pop_of (S n)) w = RRet AOk 0 true.
Proof. exact rcv0_takes. Qed.
Theorem C14_rcv_positive_not_early : forall (fire : N -> N) (slack : N), (forall d : N, d <= fire d /\ fire d <= d + slack) -> forall (v : rvariant) (d : N) (tp : trypop) (w : popres), 0 < d -> match recv_path fire v false (Some d) tp w with | RHang => False | RRet AOk t p => p = true /\ w = PAt t /\ t <= d + slack | RRet AClosed t p => p = false /\ w = PClosedAt t /\ t <= d + slack | RRet ATimeout t p => p = false /\ d <= t /\ t <= d + slack | RRet AWouldBlock _ _ => False end.
Proof. exact rcv_positive_all. Qed.
Theorem C14_rcv_minus1_waits : forall (fire : N -> N) (v : rvariant) (tp : trypop) (w : popres), recv_path fire v false None tp w = match w with PAt t => RRet AOk t true | PClosedAt t => RRet AClosed t false | PNever => RHang end.
Proof. exact rcv_minus1_all. Qed.
Theorem C14_rcv_no_spurious : forall (fire : N -> N) (slack : N), (forall d : N, d <= fire d /\ fire d <= d + slack) -> forall (v : rvariant) (pre : bool) (r : timeo) (tp : trypop) (w : popres), match recv_path fire v pre r tp w with | RRet AOk t p => (p = false /\ pre = true /\ t = 0 /\ v <> RAddr) \/ (p = true /\ ((tp = PItem /\ t = 0 /\ r = Some 0) \/ w = PAt t)) | RRet _ _ p => p = false | RHang => r = None /\ w = PNever end.
Proof. exact rcv_no_spurious_all. Qed.

(* ---- buffers of one connection, every schedule (producer and consumer speeds included) ---- *)
(* tcp / ipc session: pipe <= SNDHWM, egress buffer + carry-over <= SNDHWM (no batching allowance),
   ingress_buffer <= one read's worth, per-pipe queue <= RCVHWM *)
Theorem C14_buffer_bound : forall (bc : bcfg) (ec : ecfg) (cap rd : nat) (g0 : engine) (s : pstate), hreach bc ec cap rd g0 s -> (length (p_pipe s) <= hwm_of bc)%nat /\ (N.to_nat (e_msgs (p_eg s)) + length (p_carry s) <= hwm_of bc)%nat /\ (length (i_q (p_in s)) <= cap)%nat /\ (length (i_ib (p_in s)) <= rd)%nat /\ (buffered s <= 2 * hwm_of bc + rd + cap)%nat.
Proof. exact buffer_bound_all. Qed.
Theorem C14_buffer_bound_run : forall (bc : bcfg) (ec : ecfg) (cap rd : nat) (g0 : engine) (evs : list pev), hrun_ok bc ec cap rd (p_init g0) evs = true -> (buffered (p_run bc ec cap g0 evs) <= 2 * hwm_of bc + rd + cap)%nat.
Proof. exact buffer_bound_run. Qed.
(* inproc: the sender's SNDHWM plays no part. The channel has the RECEIVER's RCVHWM slots, the reader
   task stages at most RCVBATCH_COUNT batches (the fixed batching allowance: the sender refills the
   channel while the reader drains it, so this is NOT capped by RCVHWM - witness below), the
   per-pipe queue holds RCVHWM: in total 2*RCVHWM + max(RCVBATCH_COUNT,1), for every interleaving *)
Theorem C14_inproc_buffer_bound : forall (chan_cap cap rcvbatch : nat) (evs : list rev), let s := r_run chan_cap cap rcvbatch evs in (r_rx s <= chan_cap)%nat /\ (r_buf s + r_staged s <= Nat.max rcvbatch 1)%nat /\ (r_q s <= cap)%nat /\ (r_total s <= chan_cap + Nat.max rcvbatch 1 + cap)%nat.
Proof. exact inproc_interleaved_bound_all. Qed.
Theorem C14_inproc_staging_exceeds_channel : exists evs, let s := r_run 1 1 128 evs in r_buf s = 5%nat /\ r_total s = 6%nat.
Proof. exact inproc_staging_exceeds_channel. Qed.
(* C01's list-level model of the same path (Inproc.v), whose reader drains an atomic snapshot of the
   channel: there the staging is also capped by the channel's capacity *)
Theorem C14_inproc_buffer_bound_atomic_drain : forall (chan_cap cap rcvbatch : nat) (evs : list nev), let s := n_run chan_cap cap rcvbatch evs in (length (n_rx s) <= chan_cap)%nat /\ (n_staged s <= Nat.min (Nat.max rcvbatch 1) chan_cap)%nat /\ (length (n_q s) <= cap)%nat /\ (length (n_rx s) + n_staged s + length (n_q s) <= 2 * chan_cap + cap)%nat.
Proof. exact inproc_buffer_bound_all. Qed.
(* DEALER's pending_outgoing_queue *)
Theorem C14_dealer_pending_bound : forall (M : Type) (ser : bool) (hwm : nat) (evs : list (dev M)), (length (d_pend (d_run ser hwm evs)) <= hwm)%nat.
Proof. exact (@dealer_pending_bound_all). Qed.

(* ---- non-vacuity: the timer law is satisfiable by a timer that is really late, the witness of
   the -1 refutation is concrete, and an admissible run reaches a state that holds messages ---- *)
Example C14_nonvacuous :
  (forall d : N, d <= (fun d => d + 3) d /\ (fun d => d + 3) d <= d + 5)
  /\ send_path (fun d => d + 3) VScaMulti TsFull None (WRoom 30004) = Ret AWouldBlock 30003 Dropped
  /\ send_path (fun d => d + 3) VScaOwned TsFull None (WRoom 30004) = Ret AOk 30004 Enqueued
  /\ send_path (fun d => d + 3) VInprocOwned TsFull (Some 50) (WRoom 60) = Ret ATimeout 53 Dropped
  /\ hrun_ok ex_h_bc ex_cfg 2 5 (p_init ex_g0) ex_h_evs = true
  /\ buffered (p_run ex_h_bc ex_cfg 2 ex_g0 ex_h_evs) = 4%nat
  /\ hrun_ok ex_h_bc ex_cfg 2 5 (p_init ex_g0) ex_h_evs_bad = false.
Proof. split; [intros d; lia|]. vm_compute. repeat split; reflexivity. Qed.

(* ---- the option layer (Model/Options.v; regenerated from core/src/socket/options.rs on every run and proved equal,
   Proofs/OptionsCheck.v): what the integer handed to set_option means, for EVERY byte string ---- *)
From RZ Require Import Model.Options Proofs.OptionsProofs Proofs.OptionsCompose.
(* SNDTIMEO: accepted iff the value is a 4-byte integer v >= -1; then the send paths see None (wait) for -1, Some 0
   (never wait) for 0, Some v ms otherwise, RCVTIMEO and every other option are untouched; anything else is refused
   under the option's id and nothing changes.  RCVTIMEO likewise. *)
Theorem C14_sndtimeo_option_semantics : forall (o : opts) (b : bytes), (match apply_opt o SNDTIMEO b with | inl o' => exists v, i32_of b = Some v /\ -1 <= v /\ sndtimeo_of o' = timeo_decode v /\ rcvtimeo_of o' = rcvtimeo_of o /\ (forall g, g <> F_sndtimeo -> o' g = o g) | inr e => e = EVal SNDTIMEO /\ (i32_of b = None \/ exists v, i32_of b = Some v /\ v < -1) end)%Z.
Proof. exact sndtimeo_semantics. Qed.
Theorem C14_rcvtimeo_option_semantics : forall (o : opts) (b : bytes), (match apply_opt o RCVTIMEO b with | inl o' => exists v, i32_of b = Some v /\ -1 <= v /\ rcvtimeo_of o' = timeo_decode v /\ sndtimeo_of o' = sndtimeo_of o /\ (forall g, g <> F_rcvtimeo -> o' g = o g) | inr e => e = EVal RCVTIMEO /\ (i32_of b = None \/ exists v, i32_of b = Some v /\ v < -1) end)%Z.
Proof. exact rcvtimeo_semantics. Qed.
(* every v in -1 .. i32::MAX is accepted, and get_option returns exactly the value that was set *)
Theorem C14_timeo_option_get_after_set : forall (o : opts) (v : Z), (-1 <= v <= 2147483647)%Z -> (exists o', apply_opt o SNDTIMEO (i32_bytes v) = inl o' /\ retrieve_opt o' SNDTIMEO = GOk (i32_bytes v)) /\ (exists o', apply_opt o RCVTIMEO (i32_bytes v) = inl o' /\ retrieve_opt o' RCVTIMEO = GOk (i32_bytes v)).
Proof. exact timeo_get_after_set. Qed.
(* SNDHWM / RCVHWM: any 4-byte integer is accepted, the mark is max(v, 0) messages, nothing else changes *)
Theorem C14_hwm_option_semantics : forall (o : opts) (b : bytes), (match apply_opt o SNDHWM b with | inl o' => exists v, i32_of b = Some v /\ sndhwm_of o' = Z.to_N (Z.max v 0) /\ (forall g, g <> F_sndhwm -> o' g = o g) | inr e => e = EVal 0 /\ i32_of b = None end)%Z /\ (match apply_opt o RCVHWM b with | inl o' => exists v, i32_of b = Some v /\ rcvhwm_of o' = Z.to_N (Z.max v 0) /\ (forall g, g <> F_rcvhwm -> o' g = o g) | inr e => e = EVal 0 /\ i32_of b = None end)%Z.
Proof. exact hwm_semantics. Qed.
(* a set_option call changes the rule's own field and the flags it switches on, nothing else; a refused call nothing *)
Theorem C14_option_frame : forall (o : opts) (id : Z) (b : bytes) (o' : opts) (r : rule), apply_opt o id b = inl o' -> find_rule apply_rules id = Some r -> forall g : field, g <> r_field r -> ~ In g (r_also r) -> o' g = o g.
Proof. exact apply_frame. Qed.
Theorem C14_option_error_keeps_config : forall (o : opts) (id : Z) (b : bytes) (e : oerr), apply_opt o id b = inr e -> apply_all o [(id, b)] = (o, [Some e]).
Proof. exact apply_all_error_keeps. Qed.
(* composed with the send / recv decisions above *)
Theorem C14_sndtimeo_zero_option_immediate : forall (fire : N -> N) (M : Type) (v : variant) (cap len : nat) (w : waitres) (q : list M) (m : M) (o : opts), (cap <= len)%nat -> exists o', apply_opt o SNDTIMEO (i32_bytes 0) = inl o' /\ let r := send_path fire v (try_of cap len false) (sndtimeo_of o') w in (exists f : fate, r = Ret AWouldBlock 0 f /\ f <> Enqueued) /\ after_send q m r = q.
Proof. exact sndtimeo_zero_option_immediate. Qed.
Theorem C14_sndtimeo_positive_option : forall (fire : N -> N) (slack : N) (o : opts) (d : Z) (v : variant) (w : waitres), (forall x : N, x <= fire x /\ fire x <= x + slack) -> is_sync v = false -> (0 < d <= 2147483647)%Z -> exists o', apply_opt o SNDTIMEO (i32_bytes d) = inl o' /\ positive_spec slack v (Z.to_N d) w (send_path fire v TsFull (sndtimeo_of o') w).
Proof. exact sndtimeo_positive_option. Qed.
Theorem C14_rcvtimeo_option_extremes : forall (fire : N -> N) (o : opts) (v : rvariant) (tp : trypop) (w : popres), (exists o', apply_opt o RCVTIMEO (i32_bytes (-1)) = inl o' /\ recv_path fire v false (rcvtimeo_of o') tp w = match w with PAt t => RRet AOk t true | PClosedAt t => RRet AClosed t false | PNever => RHang end) /\ (exists o', apply_opt o RCVTIMEO (i32_bytes 0) = inl o' /\ recv_path fire v false (rcvtimeo_of o') (try_pop_of 0) w = RRet AWouldBlock 0 false).
Proof. exact rcvtimeo_option_extremes. Qed.
Theorem C14_option_defaults : sndtimeo_of default_opts = None /\ rcvtimeo_of default_opts = None /\ linger_of default_opts = Some 0 /\ sndhwm_of default_opts = 256 /\ rcvhwm_of default_opts = 256 /\ maxmsgsize_of default_opts = (-1)%Z /\ heartbeat_ivl_of default_opts = None /\ handshake_ivl_of default_opts = None /\ reconnect_ivl_of default_opts = Some 1000 /\ reconnect_ivl_max_of default_opts = Some 0.
Proof. exact default_semantics. Qed.
Example C14_options_nonvacuous :
  match apply_opt default_opts SNDTIMEO (i32_bytes 250) with
  | inl o' => sndtimeo_of o' = Some 250 /\ retrieve_opt o' SNDTIMEO = GOk [250; 0; 0; 0] /\ rcvtimeo_of o' = None
  | inr _ => False
  end
  /\ apply_opt default_opts SNDTIMEO (i32_bytes (-2)) = inr (EVal SNDTIMEO)
  /\ apply_opt default_opts SNDTIMEO [1; 0; 0] = inr (EVal SNDTIMEO).
Proof. vm_compute. repeat split; reflexivity. Qed.
(* the high-water marks read back as written; a negative value is clamped and reads back as 0 *)
Theorem C14_hwm_option_get_after_set : forall (o : opts) (v : Z), (0 <= v <= 2147483647)%Z -> (exists o', apply_opt o SNDHWM (i32_bytes v) = inl o' /\ retrieve_opt o' SNDHWM = GOk (i32_bytes v)) /\ (exists o', apply_opt o RCVHWM (i32_bytes v) = inl o' /\ retrieve_opt o' RCVHWM = GOk (i32_bytes v)).
Proof. exact hwm_get_after_set. Qed.
Theorem C14_hwm_option_negative_reads_zero : forall (o : opts) (v : Z), (-2147483648 <= v < 0)%Z -> exists o', apply_opt o SNDHWM (i32_bytes v) = inl o' /\ retrieve_opt o' SNDHWM = GOk (i32_bytes 0).
Proof. exact hwm_negative_reads_zero. Qed.
