(* C09 - dropping the future of send(), recv(), send_multipart() or recv_multipart() at any await
   point.

   Model/Cancel.v: every public operation of the eight socket types as a program of atomic steps and
   await points placed as in core/src/socket/*_socket.rs (+ patterns/, sessionx/iface.rs), one
   application task per socket; the world (peer reads / peer sends / peer attaches / DEALER's
   processor / a timer firing) acts between polls; `Cancel` drops the parked future and runs the RAII
   it owns.  A statement below quantifies over EVERY configuration (pipe capacities, time-outs,
   ROUTER_MANDATORY, PUB peer order), every initial protocol state with no operation in flight
   (`quiet`), every operation, and every sequence `es` of world events and polls (`bg es`) after
   which the future is still parked - i.e. every cancellation point reachable in the model.
   `glue p` is the protocol state after the drop.

   What holds for all sockets (proved): outside four classes a drop is INVISIBLE (C09_cancel_is_noop);
   a dropped or failed one-entry send has committed nothing, a returned one nothing or the whole
   message as ONE pipe entry (C09_all_or_nothing, C09_returns_all_or_nothing); a dropped receive
   takes nothing and the queue keeps arrival order for every history (C09_recv_cancel_keeps_message,
   C09_queue_exactly_once); REQ state / ROUTER target / send permit / receive buffer are exactly as
   before the dropped call (C09_socket_states).
   Where the statement FAILS (witnesses, all reproduced on the real code by the check):
   frame-by-frame ROUTER send (identity frame left alone on the pipe; unterminated message after a
   time-out), DEALER last part (buffered parts silently dropped), REP reply (envelope consumed before
   the awaited push: the reply cannot be retried), REQ recv time-out (request forgotten).
   The ready-pipe-queue facts the one-await model of pop() and of the blocking pipe send rest on
   are C08's theorems, re-exported at the end. *)
From RZ Require Import Base.Prelude Model.Rpq Proofs.RpqProofs Model.Cancel Proofs.CancelProofs.
Local Open Scope N_scope.

(* ---- drops that leave no trace ---- *)
Theorem C09_cancel_is_noop : forall c t o p0 e0 es q p e,
  quiet p0 -> plain t o p0 = true -> bg es ->
  run c t (Call o :: es) (TIdle, p0, e0) = (TPark q, p, e) ->
  core (glue p) = core p0.
Proof. exact cancel_is_noop. Qed.

(* ---- protocol state after a drop, every socket type, every operation, every cancellation point ---- *)
Theorem C09_socket_states : forall c t o p0 e0 es q p e,
  quiet p0 -> bg es ->
  run c t (Call o :: es) (TIdle, p0, e0) = (TPark q, p, e) ->
  p_req (glue p) = p_req p0 /\ p_rtgt (glue p) = p_rtgt p0 /\ p_perm (glue p) = p_perm p0 /\
  quiet (glue p) /\ p_buf (glue p) = p_buf p0 /\
  (rep_send t o = false -> p_rep (glue p) = p_rep p0) /\
  (p_dtx (glue p) = p_dtx p0 \/ (t = DEALER /\ (exists tag, o = OSend (tag, false)) /\ p_dtx (glue p) = None)).
Proof. exact cancel_socket_states. Qed.

(* hence every call the socket's state check let in before the dropped call, it lets in afterwards
   (REQ, REP outside its own send, DEALER, ROUTER: the call can be retried / the next call made) *)
Theorem C09_accepts_next : forall c t o o' p0 e0 es q p e,
  quiet p0 -> bg es -> rep_send t o = false ->
  run c t (Call o :: es) (TIdle, p0, e0) = (TPark q, p, e) ->
  accepts t o' (glue p) = accepts t o' p0.
Proof. exact cancel_accepts_next. Qed.

(* ---- a dropped send-type call: nothing of it on any pipe; PUB: the whole message, as one pipe
        entry, on the pipes of the subscribers served so far ---- *)
Theorem C09_all_or_nothing : forall c t o p0 e0 es q p e,
  quiet p0 -> ident_part t o p0 = false -> bg es ->
  run c t (Call o :: es) (TIdle, p0, e0) = (TPark q, p, e) ->
  (p_pushed (glue p) = p_pushed p0 \/ (t = PUB /\ p_pushed (glue p) = p_pushed p0 ++ [pub_item o])) /\
  (p_pushed2 (glue p) = p_pushed2 p0 \/ (t = PUB /\ p_pushed2 (glue p) = p_pushed2 p0 ++ [pub_item o])).
Proof. exact cancel_all_or_nothing. Qed.

(* ---- a one-entry send call that returns - Ok, an error, or the internal time-out that drops the
        inner send future: all (one pipe entry) or nothing; an error means nothing ---- *)
Theorem C09_returns_all_or_nothing : forall c t o it p0 e0 es p e,
  quiet p0 -> wire_item t o p0 = Some it -> bg es ->
  run c t (Call o :: es) (TIdle, p0, e0) = (TIdle, p, e) ->
  exists x pp, p = finish x pp /\
    (p_pushed (glue pp) = p_pushed p0 \/ p_pushed (glue pp) = p_pushed p0 ++ [it]) /\
    (x <> 1 -> p_pushed (glue pp) = p_pushed p0) /\
    ((t <> ROUTER \/ mand c = true) -> x = 1 -> p_pushed (glue pp) = p_pushed p0 ++ [it]) /\
    p_perm (glue pp) = p_perm p0 /\ p_rtgt (glue pp) = p_rtgt p0 /\ quiet (glue pp).
Proof. exact send_returns_all_or_nothing'. Qed.

(* ---- a dropped recv()/recv_multipart(): nothing taken, nothing delivered, buffer untouched, the
        queue holds what it held plus what arrived meanwhile ---- *)
Theorem C09_recv_cancel_keeps_message : forall c t o p0 e0 es q p e,
  (o = ORecv \/ o = ORecvMp) -> quiet p0 -> p_taken p0 ++ e_in e0 = e_arrived e0 -> bg es ->
  run c t (Call o :: es) (TIdle, p0, e0) = (TPark q, p, e) ->
  p_taken (glue p) = p_taken p0 /\ p_buf (glue p) = p_buf p0 /\ p_app (glue p) = p_app p0 /\
  p_reg (glue p) = None /\
  exists l, e_in e = e_in e0 ++ l /\ e_arrived e = e_arrived e0 ++ l.
Proof. exact recv_cancel_keeps_message. Qed.

(* ---- a recv()/recv_multipart() that returns an ERROR - the state check, or RCVTIMEO, which drops the
        inner pop() future - has taken nothing, delivered nothing, left buffer and REP state alone; the one
        state change is REQ forgetting its outstanding request on a time-out (recorded finding) ---- *)
Theorem C09_recv_error_takes_nothing : forall c t o p0 e0 es p e,
  (o = ORecv \/ o = ORecvMp) -> quiet p0 -> bg es ->
  run c t (Call o :: es) (TIdle, p0, e0) = (TIdle, p, e) ->
  exists x pp, p = finish x pp /\
    (x <> 1 ->
     p_taken (glue pp) = p_taken p0 /\ p_app (glue pp) = p_app p0 /\ p_buf (glue pp) = p_buf p0 /\
     p_rep (glue pp) = p_rep p0 /\ p_pushed (glue pp) = p_pushed p0 /\
     (p_req (glue pp) = p_req p0 \/ (t = REQ /\ rcvto c = true /\ x = 2 /\ p_req p0 = true /\ p_req (glue pp) = false))).
Proof. exact recv_error_takes_nothing. Qed.

(* ---- for EVERY history of calls, polls, drops, time-outs and peer traffic (no restriction on es):
        taken batches ++ queued batches = arrived batches, in arrival order: nothing lost, nothing
        twice, whatever is dropped when ---- *)
Theorem C09_queue_exactly_once : forall c t es s, qinv s -> qinv (run c t es s).
Proof. exact queue_exactly_once. Qed.

(* ---- frame-by-frame ROUTER send, identity part: exactly what can be left behind ---- *)
Theorem C09_router_ident_outside : forall c f p0 e0 es q p e,
  quiet p0 -> p_rtgt p0 = false -> bg es ->
  run c ROUTER (Call (OSend f) :: es) (TIdle, p0, e0) = (TPark q, p, e) ->
  (p_pushed (glue p) = p_pushed p0 \/ p_pushed (glue p) = p_pushed p0 ++ [[(IDENT, true)]]) /\
  p_rtgt (glue p) = false /\ p_perm (glue p) = p_perm p0 /\ quiet (glue p).
Proof. exact router_ident_cancel. Qed.

(* KNOWN FINDING C09-router-partwise-send-not-atomic *)
Theorem C09_router_ident_cancel_refuted : exists c q p e,
  run c ROUTER [Call (OSend (IDENT, true))] st0 = (TPark q, p, e) /\
  p_pushed (glue p) = [[(IDENT, true)]] /\
  wire_msgs (p_pushed (pr (run c ROUTER [Cancel; Drain 0; Call (OSendMp [IDENT; tg 101 0 1])] (TPark q, p, e)))) =
    [[(IDENT, true); (IDENT, true); (DELIM, true); (tg 101 0 1, false)]].
Proof. exact router_ident_cancel_refuted. Qed.

Theorem C09_router_ident_timeout_refuted : exists c,
  let s := run c ROUTER [Call (OSend (IDENT, true)); Tmo] st0 in
  fst (fst s) = TIdle /\ p_rets (pr s) = [1] /\ p_pushed (pr s) = [[(IDENT, true)]] /\ p_rtgt (pr s) = false /\
  wire_tail (p_pushed (pr s)) = true.
Proof. exact router_ident_timeout_refuted. Qed.

Theorem C09_router_part_timeout_refuted : exists c,
  let s := run c ROUTER [Call (OSend (IDENT, true)); Drain 0; Poll; Call (OSend (tg 100 0 1, false)); Tmo] st0 in
  fst (fst s) = TIdle /\ p_rets (pr s) = [1; 2] /\ p_rtgt (pr s) = false /\ p_perm (pr s) = false /\
  wire_tail (p_pushed (pr s)) = true.
Proof. exact router_part_timeout_refuted. Qed.

(* KNOWN FINDING C09-dealer-last-part-failure-drops-buffered-parts *)
Theorem C09_dealer_parts_cancel_refuted : exists c,
  let s := run c DEALER [Call (OSendMp [tg 1 0 1]); Call (OSend (tg 100 0 3, true)); Call (OSend (tg 100 1 3, true));
                         Call (OSend (tg 100 2 3, false)); Cancel; Drain 0; Call (OSend (tg 100 2 3, false))] st0 in
  p_rets (pr s) = [1; 1; 1; 0; 1] /\ p_dtx (pr s) = None /\
  wire_msgs (p_pushed (pr s)) = [[(DELIM, true); (tg 1 0 1, false)]; [(DELIM, true); (tg 100 2 3, false)]].
Proof. exact dealer_parts_cancel_refuted. Qed.

(* KNOWN FINDING C09-rep-failed-reply-not-retryable *)
Theorem C09_rep_send_cancel_refuted : exists c s0,
  accepts REP (OSendMp [tg 200 0 1]) (pr s0) = true /\
  let s := run c REP [Call (OSendMp [tg 200 0 1]); Cancel; Call (OSendMp [tg 200 0 1])] s0 in
  p_rets (pr s) = [0; 3] /\ p_pushed (pr s) = [] /\ accepts REP (OSendMp [tg 200 0 1]) (pr s) = false.
Proof. exact rep_send_cancel_refuted. Qed.

(* KNOWN FINDING C09-req-recv-timeout-resets-state *)
Theorem C09_req_recv_timeout_refuted : exists c,
  let s := run c REQ [Call (OSend (tg 150 0 1, false)); Call ORecv; Tmo; Call ORecv] st0 in
  p_rets (pr s) = [1; 2; 3] /\ p_pushed (pr s) = [[(DELIM, true); (tg 150 0 1, false)]] /\ p_taken (pr s) = [] /\
  accepts REQ ORecv (pr s) = false.
Proof. exact req_recv_timeout_refuted. Qed.

(* ---- DEALER shared by two tasks: B's send_multipart() waits for A's part-wise transaction on the
        transaction's completion_notifier.  As long as no last part is dropped, somebody owes B the
        notification and A finishing its message delivers it ... ---- *)
Theorem C09_dealer_waiter_owed : forall es s, dwinv s -> no_drop es = true -> dwinv (dwrun es s).
Proof. exact dealer_waiter_owed. Qed.

Theorem C09_dealer_waiter_served : forall s k, dwinv s -> w_wait s = Some k ->
  exists es, no_drop es = true /\ (forall x, In x es -> x = DLast \/ x = DLastDone) /\
             w_woken (dwrun es s) = true.
Proof. exact dealer_waiter_served. Qed.

(* KNOWN FINDING C09-dealer-dropped-last-part-strands-waiter: ... a dropped last part never notifies:
   the transaction is over, and B stays parked whatever happens afterwards *)
Theorem C09_dealer_waiter_refuted :
  w_tx dw_bad = None /\ w_last dw_bad = None /\
  forall es, w_wait (dwrun es dw_bad) = Some 0%nat /\ w_woken (dwrun es dw_bad) = false /\ w_done (dwrun es dw_bad) = false.
Proof. exact dealer_waiter_refuted. Qed.

(* ---- the ready-pipe-queue facts this model leans on (C08, Model/Rpq.v): only a blocked channel
        write and a wait on the empty ready list can be cancelled, with the reservation returned and
        nothing else touched; a consumer that has taken a ready entry cannot be cancelled until it
        returns its item ---- *)
Theorem C09_rpq_cancel_safe : forall c s e s', (np c <= rcap c)%nat -> reach c s ->
  (exists t, e = CancelP t \/ e = CancelC t) -> Rpq.step c s e = Some s' ->
  RpqInv c s' /\ Rpq.ready s' = Rpq.ready s /\ taken s' = taken s /\
  (forall q, chan s' q = chan s q /\ queued s' q = queued s q /\ pushed s' q = pushed s q) /\
  match e with
  | CancelP p => (exists x, prod s p = SBlock x true) /\ prod s' p = PIdle /\
                 reserved s' p = (reserved s p - 1)%Z /\ (forall q, q <> p -> reserved s' q = reserved s q) /\
                 reserved s' p = (queued s' p + csum (c_c3 p) (cons s') (nc c))%Z
  | CancelC i => cons s i = CWait /\ cons s' i = CIdle /\ forall q, reserved s' q = reserved s q
  | _ => True
  end.
Proof. exact rpq_cancel_safe. Qed.

Theorem C09_rpq_taken_is_returned : forall c s i, (np c <= rcap c)%nat -> reach c s -> (i < nc c)%nat ->
  c_midop (cons s i) = true -> ccancel s i = None /\ exists s', Rpq.step c s (RunC i) = Some s'.
Proof. exact rpq_taken_is_returned. Qed.

(* non-vacuity: a PUSH send_multipart parked on the full capacity-1 pipe is dropped; the peer reads;
   the next message goes out: the peer has seen the prefill message and the next one, whole, and no
   frame of the dropped one *)
Example C09_example :
  let c := cfg1 true false in
  let s1 := run c PUSH [Call (OSendMp [tg 1 0 2; tg 1 1 2]); Call (OSendMp [tg 100 0 3; tg 100 1 3; tg 100 2 3])] st0 in
  (exists q, fst (fst s1) = TPark q) /\
  let s2 := run c PUSH [Cancel; Drain 0; Call (OSendMp [tg 101 0 1])] s1 in
  p_rets (pr s2) = [1; 0; 1] /\ map (map fst) (wire_msgs (p_pushed (pr s2))) = [[tg 1 0 2; tg 1 1 2]; [tg 101 0 1]].
Proof. exact example_push_cancel. Qed.
