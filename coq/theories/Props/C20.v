(* C20 - the io_uring backend is observably equivalent to the Tokio backend; its borrowed buffers
   always come back; every connection fd is closed exactly once.
   PROVED here: the delivery path of the io_uring handler (spill-over), the send-buffer pool, the
   provided-buffer ring and the handler's close paths as automata, and the equivalence of the two
   connection shells around the shared engine - together with the configurations and histories in
   which the code is NOT equivalent / does not conserve (`_refuted` witnesses, each replayed on the real
   code by the check).  NOT modelled: cqe_processor.rs / main_loop.rs / multishot_reader.rs
   (completion handling) - differential exploration only. *)
From RZ Require Import Base.Prelude Base.Stepper Model.Codec Proofs.CodecProofs Model.Engine
  Proofs.EngineProofs Model.Actor Proofs.ActorProofs Model.Spill Proofs.SpillProofs Model.UringPool
  Proofs.UringPoolProofs Proofs.UringRingProofs Model.UringShell Proofs.UringShellProofs.
From Coq Require Import Permutation.
Local Open Scope N_scope.

(* ---------- spill-over ---------- *)

(* For every order of deliveries, attach, resume, drain and throttle polls, and every pattern of
   "pipe full / not full / not attached yet": what has entered the socket's queue, followed by what is
   still stashed, is exactly the engine's delivery sequence - nothing lost, duplicated or reordered. *)
Theorem C20_spill_fifo : forall (A : Type) (es : list (sev A)),
  forallb ev_open es = true ->
  snd (sp_run sp_init es) ++ s_q (fst (sp_run sp_init es)) = sp_delivered es.
Proof. exact (@spill_fifo_thm). Qed.

(* drain on resume: an attached, not-closing handler hands over the whole stash, in order, as soon as
   the pipe has room for it *)
Theorem C20_spill_flush : forall (A : Type) (s : spill A) (n : nat) (d : bool),
  s_attached s = true -> s_closing s && negb (s_deadline s) = false -> (length (s_q s) <= n)%nat ->
  snd (sp_prepare s (repeat TOk n) d) = s_q s /\ s_q (fst (sp_prepare s (repeat TOk n) d)) = [] /\
  (s_q s <> [] -> s_thr (fst (sp_prepare s (repeat TOk n) d)) = false).
Proof. exact (@spill_flush_thm). Qed.

(* hence the application receives exactly the engine's deliveries, provided the connection is not
   marked closing while something is stashed *)
Theorem C20_spill_complete : forall (A : Type) (es : list (sev A)) (n : nat) (d : bool),
  forallb ev_open es = true -> forallb ev_not_eof es = true ->
  (length (s_q (fst (sp_run sp_init es))) <= n)%nat ->
  snd (sp_run sp_init (es ++ [SAttach; SPrepare (repeat TOk n) d])) = sp_delivered es /\
  s_q (fst (sp_run sp_init (es ++ [SAttach; SPrepare (repeat TOk n) d]))) = [].
Proof. exact (@spill_complete_thm). Qed.

(* no read is issued while anything is stashed *)
Theorem C20_spill_throttled_while_stashed : forall (A : Type) (s : spill A) (d : bool),
  s_q s <> [] -> snd (sp_throttle s d) = true.
Proof. exact (@spill_throttled_while_stashed_thm). Qed.

(* outside that class: a stash that exists when the handler becomes closing is never delivered *)
Theorem C20_spill_eof_strands_refuted :
  exists es : list (sev nat),
    forallb ev_open es = true /\
    snd (sp_run sp_init (es ++ [SAttach; SPrepare (repeat TOk 8) true; SPrepare (repeat TOk 8) true])) = [] /\
    sp_delivered es = [7; 8]%nat.
Proof. exact spill_eof_strands_refuted_thm. Qed.

(* ---------- send-buffer pool ---------- *)

(* every order of acquire / lease / release / lease drop, double and unknown releases included *)
Theorem C20_pool_free_nodup : forall count cap os,
  let p := fst (pool_run (pool_new count cap) os) in
  NoDup (p_free p) /\ Forall (fun i => (i < length (p_inuse p))%nat) (p_free p) /\
  length (p_inuse p) = length (p_inuse (pool_new count cap)).
Proof. exact pool_free_nodup_thm. Qed.

(* free (+) held = all ids for every history in which each holder gives its buffer back at most once *)
Theorem C20_pool_conservation : forall count cap os,
  snd (pool_ghost (pool_new count cap) [] 0 os) = true ->
  let p := fst (pool_run (pool_new count cap) (map fst os)) in
  let held := fst (pool_ghost (pool_new count cap) [] 0 os) in
  Permutation (p_free p ++ map snd held) (seq 0 (length (p_inuse p))).
Proof. exact pool_conservation_thm. Qed.

Theorem C20_pool_refills : forall count cap os,
  snd (pool_ghost (pool_new count cap) [] 0 os) = true ->
  fst (pool_ghost (pool_new count cap) [] 0 os) = [] ->
  length (p_free (fst (pool_run (pool_new count cap) (map fst os)))) = length (p_inuse (pool_new count cap)).
Proof. exact pool_refills_thm. Qed.

(* a double release never duplicates an id in the free list (theorem above) but it does hand a buffer
   that is still held to a second holder *)
Theorem C20_pool_double_release_refuted :
  snd (pool_ghost (pool_new 1 8) [] 0 double_release_history) = false /\
  map snd (fst (pool_ghost (pool_new 1 8) [] 0 double_release_history)) = [0; 0]%nat /\
  snd (pool_run (pool_new 1 8) (map fst double_release_history)) = [Some 0; None; Some 0; None; Some 0]%nat.
Proof. exact pool_double_release_refuted_thm. Qed.

(* ---------- provided-buffer ring ---------- *)

Theorem C20_ring_conservation : forall requested cap r0 os,
  ring_new requested cap = Some r0 ->
  let n := length (r_slots r0) in
  let '(r, g) := ring_run r0 g0 os in
  length (r_slots r) = n /\ Forall (fun x => x <> None) (r_slots r) /\
  (forall b, (cnt b (slot_bufs (r_slots r)) + cnt b (r_free r) + cnt b (g_out g) + cnt b (g_dead g) =
             if b <? r_next r then 1 else 0)%nat) /\
  (length (r_free r) <= r_max r)%nat /\
  (ring_disciplined r0 g0 os = true ->
   forall bid, (cnt bid (r_entries r) + cnt bid (r_cq r) = if bid <? n then 1 else 0)%nat).
Proof. exact ring_conservation_thm. Qed.

Theorem C20_ring_refills : forall requested cap r0 os,
  ring_new requested cap = Some r0 -> ring_disciplined r0 g0 os = true ->
  let '(r, g) := ring_run r0 g0 os in
  r_cq r = [] -> forall bid, (cnt bid (r_entries r) = if bid <? length (r_slots r0) then 1 else 0)%nat.
Proof. exact ring_refills_thm. Qed.

Theorem C20_ring_take_unreported_refuted :
  exists r0, ring_new 2 8 = Some r0 /\
  ring_disciplined r0 g0 [RTake 0 1] = false /\
  r_entries (fst (ring_run r0 g0 [RTake 0 1])) = [0; 1; 0]%nat.
Proof. exact ring_take_unreported_refuted_thm. Qed.

(* ---------- fd table / close paths ---------- *)

(* for every order of EOF, failed completion, protocol error, pipe closed, reader error, shutdown
   request and close completion: at most one successful close; at most one Close SQE unless a read /
   setsockopt completion is still processed after the handler was marked closing *)
Theorem C20_fd_closed_once : forall es,
  fd_delayed es = false ->
  let s := fd_run fd_fresh es in
  (f_closed s <= 1)%nat /\ (f_closed s <= f_close_sqes s)%nat /\
  (f_close_sqes s <= 1 + fd_late fd_fresh es)%nat /\
  (f_present s = false -> f_closed s = 1%nat).
Proof. exact fd_closed_once_thm. Qed.

Theorem C20_fd_double_close_refuted :
  f_close_sqes (fd_run fd_fresh [FPipeClosed; FEof]) = 2%nat /\
  f_close_sqes (fd_run fd_fresh [FReaderErr; FIoErr]) = 2%nat /\
  fd_late fd_fresh [FPipeClosed; FEof] = 1%nat.
Proof. exact fd_double_close_refuted_thm. Qed.

(* a protocol / security error on a live handler submits exactly one Close *)
Theorem C20_fd_peer_error_closes : forall s,
  f_present s = true -> f_closing s = false ->
  f_close_sqes (fd_step s FPeerErr) = S (f_close_sqes s) /\ f_closing (fd_step s FPeerErr) = true.
Proof. exact fd_peer_error_closes_thm. Qed.

(* ---------- the two shells ---------- *)

(* For every configuration, every segmentation of the peer's bytes into reads, every interleaving of
   attach / resume / drain / poll events and every pipe-fullness pattern (receiver alive, no hang-up,
   no timer): the io_uring handler and the tokio session forward the same messages in the same order,
   the same handshake outcome and the same error class - all three being functions of the byte stream. *)
Theorem C20_backend_equiv : forall cfg t is,
  forallb uin_plain is = true ->
  let '(h, l) := u_run cfg (u_new t) is in
  let k := t_run cfg (t_new t) (peer_of is) in
  let o := snd (e_net cfg (e_new t) (bytes_of is) 0) in
  l_pipe l ++ s_q (u_sp h) = t_ingress k /\ t_ingress k = deliveries o /\
  l_ctrl l = t_ctrl k /\ t_ctrl k = ctrls o /\
  (* the session alive: same engine, handler not closing; the session gave up: handler closing or its engine Closed *)
  (if t_fatal k then s_closing (u_sp h) = true \/ e_phase (g_st (u_eng h)) = PClosed
   else u_eng h = t_eng k /\ s_closing (u_sp h) = false).
Proof. exact backend_equiv_thm. Qed.

(* heartbeat ticks do not separate the backends when HEARTBEAT_IVL is off *)
Theorem C20_backend_equiv_ticks : forall cfg t is,
  c_hb_ivl cfg = None -> forallb uin_plain_tick is = true ->
  let '(h, l) := u_run cfg (u_new t) is in
  let k := t_run cfg (t_new t) (peer_of is) in
  l_pipe l ++ s_q (u_sp h) = t_ingress k /\ l_ctrl l = t_ctrl k /\
  (if t_fatal k then s_closing (u_sp h) = true \/ e_phase (g_st (u_eng h)) = PClosed
   else u_eng h = t_eng k /\ s_closing (u_sp h) = false).
Proof. exact backend_equiv_ticks_thm. Qed.

(* NOT equivalent: HEARTBEAT_IVL / HEARTBEAT_TIMEOUT (the handler never calls on_tick) *)
Theorem C20_heartbeat_refuted :
  let k := t_run hb_cfg (t_new 0) (peer_of hb_history) in
  let '(h, l) := u_run hb_cfg (u_new 0) hb_history in
  existsb is_ping (t_net k) = true /\ t_ctrl k = [KEstablished None; KError ETimeout] /\ t_fatal k = true /\
  existsb is_ping (l_net l) = false /\ l_ctrl l = [KEstablished None] /\ s_closing (u_sp h) = false /\
  l_pipe l ++ s_q (u_sp h) = t_ingress k.
Proof. exact heartbeat_refuted_thm. Qed.

(* NOT equivalent: HANDSHAKE_IVL (the handler has no handshake timer) *)
Theorem C20_handshake_timeout_refuted : forall cfg,
  let k := t_run cfg (t_new 0) (peer_of [UHsTimeout]) in
  let '(h, l) := u_run cfg (u_new 0) [UHsTimeout] in
  t_ctrl k = [KError ETimeout] /\ t_fatal k = true /\
  l_ctrl l = [] /\ s_closing (u_sp h) = false.
Proof. exact handshake_timeout_refuted_thm. Qed.

(* the hypotheses are satisfiable on a non-trivial history: a handshake and a data frame split over
   two reads, the second delivered into a full pipe, then attach + drain *)
Example C20_example :
  let is := [UNet (firstn 70 legacy_witness_stream) 0 []; UNet (skipn 70 legacy_witness_stream) 5 [TFull];
             UPoll false; UAttach; UPrepare [TOk] true] in
  forallb uin_plain is = true /\
  l_pipe (snd (u_run legacy_witness_cfg (u_new 0) is)) = [[data_frame false [1; 2; 3]]] /\
  snd (pool_ghost (pool_new 2 8) [] 0 [(PAcquire 4, 0%nat); (PLease, 0%nat); (PRelease 0, 0%nat); (PDrop 1 false, 1%nat)]) = true.
Proof. vm_compute. repeat split. Qed.
