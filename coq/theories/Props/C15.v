(* C15 - LINGER governs what happens to accepted messages at close. Statements only; the proofs are in
   Proofs/ShutdownProofs.v, the model in Model/Shutdown.v (coordinator, the session's reaction to a stop
   request, composed with the data path of Model/Pipeline.v and the peer's engine of Model/Engine.v).
   Time is an abstract clock; every clock read of the code is an explicit argument. *)
From RZ Require Import Base.Prelude Model.Codec Model.Engine Model.Actor Model.Batch Model.Egress Model.Pipeline Model.Shutdown.
From RZ Require Import Proofs.EngineProofs Proofs.ShutdownProofs Model.RxSession Proofs.RxSessionProofs.
Local Open Scope N_scope.

(* A bounded LINGER bounds the shutdown: started at t0 (second clock read t0') with LINGER = d, and with
   maintenance ticks at most P apart (100 ms interval + one loop iteration), the coordinator is Finished
   either at once or at a tick that comes before t0 + d + P - whatever the pipes hold at any tick. *)
Theorem C15_linger_bounds_close : forall d P t0 t0' pe0 ts,
  t0 <= t0' -> spaced P t0' ts -> Exists (fun tk => t0 + d <= tk2 tk) ts ->
  c_ph (initiate (LMs d) t0 t0' pe0 coord0) = SFinished \/
  exists pre tk post, ts = pre ++ tk :: post /\ tk2 tk < t0 + d + P /\
    c_ph (run_ticks (LMs d) (initiate (LMs d) t0 t0' pe0 coord0) (pre ++ [tk])) = SFinished.
Proof. exact coord_linger_bounds_close. Qed.

Theorem C15_finished_stays : forall l c ts, c_ph c = SFinished -> c_ph (run_ticks l c ts) = SFinished.
Proof. exact coord_finished_stays. Qed.

(* LINGER 0: initiate_core_shutdown itself reaches Finished, whatever is queued *)
Theorem C15_linger_zero_prompt : forall now now' pe,
  now <= now' -> c_ph (initiate (LMs 0) now now' pe coord0) = SFinished.
Proof. exact coord_linger_zero_prompt. Qed.

(* LINGER -1: only empty pipes end Lingering *)
Theorem C15_infinite_linger_waits : forall t0 t0' ts,
  Forall (fun tk => snd tk = false) ts ->
  c_ph (run_ticks LInf (initiate LInf t0 t0' false coord0) ts) = SLingering.
Proof. exact coord_infinite_linger_waits. Qed.

(* ENGINE LEMMA: whatever LINGER is - for every prefix p of a valid data-phase byte stream, read in any
   chunks and followed by EOF, the messages delivered are the first k of those encoded, each whole and
   unmodified; close() of the engine delivers nothing *)
Theorem C15_close_never_truncates : forall cfg g ms p rest cs,
  e_phase (g_st g) = PData -> e_partial (g_st g) = [] -> g_acc g = [] ->
  Forall (wf_msg cfg) ms ->
  concat (map enc_codec (concat ms)) = p ++ rest ->
  concat (map fst cs) = p ->
  (exists k, snd (nets cfg g cs) = map ODeliver (firstn k ms)) /\
  deliveries (snd (e_close cfg (fst (nets cfg g cs)))) = [].
Proof. exact engine_close_never_truncates. Qed.

(* ... and for the whole path, for every LINGER, every schedule of sends, batch assemblies, partial writes,
   reads, ingress-driver steps, close()/term(), session stop at ANY point, ticks: what the peer's recv() has
   returned is a prefix of what send() accepted *)
Theorem C15_never_truncates_end_to_end : forall bc ec cap g0 l evs,
  e_phase (g_st g0) = PData -> e_partial (g_st g0) = [] -> g_acc g0 = [] ->
  Forall (wf_msg ec) (p_accepted (y_p (y_run bc ec cap l g0 evs))) ->
  prefix (p_received (y_p (y_run bc ec cap l g0 evs))) (p_accepted (y_p (y_run bc ec cap l g0 evs))).
Proof. exact sys_never_truncates. Qed.

(* LINGER = -1 => everything accepted is handed to the transport before the write half is shut:
   REFUTED for the code. Witness: one message in the EgressBuffer when the session takes the stop request;
   the shutdown completes, the write half is shut, nothing was written. *)
Theorem C15_linger_transmits_all_refuted :
  exists evs,
    let s := y_run ex_bc ex_cfg 4 LInf ex_g0 evs in
    c_ph (y_co s) = SFinished /\ y_eof s = true /\ p_accepted (y_p s) = [ex_m2] /\
    p_written (y_p s) = [] /\ snd (y_lost s) = enc_contiguous [ex_m2] /\ ~ all_transmitted s.
Proof. exact sys_linger_transmits_all_refuted. Qed.

(* second witness: the message has not even left the socket-to-session pipe - the session reacts to the
   SocketClosing / ContextTerminating bus event itself, without waiting for the coordinator *)
Theorem C15_linger_pipe_message_lost :
  exists evs,
    let s := y_run ex_bc ex_cfg 4 LInf ex_g0 evs in
    c_ph (y_co s) = SFinished /\ y_eof s = true /\ p_accepted (y_p s) = [ex_m2] /\
    fst (y_lost s) = [ex_m2] /\ p_written (y_p s) = [].
Proof. exact sys_linger_pipe_message_lost. Qed.

(* OUTSIDE the failing class: LINGER = -1, the session is told to stop only by the coordinator (after
   Lingering) and holds nothing in core_carryover / EgressBuffer at that moment => all transmitted *)
Theorem C15_linger_transmits_all_outside : forall bc ec cap g0 evs,
  stop_after_linger bc ec cap (y_init LInf g0) evs ->
  local_buffers_empty_at_stop bc ec cap (y_init LInf g0) evs ->
  y_eof (y_run bc ec cap LInf g0 evs) = true -> all_transmitted (y_run bc ec cap LInf g0 evs).
Proof. exact sys_linger_transmits_all_outside. Qed.

(* the messages still in the socket-to-session pipe: with LINGER = -1 the coordinator does not finish while
   a live session's pipe holds a message - for every schedule *)
Theorem C15_linger_drains_pipe : forall bc ec cap g0 evs,
  y_sess (y_run bc ec cap LInf g0 evs) = SOperational ->
  c_ph (y_co (y_run bc ec cap LInf g0 evs)) = SFinished ->
  p_pipe (y_p (y_run bc ec cap LInf g0 evs)) = [].
Proof. exact sys_linger_drains_pipe. Qed.

(* non-vacuity: a schedule that satisfies the hypotheses of the `outside` theorem, shuts the write half
   and has transmitted two messages *)
(* the RECEIVING session loses nothing that was transmitted before the sender closed: for an error-free stream, every
   schedule of its read / drain arms and every segmentation, once it has seen the EOF everything decoded from the whole
   stream has been handed to the socket's pipe (the read arm - and with it the EOF - is enabled only while
   ingress_buffer is empty) *)
Theorem C15_receiver_eof_loses_nothing : forall cfg t g0 input, has_err (snd (nets cfg g0 input)) = false ->
  forall es, let s := x_run gate_empty cfg (x_new t g0 input) es in
  x_dropped s = [] /\ (x_over s = true -> x_pipe s = deliveries (snd (nets cfg g0 input))).
Proof. exact rx_eof_loses_nothing. Qed.

Example C15_outside_nonvacuous :
  let evs := [YData (PSend ex_m2); YData (PSend ex_m3); YData PCycle; YData (PWrite 1000); YClose 5 5;
              YSessStop; YSessGone; YTick 105 105] in
  let s := y_run ex_bc ex_cfg 4 LInf ex_g0 evs in
  stop_after_linger ex_bc ex_cfg 4 (y_init LInf ex_g0) evs /\
  local_buffers_empty_at_stop ex_bc ex_cfg 4 (y_init LInf ex_g0) evs /\
  y_eof s = true /\ p_accepted (y_p s) = [ex_m2; ex_m3] /\ p_written (y_p s) = stream_of [ex_m2; ex_m3] /\
  c_ph (y_co s) = SFinished.
Proof. vm_compute. repeat split; try reflexivity; try lia; intros; try discriminate; repeat constructor. Qed.

(* ---- LINGER as the application sets it (option layer, Model/Options.v, tied to options.rs by the translator) ---- *)
From RZ Require Import Model.Options Proofs.OptionsProofs Proofs.OptionsCompose.
(* accepted iff a 4-byte integer v >= -1: -1 = wait for ever, 0 = discard at once, v = that many ms; a wrong length is
   refused under id 0, v < -1 under LINGER's id; nothing else changes *)
Theorem C15_linger_option_semantics : forall (o : opts) (b : bytes), (match apply_opt o LINGER b with | inl o' => exists v, i32_of b = Some v /\ -1 <= v /\ linger_of o' = timeo_decode v /\ oget o' F_linger = VOZ (if v =? -1 then None else Some v) /\ (forall g, g <> F_linger -> o' g = o g) | inr e => (e = EVal 0 /\ i32_of b = None) \/ (e = EVal LINGER /\ exists v, i32_of b = Some v /\ v < -1) end)%Z.
Proof. exact linger_semantics. Qed.
Theorem C15_linger_option_get_after_set : forall (o : opts) (v : Z), (-1 <= v <= 2147483647)%Z -> exists o', apply_opt o LINGER (i32_bytes v) = inl o' /\ retrieve_opt o' LINGER = GOk (i32_bytes v).
Proof. exact linger_get_after_set. Qed.
(* composed with the coordinator: LINGER = 0 set through set_option ends the shutdown at once, LINGER = -1 keeps it
   lingering while a pipe still holds messages *)
Theorem C15_linger_option_zero_prompt : forall (o : opts) (now now' : N) (pe : bool), now <= now' -> exists o', apply_opt o LINGER (i32_bytes 0) = inl o' /\ c_ph (initiate (linger_cfg o') now now' pe coord0) = SFinished.
Proof. exact linger_option_zero_prompt. Qed.
Theorem C15_linger_option_infinite_waits : forall (o : opts) (t0 t0' : N) (ts : list tick), Forall (fun tk => snd tk = false) ts -> exists o', apply_opt o LINGER (i32_bytes (-1)) = inl o' /\ c_ph (run_ticks (linger_cfg o') (initiate (linger_cfg o') t0 t0' false coord0) ts) = SLingering.
Proof. exact linger_option_infinite_waits. Qed.
