(* C18 - encrypted connections (CURVE, NOISE_XX): secrecy on the wire, tamper detection, decodability.
   Only statements here; proofs live in Proofs/SecFramerProofs.v. Every theorem is relative to an
   ideal AEAD ([ideal_aead seal open]: open (seal p) = p, only seal outputs open, |seal p| = |p| + 16)
   given as an explicit premise; nothing is claimed about dryoc / snow themselves.
   Three parts of the property FAIL for the code as written and are stated as refutations:
     C18_enc_roundtrip_any_size_refuted  (CURVE record length `as u16` wraps above 65535)
     C18_heartbeat_decodable_refuted     (PING/PONG bypass the record layer)
     C18_sessions_differ_refuted         (CURVE data keys depend on the static keys only, counters restart at 1) *)
From RZ Require Import Base.Prelude Base.Stepper Model.Codec Model.Engine Model.SecFramer Proofs.CodecProofs Proofs.SecFramerProofs.
Local Open Scope N_scope.

(* try_read_msg is an append-stable stepper: decoding never depends on how the byte stream is cut *)
Theorem C18_chunk_independence : forall key (seal : key -> N -> bytes -> bytes) open, ideal_aead seal open ->
  forall m (c : cipher key) cs1 cs2, concat cs1 = concat cs2 -> recv_run key open m c cs1 = recv_run key open m c cs2.
Proof. exact x_chunk_independent. Qed.

(* what a sender really emits when its calls succeed: one record per write call, counters +1 each *)
Theorem C18_sender_emits : forall key (seal : key -> N -> bytes -> bytes) open, ideal_aead seal open ->
  forall kd ek dk rn bs sn, Forall (sendable kd) bs -> ctr_room sn (length bs) ->
  send_all key seal {| c_kind := kd; c_ek := ek; c_dk := dk; c_sn := sn; c_rn := rn |} bs =
  (map SOk (rec_wires key seal ek sn bs),
   {| c_kind := kd; c_ek := ek; c_dk := dk; c_sn := sn + N.of_nat (length bs); c_rn := rn |}).
Proof. exact x_send_all_ok. Qed.

(* enc_roundtrip_small: every sequence of batches whose plaintexts are <= 65519 bytes (ciphertext fits
   the 16-bit length) is decoded by the peer to the same frames, for every segmentation *)
Theorem C18_enc_roundtrip_small : forall key (seal : key -> N -> bytes -> bytes) open, ideal_aead seal open ->
  forall m kd ek k sn n bs cs,
  Forall small bs -> Forall (admitted m) (flat bs) -> ctr_room n (length bs) ->
  concat cs = concat (rec_wires key seal k n bs) ->
  feed (sstep key open m) (smu key) 0 (rcv key kd ek k sn n) [] cs =
    (rcv key kd ek k sn (n + N.of_nat (length bs)), [], map RFrame (flat bs)).
Proof. exact x_enc_roundtrip_small. Qed.

(* enc_large_batch, Noise: refused with an error at the sender, nothing emitted, cipher state untouched *)
Theorem C18_enc_large_batch_noise_refused : forall key (seal : key -> N -> bytes -> bytes) open, ideal_aead seal open ->
  forall ek dk sn rn b, ~ small b ->
  let c := {| c_kind := KNoise; c_ek := ek; c_dk := dk; c_sn := sn; c_rn := rn |} in
  write_msg_batch key seal c b = (SErr, c).
Proof. exact x_noise_large_refused. Qed.

(* enc_large_batch, CURVE: the call succeeds for every size ... *)
Theorem C18_enc_large_batch_curve_accepted : forall key (seal : key -> N -> bytes -> bytes) open, ideal_aead seal open ->
  forall ek dk sn rn b, ctr_ok sn = true ->
  write_msg_batch key seal {| c_kind := KCurve; c_ek := ek; c_dk := dk; c_sn := sn; c_rn := rn |} b =
  (SOk (rec_wire key seal ek sn b), {| c_kind := KCurve; c_ek := ek; c_dk := dk; c_sn := sn + 1; c_rn := rn |}).
Proof. exact x_curve_any_size_accepted. Qed.

(* ... and the peer never delivers anything from a record whose length wrapped, whatever follows it *)
Theorem C18_enc_large_batch_undecodable : forall key (seal : key -> N -> bytes -> bytes) open, ideal_aead seal open ->
  forall m kd ek k sn n b rest cs,
  ~ small b -> ctr_ok n = true ->
  unforged key seal k [(n, enc_contiguous b)] (rec_wire key seal k n b ++ rest) ->
  concat cs = rec_wire key seal k n b ++ rest ->
  let '(st', _, o) := feed (sstep key open m) (smu key) 0 (rcv key kd ek k sn n) [] cs in
  o = [] \/ (o = [RErr] /\ r_closed st' = true).
Proof. exact x_wrapped_record_undecodable. Qed.

(* REFUTED (enc_roundtrip_any_size): one 65520-byte frame. The CURVE sender returns Ok and emits a record
   with length prefix 9; the peer fails on it and closes. Holds for every AEAD with a 16-byte tag. *)
Theorem C18_enc_roundtrip_any_size_refuted : forall key (seal : key -> N -> bytes -> bytes) open, ideal_aead seal open ->
  forall m ek k sn n, ctr_ok n = true ->
  fst (write_msg_batch key seal {| c_kind := KCurve; c_ek := k; c_dk := ek; c_sn := n; c_rn := sn |} wrap_witness)
    = SOk (rec_wire key seal k n wrap_witness) /\
  let '(st', _, o) := pump (sstep key open m) (smu key) 0 (rcv key KCurve ek k sn n) (rec_wire key seal k n wrap_witness) in
  o = [RErr] /\ r_closed st' = true.
Proof. exact x_enc_roundtrip_any_size_refuted. Qed.

(* tamper_prefix_safety: for every sealed sequence and EVERY stream the attacker can build without
   forging a ciphertext (flip, drop, duplicate, swap, cut, inject), cut in any way, the receiver hands
   out exactly the frames of the first j' batches - whole, in order, once - and then nothing, or one
   error after which it is closed *)
Theorem C18_tamper_prefix_safety : forall key (seal : key -> N -> bytes -> bytes) open, ideal_aead seal open ->
  forall m kd ek k sn n0 bs cs,
  Forall (admitted m) (flat bs) -> ctr_room n0 (length bs) ->
  unforged key seal k (sealed n0 bs) (concat cs) ->
  let '(st', _, o) := feed (sstep key open m) (smu key) 0 (rcv key kd ek k sn n0) [] cs in
  exists j', (j' <= length bs)%nat /\
    ((o = map RFrame (flat (firstn j' bs)) /\ st' = rcv key kd ek k sn (n0 + N.of_nat j')) \/
     (o = map RFrame (flat (firstn j' bs)) ++ [RErr] /\ r_closed st' = true)).
Proof. exact x_tamper_prefix_safety. Qed.

(* the first record that is not the next sealed one: nothing from it or after it is delivered, and as
   soon as its bytes are complete the receiver fails and closes *)
Theorem C18_tamper_detected : forall key (seal : key -> N -> bytes -> bytes) open, ideal_aead seal open ->
  forall m kd ek k sn n0 bs j rest cs,
  Forall (admitted m) (flat bs) -> ctr_room n0 (length bs) -> (j <= length bs)%nat ->
  Forall small (firstn j bs) -> wf_bytes (firstn 2 rest) = true ->
  (forall b, nth_error bs j = Some b -> ~ prefix (rec_wire key seal k (n0 + N.of_nat j) b) rest) ->
  unforged key seal k (sealed n0 bs) (concat (rec_wires key seal k n0 (firstn j bs)) ++ rest) ->
  concat cs = concat (rec_wires key seal k n0 (firstn j bs)) ++ rest ->
  let '(st', r, o) := feed (sstep key open m) (smu key) 0 (rcv key kd ek k sn n0) [] cs in
  if complete rest
  then o = map RFrame (flat (firstn j bs)) ++ [RErr] /\ r_closed st' = true
  else o = map RFrame (flat (firstn j bs)) /\ st' = rcv key kd ek k sn (n0 + N.of_nat j) /\ r = rest.
Proof. exact x_tamper_detected. Qed.

(* the same at the level of the engine's DeliverMessage actions: whole messages of a prefix of the batches *)
Theorem C18_tamper_messages : forall key (seal : key -> N -> bytes -> bytes) open, ideal_aead seal open ->
  forall m kd ek k sn n0 bs cs,
  Forall (admitted m) (flat bs) -> Forall wf_msg (all_msgs bs) -> ctr_room n0 (length bs) ->
  unforged key seal k (sealed n0 bs) (concat cs) ->
  let '(_, _, o) := feed (sstep key open m) (smu key) 0 (rcv key kd ek k sn n0) [] cs in
  exists j', (j' <= length bs)%nat /\
    (snd (data_fold d_init o) = map ODeliver (all_msgs (firstn j' bs)) \/
     snd (data_fold d_init o) = map ODeliver (all_msgs (firstn j' bs)) ++ [OErr ESecurity]).
Proof. exact x_tamper_messages. Qed.

(* no_cleartext (symbolic): a record is a length prefix computed from a length, followed by ONE seal
   output; the batch influences the wire only through that seal output *)
Theorem C18_no_cleartext : forall key (seal : key -> N -> bytes -> bytes) (c : cipher key) b w c',
  write_msg_batch key seal c b = (SOk w, c') ->
  w = be_bytes 2 (len (seal (c_ek c) (c_sn c) (enc_contiguous b)) mod U16) ++ seal (c_ek c) (c_sn c) (enc_contiguous b).
Proof. exact x_no_cleartext. Qed.
Theorem C18_no_cleartext_noninterference : forall key (seal : key -> N -> bytes -> bytes) open, ideal_aead seal open ->
  forall (c : cipher key) b1 b2,
  seal (c_ek c) (c_sn c) (enc_contiguous b1) = seal (c_ek c) (c_sn c) (enc_contiguous b2) ->
  write_msg_batch key seal c b1 = write_msg_batch key seal c b2.
Proof. exact x_no_cleartext_noninterference. Qed.

(* REFUTED (heartbeat_decodable): batches, a heartbeat PING (on_tick writes it outside the record layer),
   more batches (< 1024 bytes of records). The peer delivers what preceded the PING; the PING is read as
   the record length 0x0407 and it and everything after it stays in the buffer: no PONG, no delivery. *)
Theorem C18_heartbeat_decodable_refuted : forall key (seal : key -> N -> bytes -> bytes) open, ideal_aead seal open ->
  forall m kd ek k sn n bs1 ttl bs2 cs,
  Forall small bs1 -> Forall (admitted m) (flat bs1) -> ctr_room n (length bs1) ->
  len (concat (rec_wires key seal k (n + N.of_nat (length bs1)) bs2)) < 1024 ->
  concat cs = concat (rec_wires key seal k n bs1) ++ hb_ping ttl ++
              concat (rec_wires key seal k (n + N.of_nat (length bs1)) bs2) ->
  feed (sstep key open m) (smu key) 0 (rcv key kd ek k sn n) [] cs =
  (rcv key kd ek k sn (n + N.of_nat (length bs1)),
   hb_ping ttl ++ concat (rec_wires key seal k (n + N.of_nat (length bs1)) bs2),
   map RFrame (flat bs1)).
Proof. exact x_heartbeat_decodable_refuted. Qed.
(* the PING really is what on_tick emits, and without a PONG the next tick after the timeout closes *)
Theorem C18_heartbeat_ping_then_timeout : forall key (seal : key -> N -> bytes -> bytes) open, ideal_aead seal open ->
  forall cfg g t0 ivl T,
  e_phase (g_st g) = PData -> e_version (g_st g) = Some V3 ->
  c_hb_ivl cfg = Some ivl -> c_hb_timeout cfg = Some T ->
  h_waiting (g_hb g) = false -> ivl <= t0 - h_last_activity (g_hb g) ->
  let '(g1, o1) := e_tick cfg g t0 in
  o1 = [OSend (hb_ping (N.min (T / 1000000) u16_max)) false] /\
  forall t1, T <= t1 - t0 ->
    snd (e_tick cfg g1 t1) = [OErr ETimeout] /\ e_phase (g_st (fst (e_tick cfg g1 t1))) = PClosed.
Proof. exact x_ping_then_timeout. Qed.
(* a PING that arrived inside a record is answered by a PONG in clear, which the peer swallows likewise *)
Theorem C18_pong_in_clear : forall ttl ctx,
  data_on d_init (RFrame (cmd_frame (ping_body ttl ctx))) = (d_init, [OSend (hb_pong ctx) false]).
Proof. exact ping_answered_in_clear. Qed.
Theorem C18_pong_swallowed : forall key (seal : key -> N -> bytes -> bytes) open, ideal_aead seal open ->
  forall m kd ek k sn n ctx rest, len ctx <= 250 -> len rest < 1024 ->
  pump (sstep key open m) (smu key) 0 (rcv key kd ek k sn n) (hb_pong ctx ++ rest) =
  (rcv key kd ek k sn n, hb_pong ctx ++ rest, []).
Proof. exact x_pong_swallowed. Qed.

(* REFUTED (sessions_differ), CURVE: for ALL static keys, roles, ephemeral keys of two sessions and all
   batches, the first data record is byte-identical (keys from crypto_kx over the static keys only,
   counters restart at 1) *)
Theorem C18_sessions_differ_refuted : forall key (seal : key -> N -> bytes -> bytes)
  (statics eph : Type) (curve_kx : bool -> statics -> key * key) server sk (e1 e2 e1' e2' : eph) b,
  write_msg_batch key seal (curve_data_cipher key statics eph curve_kx server sk e1 e2) b =
  write_msg_batch key seal (curve_data_cipher key statics eph curve_kx server sk e1' e2') b.
Proof. exact x_sessions_differ_refuted. Qed.
(* Noise_XX: holds when distinct ephemerals give distinct transport keys and seal separates keys *)
Theorem C18_sessions_differ_noise : forall key (seal : key -> N -> bytes -> bytes) open, ideal_aead seal open ->
  forall (statics eph : Type) (noise_split : bool -> statics -> eph -> eph -> key * key) server sk
         (e1 e2 e1' e2' : eph) b,
  (forall k k' n p, seal k n p = seal k' n p -> k = k') ->
  snd (noise_split server sk e1 e2) <> snd (noise_split server sk e1' e2') -> small b ->
  fst (write_msg_batch key seal (noise_data_cipher key statics eph noise_split server sk e1 e2) b) <>
  fst (write_msg_batch key seal (noise_data_cipher key statics eph noise_split server sk e1' e2') b).
Proof. exact x_sessions_differ_noise. Qed.

(* non-vacuity: the toy AEAD satisfies the laws; a replayed record gives an unforged tampered stream on
   which the receiver delivers the first batch once and then fails; an honest two-batch stream cut in
   three pieces is decoded completely *)
Example C18_example :
  ideal_aead toy_seal toy_open /\
  unforged N toy_seal ex_key (sealed 1 [ex_b0; ex_b1]) (ex_w0 ++ ex_w0) /\
  snd (feed (sstep N toy_open (-1)) (smu N) 0 (rcv N KCurve 7 ex_key 1 1) [] [ex_w0; ex_w0]) =
    map RFrame (flat [ex_b0]) ++ [RErr] /\
  (let w := concat (rec_wires N toy_seal ex_key 1 [ex_b0; ex_b1]) in
   snd (feed (sstep N toy_open (-1)) (smu N) 0 (rcv N KCurve 7 ex_key 1 1) [] [firstn 1 w; firstn 30 (skipn 1 w); skipn 31 w]) =
     map RFrame (flat [ex_b0; ex_b1])).
Proof. split; [exact toy_ideal | split; [exact ex_replay_unforged | split; vm_compute; reflexivity]]. Qed.
