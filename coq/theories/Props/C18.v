(* C18 - encrypted connections (CURVE, NOISE_XX): secrecy on the wire, tamper detection, decodability.
   Only statements here; proofs live in Proofs/SecFramerProofs.v. Every theorem is relative to an
   ideal AEAD ([ideal_aead seal open]: open (seal p) = p, only seal outputs open, |seal p| = |p| + 16)
   given as an explicit premise; nothing is claimed about dryoc / snow themselves.
   The record layer seals the plaintext of a write call in chunks of <= 65519 bytes (seal_records, the
   repair of the `ciphertext.len() as u16` wrap that used to make CURVE batches above 65519 bytes
   undecodable and Noise refuse them): the round trip holds for every size.
   Two parts of the property still FAIL for the code as written and are stated as refutations:
     C18_heartbeat_decodable_refuted     (PING/PONG bypass the record layer)
     C18_sessions_differ_refuted         (CURVE data keys depend on the static keys only, counters restart at 1) *)
From RZ Require Import Base.Prelude Base.Stepper Model.Codec Model.Engine Model.SecFramer Proofs.CodecProofs Proofs.SecFramerProofs.
Local Open Scope N_scope.

(* try_read_msg is an append-stable stepper: decoding never depends on how the byte stream is cut *)
Theorem C18_chunk_independence : forall key (seal : key -> N -> bytes -> bytes) open, ideal_aead seal open ->
  forall m (c : cipher key) cs1 cs2, concat cs1 = concat cs2 -> recv_run key open m c cs1 = recv_run key open m c cs2.
Proof. exact x_chunk_independent. Qed.

(* what a sender really emits: every write call succeeds for every size (both mechanisms) and emits one
   record per 65519-byte chunk of the plaintext, counters +1 each *)
Theorem C18_sender_emits : forall key (seal : key -> N -> bytes -> bytes) open, ideal_aead seal open ->
  forall kd ek dk sn rn b, ctr_room sn (length (chunks (enc_contiguous b))) ->
  write_msg_batch key seal {| c_kind := kd; c_ek := ek; c_dk := dk; c_sn := sn; c_rn := rn |} b =
  (SOk (concat (chunk_wires key seal ek sn (chunks (enc_contiguous b)))),
   {| c_kind := kd; c_ek := ek; c_dk := dk; c_sn := sn + N.of_nat (length (chunks (enc_contiguous b))); c_rn := rn |}).
Proof. exact x_write_ok. Qed.
Theorem C18_sender_emits_all : forall key (seal : key -> N -> bytes -> bytes) open, ideal_aead seal open ->
  forall kd ek dk rn bs sn, ctr_room sn (length (all_chunks bs)) ->
  exists ws,
  send_all key seal {| c_kind := kd; c_ek := ek; c_dk := dk; c_sn := sn; c_rn := rn |} bs =
  (map SOk ws,
   {| c_kind := kd; c_ek := ek; c_dk := dk; c_sn := sn + N.of_nat (length (all_chunks bs)); c_rn := rn |}) /\
  concat ws = concat (chunk_wires key seal ek sn (all_chunks bs)).
Proof. exact x_send_all_ok. Qed.

(* enc_roundtrip_any_size: every sequence of batches of ANY size is decoded by the peer to the same frames,
   for every segmentation of the byte stream, CURVE and Noise alike *)
Theorem C18_enc_roundtrip_any_size : forall key (seal : key -> N -> bytes -> bytes) open, ideal_aead seal open ->
  forall m kd ek k sn n bs cs,
  Forall (admitted m) (flat bs) -> ctr_room n (length (all_chunks bs)) ->
  concat cs = concat (chunk_wires key seal k n (all_chunks bs)) ->
  feed (sstep key open m) (smu key) 0 (rcv key kd ek k sn n) [] cs =
    (rcv key kd ek k sn (n + N.of_nat (length (all_chunks bs))), [], map RFrame (flat bs)).
Proof. exact x_enc_roundtrip_any_size. Qed.

(* tamper_prefix_safety: for every sealed sequence (any sizes) and EVERY stream the attacker can build
   without forging a ciphertext (flip, drop, duplicate, swap, cut, inject), cut in any way, the receiver
   hands out a prefix [fs] of the frames that were sent - exactly those complete in the plaintext of the
   first j' records, in order, once - and then nothing, or one error after which it is closed *)
Theorem C18_tamper_prefix_safety : forall key (seal : key -> N -> bytes -> bytes) open, ideal_aead seal open ->
  forall m kd ek k sn n0 bs cs,
  Forall (admitted m) (flat bs) -> ctr_room n0 (length (all_chunks bs)) ->
  unforged key seal k (sealed n0 (all_chunks bs)) (concat cs) ->
  let '(st', _, o) := feed (sstep key open m) (smu key) 0 (rcv key kd ek k sn n0) [] cs in
  exists j' d' fs, (j' <= length (all_chunks bs))%nat /\
    PR m (concat (firstn j' (all_chunks bs))) d' fs /\ prefix fs (flat bs) /\
    ((o = map RFrame fs /\ st' = rcvd key kd ek k sn (n0 + N.of_nat j') d') \/
     (o = map RFrame fs ++ [RErr] /\ r_closed st' = true)).
Proof. exact x_tamper_prefix_safety. Qed.

(* the first record that is not the next sealed one: nothing that is not complete in the intact records
   before it is delivered, and as soon as its bytes are complete the receiver fails and closes *)
Theorem C18_tamper_detected : forall key (seal : key -> N -> bytes -> bytes) open, ideal_aead seal open ->
  forall m kd ek k sn n0 bs j rest cs,
  let chs := all_chunks bs in
  Forall (admitted m) (flat bs) -> ctr_room n0 (length chs) -> (j <= length chs)%nat ->
  wf_bytes (firstn 2 rest) = true ->
  (forall ch, nth_error chs j = Some ch -> ~ prefix (record_of (seal k (n0 + N.of_nat j) ch)) rest) ->
  unforged key seal k (sealed n0 chs) (concat (chunk_wires key seal k n0 (firstn j chs)) ++ rest) ->
  concat cs = concat (chunk_wires key seal k n0 (firstn j chs)) ++ rest ->
  exists dj fsj, PR m (concat (firstn j chs)) dj fsj /\ prefix fsj (flat bs) /\
  let '(st', r, o) := feed (sstep key open m) (smu key) 0 (rcv key kd ek k sn n0) [] cs in
  if complete rest
  then o = map RFrame fsj ++ [RErr] /\ r_closed st' = true
  else o = map RFrame fsj /\ st' = rcvd key kd ek k sn (n0 + N.of_nat j) dj /\ r = rest.
Proof. exact x_tamper_detected. Qed.

(* the same at the level of the engine's DeliverMessage actions: whole messages of a prefix of what was sent *)
Theorem C18_tamper_messages : forall key (seal : key -> N -> bytes -> bytes) open, ideal_aead seal open ->
  forall m kd ek k sn n0 bs cs,
  Forall (admitted m) (flat bs) -> Forall wf_msg (all_msgs bs) -> ctr_room n0 (length (all_chunks bs)) ->
  unforged key seal k (sealed n0 (all_chunks bs)) (concat cs) ->
  let '(_, _, o) := feed (sstep key open m) (smu key) 0 (rcv key kd ek k sn n0) [] cs in
  exists kk, (kk <= length (all_msgs bs))%nat /\
    (snd (data_fold d_init o) = map ODeliver (firstn kk (all_msgs bs)) \/
     snd (data_fold d_init o) = map ODeliver (firstn kk (all_msgs bs)) ++ [OErr ESecurity]).
Proof. exact x_tamper_messages. Qed.

(* no_cleartext (symbolic): what a write call emits is, per chunk of the plaintext, a length prefix
   computed from a length followed by ONE seal output; the batch influences the wire only through the
   seal outputs of its chunks *)
Theorem C18_no_cleartext : forall key (seal : key -> N -> bytes -> bytes) open, ideal_aead seal open ->
  forall (c : cipher key) b w c',
  write_msg_batch key seal c b = (SOk w, c') ->
  w = concat (chunk_wires key seal (c_ek c) (c_sn c) (chunks (enc_contiguous b))).
Proof. exact x_no_cleartext. Qed.
Theorem C18_no_cleartext_noninterference : forall key (seal : key -> N -> bytes -> bytes) open, ideal_aead seal open ->
  forall (c : cipher key) b1 b2,
  Forall2 (fun a b => forall n, seal (c_ek c) n a = seal (c_ek c) n b)
          (chunks (enc_contiguous b1)) (chunks (enc_contiguous b2)) ->
  write_msg_batch key seal c b1 = write_msg_batch key seal c b2.
Proof. exact x_no_cleartext_noninterference. Qed.

(* REFUTED (heartbeat_decodable): batches, a heartbeat PING (on_tick writes it outside the record layer),
   more batches (< 1024 bytes of records). The peer delivers what preceded the PING; the PING is read as
   the record length 0x0407 and it and everything after it stays in the buffer: no PONG, no delivery. *)
Theorem C18_heartbeat_decodable_refuted : forall key (seal : key -> N -> bytes -> bytes) open, ideal_aead seal open ->
  forall m kd ek k sn n bs1 ttl bs2 cs,
  let k1 := N.of_nat (length (all_chunks bs1)) in
  Forall (admitted m) (flat bs1) -> ctr_room n (length (all_chunks bs1)) ->
  len (concat (chunk_wires key seal k (n + k1) (all_chunks bs2))) < 1024 ->
  concat cs = concat (chunk_wires key seal k n (all_chunks bs1)) ++ hb_ping ttl ++
              concat (chunk_wires key seal k (n + k1) (all_chunks bs2)) ->
  feed (sstep key open m) (smu key) 0 (rcv key kd ek k sn n) [] cs =
  (rcv key kd ek k sn (n + k1),
   hb_ping ttl ++ concat (chunk_wires key seal k (n + k1) (all_chunks bs2)),
   map RFrame (flat bs1)).
Proof. exact x_heartbeat_decodable_refuted. Qed.
(* the PING really is what on_tick emits, and without a PONG the next tick after the timeout closes *)
Theorem C18_heartbeat_ping_then_timeout : forall key (seal : key -> N -> bytes -> bytes) open, ideal_aead seal open ->
  forall cfg g t0 ivl T,
  e_phase (g_st g) = PData -> e_version (g_st g) = Some V3 ->
  c_hb_ivl cfg = Some ivl -> c_hb_timeout cfg = Some T ->
  h_waiting (g_hb g) = false -> ivl <= t0 - h_last_activity (g_hb g) ->
  let '(g1, o1) := e_tick cfg g t0 in
  o1 = [OSend (hb_ping (N.min (T / 1000000) u16_max)) false] /\
  forall t1, T <= t1 - t0 ->
    snd (e_tick cfg g1 t1) = [OErr ETimeout] /\ e_phase (g_st (fst (e_tick cfg g1 t1))) = PClosed.
Proof. exact x_ping_then_timeout. Qed.
(* a PING that arrived inside a record is answered by a PONG in clear, which the peer swallows likewise *)
Theorem C18_pong_in_clear : forall ttl ctx,
  data_on d_init (RFrame (cmd_frame (ping_body ttl ctx))) = (d_init, [OSend (hb_pong ctx) false]).
Proof. exact ping_answered_in_clear. Qed.
Theorem C18_pong_swallowed : forall key (seal : key -> N -> bytes -> bytes) open, ideal_aead seal open ->
  forall m kd ek k sn n d ctx rest, len ctx <= 250 -> len rest < 1024 ->
  pump (sstep key open m) (smu key) 0 (rcvd key kd ek k sn n d) (hb_pong ctx ++ rest) =
  (rcvd key kd ek k sn n d, hb_pong ctx ++ rest, []).
Proof. exact x_pong_swallowed. Qed.

(* REFUTED (sessions_differ), CURVE: for ALL static keys, roles, ephemeral keys of two sessions and all
   batches, the first data record is byte-identical (keys from crypto_kx over the static keys only,
   counters restart at 1) *)
Theorem C18_sessions_differ_refuted : forall key (seal : key -> N -> bytes -> bytes)
  (statics eph : Type) (curve_kx : bool -> statics -> key * key) server sk (e1 e2 e1' e2' : eph) b,
  write_msg_batch key seal (curve_data_cipher key statics eph curve_kx server sk e1 e2) b =
  write_msg_batch key seal (curve_data_cipher key statics eph curve_kx server sk e1' e2') b.
Proof. exact x_sessions_differ_refuted. Qed.
(* Noise_XX: holds when distinct ephemerals give distinct transport keys and seal separates keys *)
Theorem C18_sessions_differ_noise : forall key (seal : key -> N -> bytes -> bytes) open, ideal_aead seal open ->
  forall (statics eph : Type) (curve_kx : bool -> statics -> key * key)
         (noise_split : bool -> statics -> eph -> eph -> key * key) server sk
         (e1 e2 e1' e2' : eph) b,
  (forall k k' n p, seal k n p = seal k' n p -> k = k') ->
  snd (noise_split server sk e1 e2) <> snd (noise_split server sk e1' e2') ->
  enc_contiguous b <> [] -> ctr_room 0 (length (chunks (enc_contiguous b))) ->
  fst (write_msg_batch key seal (noise_data_cipher key statics eph noise_split server sk e1 e2) b) <>
  fst (write_msg_batch key seal (noise_data_cipher key statics eph noise_split server sk e1' e2') b).
Proof. exact x_sessions_differ_noise. Qed.

(* non-vacuity: the toy AEAD satisfies the laws; a replayed record gives an unforged tampered stream on
   which the receiver delivers the first batch once and then fails; an honest stream with a 70000-byte
   frame (two records) between two small batches, cut in three pieces, is decoded completely *)
(* reflection: an endpoint never accepts one of ITS OWN records as the peer's, whatever the counters are (e.g. aligned
   after a symmetric exchange) - provided its two directions use different keys and the idealised AEAD separates keys *)
Theorem C18_reflection_rejected : forall key (seal : key -> N -> bytes -> bytes) open,
  (forall k n c p, open k n c = Some p -> c = seal k n p) ->
  (forall k n p k' n' p', seal k n p = seal k' n' p' -> k = k') ->
  forall (c : cipher key) n pt, c_ek c <> c_dk c ->
  forall p c', decrypt key open c (seal (c_ek c) n pt) <> DcOk p c'.
Proof. exact reflection_rejected. Qed.
(* the same key for both directions (CURVE: shared nonce prefix, counters starting at 1) accepts it *)
Theorem C18_reflection_accepted_with_one_key_refuted : forall key (seal : key -> N -> bytes -> bytes) open,
  (forall k n p, open k n (seal k n p) = Some p) -> (forall k n p, len (seal k n p) = len p + TAG) ->
  forall (c : cipher key) pt, c_kind c = KCurve -> c_ek c = c_dk c -> ctr_ok (c_rn c) = true ->
  decrypt key open c (seal (c_ek c) (c_rn c) pt) = DcOk pt (set_rn c (c_rn c + 1)).
Proof. intros key seal open H1 H2. exact (reflection_accepted_with_one_key_refuted key seal open H1 H2). Qed.

Example C18_example :
  ideal_aead toy_seal toy_open /\
  unforged N toy_seal ex_key (sealed 1 (all_chunks [ex_b0; ex_b1])) (ex_w0 ++ ex_w0) /\
  snd (feed (sstep N toy_open (-1)) (smu N) 0 (rcv N KCurve 7 ex_key 1 1) [] [ex_w0; ex_w0]) =
    map RFrame (flat [ex_b0]) ++ [RErr] /\
  length (all_chunks [ex_b0; ex_big; ex_b1]) = 4%nat /\
  (let w := concat (chunk_wires N toy_seal ex_key 1 (all_chunks [ex_b0; ex_big; ex_b1])) in
   map rsum (snd (feed (sstep N toy_open (-1)) (smu N) 0 (rcv N KCurve 7 ex_key 1 1) []
                        [firstn 1 w; firstn (N.to_nat 66000) (skipn 1 w); skipn (N.to_nat 66001) w])) =
   map rsum (map RFrame (flat [ex_b0; ex_big; ex_b1]))).
Proof.
  split; [exact toy_ideal|]. split; [exact ex_replay_unforged|].
  split; [vm_compute; reflexivity|]. split; [vm_compute; reflexivity|]. vm_compute. reflexivity.
Qed.
