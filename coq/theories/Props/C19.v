(* C19 - heartbeats detect dead peers and never kill live ones (engine timing logic). *)
From RZ Require Import Base.Prelude Base.Stepper Model.Codec Proofs.CodecProofs Model.Engine
  Proofs.EngineProofs Proofs.EngineHeartbeat Model.HbActor Proofs.HbActorProofs.
Local Open Scope N_scope.

(* the complete decision rule of on_tick, for every configuration, state and time *)
Theorem C19_tick_rule : forall cfg g now, hb_active g ->
  e_tick cfg g now =
    if timed_out cfg g now then
      ({| g_st := closed (g_st g); g_acc := g_acc g; g_hb := g_hb g |}, [OErr ETimeout])
    else if ping_due cfg g now then
      ({| g_st := g_st g; g_acc := g_acc g;
          g_hb := {| h_last_activity := h_last_activity (g_hb g); h_last_ping := Some now; h_waiting := true |} |},
       [ping_out cfg])
    else (g, []).
Proof. exact tick_rule. Qed.
Theorem C19_tick_inactive : forall cfg g now, ~ hb_active g -> e_tick cfg g now = (g, []).
Proof. exact tick_inactive. Qed.

(* a PING is sent no sooner than HEARTBEAT_IVL after the last activity, and only if none is outstanding *)
Theorem C19_ping_not_early : forall cfg g now x,
  In x (snd (e_tick cfg g now)) -> (exists b z, x = OSend b z) ->
  exists ivl, c_hb_ivl cfg = Some ivl /\ h_waiting (g_hb g) = false /\ ivl <= now - h_last_activity (g_hb g).
Proof. exact ping_not_early. Qed.

(* ... and no later than two intervals after it, when ticks come at most one interval apart *)
Theorem C19_ping_within_two_ivl : forall cfg g prev now ivl,
  hb_active g -> c_hb_ivl cfg = Some ivl -> h_waiting (g_hb g) = false -> timed_out cfg g now = false ->
  prev < h_last_activity (g_hb g) + ivl -> now <= prev + ivl -> h_last_activity (g_hb g) + ivl <= now ->
  snd (e_tick cfg g now) = [ping_out cfg] /\ now < h_last_activity (g_hb g) + 2 * ivl.
Proof. exact ping_within_two_ivl. Qed.

(* no PONG within HEARTBEAT_TIMEOUT of the PING: closed with Timeout at the next tick *)
Theorem C19_dead_peer_closed : forall cfg g now t p,
  hb_active g -> c_hb_timeout cfg = Some t -> h_waiting (g_hb g) = true -> h_last_ping (g_hb g) = Some p ->
  p + t <= now ->
  snd (e_tick cfg g now) = [OErr ETimeout] /\ e_phase (g_st (fst (e_tick cfg g now))) = PClosed.
Proof. exact dead_peer_closed. Qed.

(* ... at trace level: whatever else happens after the PING at p - outbound writes (which refresh the activity
   stamp), application sends, inbound frames that are not a PONG, earlier ticks - the first tick at or after
   p + HEARTBEAT_TIMEOUT closes the connection; the deadline is anchored at the PING, not at the last activity *)
Theorem C19_dead_peer_closed_despite_traffic : forall cfg t p now is g,
  c_hb_timeout cfg = Some t -> h_waiting (g_hb g) = true -> h_last_ping (g_hb g) = Some p ->
  unanswered_run cfg g is = true ->
  hb_active (fst (e_run cfg g is)) -> p + t <= now ->
  snd (e_tick cfg (fst (e_run cfg g is)) now) = [OErr ETimeout] /\
  e_phase (g_st (fst (e_tick cfg (fst (e_run cfg g is)) now))) = PClosed.
Proof. exact dead_peer_closed_despite_traffic. Qed.
(* outbound writes refresh the activity stamp and nothing else; no PING sooner than one interval after a write *)
Theorem C19_wrote_only_refreshes_activity : forall cfg g w,
  let g' := fst (e_wrote cfg g w) in
  g_st g' = g_st g /\ g_acc g' = g_acc g /\ h_last_activity (g_hb g') = w /\
  h_last_ping (g_hb g') = h_last_ping (g_hb g) /\ h_waiting (g_hb g') = h_waiting (g_hb g) /\
  snd (e_wrote cfg g w) = [].
Proof. exact wrote_only_refreshes_activity. Qed.
Theorem C19_ping_not_early_after_write : forall cfg g w now x,
  In x (snd (e_tick cfg (fst (e_wrote cfg g w)) now)) -> (exists b z, x = OSend b z) ->
  exists ivl, c_hb_ivl cfg = Some ivl /\ ivl <= now - w.
Proof. exact ping_not_early_after_write. Qed.
(* the session's backstop timer (get_pong_deadline) is PING time + timeout and is not moved by writes *)
Theorem C19_pong_deadline_from_ping : forall cfg g p,
  h_waiting (g_hb g) = true -> h_last_ping (g_hb g) = Some p ->
  e_pong_deadline cfg g = Some (p + match c_hb_timeout cfg with Some t => t | None => 30000000000 end).
Proof. exact pong_deadline_from_ping. Qed.
Theorem C19_pong_deadline_ignores_writes : forall cfg g w,
  e_pong_deadline cfg (fst (e_wrote cfg g w)) = e_pong_deadline cfg g.
Proof. exact pong_deadline_ignores_writes. Qed.

(* the heartbeat logic closes a connection ONLY when a PING has been outstanding for the timeout ... *)
Theorem C19_timeout_only_when_unanswered : forall cfg g now,
  In (OErr ETimeout) (snd (e_tick cfg g now)) ->
  exists t p, c_hb_timeout cfg = Some t /\ h_waiting (g_hb g) = true /\ h_last_ping (g_hb g) = Some p /\ t <= now - p.
Proof. exact timeout_only_when_unanswered. Qed.
(* ... so a peer whose PONGs arrive before each deadline is never disconnected, over any input history *)
Theorem C19_live_peer_safe : forall cfg is g,
  answered_run cfg g is = true -> Forall no_to (snd (e_run cfg g is)).
Proof. exact live_peer_safe. Qed.
Theorem C19_pong_clears_waiting : forall cfg g d now st r o,
  pump (estep cfg) emu EMU_MAX (g_st g) (g_acc g ++ d) = (st, r, o) -> has_pong o = true ->
  h_waiting (g_hb (fst (e_net cfg g d now))) = false.
Proof. exact pong_clears_waiting. Qed.
(* ... nor is one on which traffic keeps flowing *)
Theorem C19_traffic_keeps_alive : forall cfg g now ivl,
  c_hb_ivl cfg = Some ivl -> h_waiting (g_hb g) = false -> now - h_last_activity (g_hb g) < ivl ->
  e_tick cfg g now = (g, []).
Proof. exact traffic_keeps_alive. Qed.

(* ---------- the session actor's two timers around the engine (Model/HbActor.v) ---------- *)
(* the session gives up with Timeout only at a tick or at its backstop timer, and only when a PING has been
   outstanding for the whole window (HEARTBEAT_TIMEOUT; 30 s for the backstop when the option is unset) *)
Theorem C19_session_timeout_not_early : forall cfg s e,
  a_fatal s = None -> a_fatal (fst (a_step cfg s e)) = Some ETimeout ->
  exists now p, (e = ATick now \/ e = ADeadline now) /\
    h_waiting (g_hb (a_eng s)) = true /\ h_last_ping (g_hb (a_eng s)) = Some p /\
    (match e with ATick _ => exists t, c_hb_timeout cfg = Some t /\ t <= now - p | _ => hb_window cfg <= now - p end).
Proof. exact a_timeout_not_early. Qed.
Theorem C19_session_dead_peer_closed_at_deadline : forall cfg s p now,
  a_fatal s = None -> h_waiting (g_hb (a_eng s)) = true -> h_last_ping (g_hb (a_eng s)) = Some p ->
  p + hb_window cfg <= now ->
  a_fatal (fst (a_step cfg s (ADeadline now))) = Some ETimeout /\ snd (a_step cfg s (ADeadline now)) = [OErr ETimeout].
Proof. exact a_dead_peer_closed_at_deadline. Qed.
Theorem C19_session_deadline_not_due : forall cfg s p now,
  a_fatal s = None -> h_waiting (g_hb (a_eng s)) = true -> h_last_ping (g_hb (a_eng s)) = Some p ->
  now < p + hb_window cfg -> a_step cfg s (ADeadline now) = (s, []).
Proof. exact a_deadline_not_due. Qed.
Theorem C19_session_dead_peer_closed_at_tick : forall cfg s t p now,
  a_fatal s = None -> hb_active (a_eng s) -> c_hb_timeout cfg = Some t ->
  h_waiting (g_hb (a_eng s)) = true -> h_last_ping (g_hb (a_eng s)) = Some p -> p + t <= now ->
  a_fatal (fst (a_step cfg s (ATick now))) = Some ETimeout.
Proof. exact a_dead_peer_closed_at_tick. Qed.
(* whatever happens after the PING at p - local writes, inbound frames that are not a PONG, ticks and backstop polls
   before their deadlines - the session is over (for whatever reason) once the backstop is polled at or after
   p + window: the window is anchored at the PING, not at the last activity *)
Theorem C19_session_dead_peer_closed_despite_traffic : forall cfg p now es s,
  a_fatal s = None -> h_waiting (g_hb (a_eng s)) = true -> h_last_ping (g_hb (a_eng s)) = Some p ->
  a_unanswered_run cfg s es = true -> p + hb_window cfg <= now ->
  a_fatal (fst (a_run cfg s (es ++ [ADeadline now]))) <> None.
Proof. exact a_dead_peer_closed_despite_traffic. Qed.

(* every PING is answered by a PONG with the same context bytes, as its own frame *)
Theorem C19_pong_echoes_context : forall cfg st ttl ctx rest,
  e_phase st = PData -> e_version st <> Some V2 ->
  admitted (c_maxsz cfg) (cmd_frame (ping_body ttl ctx)) ->
  estep cfg st (enc_codec (cmd_frame (ping_body ttl ctx)) ++ rest) =
  Step st (length (enc_codec (cmd_frame (ping_body ttl ctx))))
       [OActivity; OSend (enc_codec (cmd_frame (pong_body ctx))) false].
Proof. exact pong_echoes_context. Qed.
Theorem C19_malformed_ping_ignored : forall cfg st short rest,
  e_phase st = PData -> e_version st <> Some V2 -> (length short < 2)%nat ->
  admitted (c_maxsz cfg) (cmd_frame ((4 :: s_PING) ++ short)) ->
  estep cfg st (enc_codec (cmd_frame ((4 :: s_PING) ++ short)) ++ rest) =
  Step st (length (enc_codec (cmd_frame ((4 :: s_PING) ++ short)))) [OActivity].
Proof. exact malformed_ping_ignored. Qed.

(* no heartbeat is ever sent on a ZMTP/2.0 session *)
Theorem C19_v2_never_pings : forall cfg g now, e_version (g_st g) = Some V2 -> e_tick cfg g now = (g, []).
Proof. exact v2_never_pings. Qed.

Example C19_example :
  let cfg := {| c_server := true; c_stype := s_PULL; c_rid := None; c_sec_enabled := false; c_allow_v2 := true;
                c_use_plain := false; c_use_curve := false; c_use_noise := false; c_plain_user := None;
                c_plain_pass := None; c_opaque_ok := false; c_hb_ivl := Some 1000; c_hb_timeout := Some 500;
                c_cork := false; c_zc := false; c_maxsz := (-1)%Z |} in
  let hs := (255 :: repeat 0 8 ++ [127; 3; 0] ++ mech_field s_NULL ++ [0] ++ repeat 0 31) ++
            enc_codec (cmd_frame ((5 :: s_READY) ++ enc_prop s_SocketType s_PUSH)) in
  let '(g, os) := e_run cfg (e_new 0) [INet hs 0; ITick 500; ITick 1200; ITick 1500; ITick 1800] in
  hb_active (fst (e_run cfg (e_new 0) [INet hs 0])) /\
  map (fun o => length o) os = [4; 0; 1; 0; 1]%nat /\ e_phase (g_st g) = PClosed.
Proof. vm_compute. repeat split; try reflexivity; congruence. Qed.

Example C19_example_writes :
  let cfg := {| c_server := true; c_stype := s_PULL; c_rid := None; c_sec_enabled := false; c_allow_v2 := true;
                c_use_plain := false; c_use_curve := false; c_use_noise := false; c_plain_user := None;
                c_plain_pass := None; c_opaque_ok := false; c_hb_ivl := Some 1000; c_hb_timeout := Some 500;
                c_cork := false; c_zc := false; c_maxsz := (-1)%Z |} in
  let hs := (255 :: repeat 0 8 ++ [127; 3; 0] ++ mech_field s_NULL ++ [0] ++ repeat 0 31) ++
            enc_codec (cmd_frame ((5 :: s_READY) ++ enc_prop s_SocketType s_PUSH)) in
  let g1 := fst (e_run cfg (e_new 0) [INet hs 0; ITick 1200]) in
  h_waiting (g_hb g1) = true /\ h_last_ping (g_hb g1) = Some 1200 /\
  unanswered_run cfg g1 [IWrote 1300; IWrote 1500; ITick 1600; IWrote 1650] = true /\
  hb_active (fst (e_run cfg g1 [IWrote 1300; IWrote 1500; ITick 1600; IWrote 1650])) /\
  e_pong_deadline cfg (fst (e_run cfg g1 [IWrote 1300; IWrote 1500; ITick 1600; IWrote 1650])) = Some 1700.
Proof. vm_compute. repeat split; try reflexivity; congruence. Qed.

Example C19_example_session :
  let cfg := {| c_server := true; c_stype := s_PULL; c_rid := None; c_sec_enabled := false; c_allow_v2 := true;
                c_use_plain := false; c_use_curve := false; c_use_noise := false; c_plain_user := None;
                c_plain_pass := None; c_opaque_ok := false; c_hb_ivl := Some 1000; c_hb_timeout := Some 500;
                c_cork := false; c_zc := false; c_maxsz := (-1)%Z |} in
  let hs := (255 :: repeat 0 8 ++ [127; 3; 0] ++ mech_field s_NULL ++ [0] ++ repeat 0 31) ++
            enc_codec (cmd_frame ((5 :: s_READY) ++ enc_prop s_SocketType s_PUSH)) in
  let s1 := fst (a_run cfg (a_new 0) [ANet hs 0; ATick 1200; AWrote 1201]) in
  let tr := [AWrote 1300; ADeadline 1650; AWrote 1680; ATick 1690] in
  a_fatal s1 = None /\ h_last_ping (g_hb (a_eng s1)) = Some 1200 /\ a_unanswered_run cfg s1 tr = true /\
  a_fatal (fst (a_run cfg s1 tr)) = None /\
  a_fatal (fst (a_run cfg s1 (tr ++ [ADeadline 1700]))) = Some ETimeout.
Proof. vm_compute. repeat split; reflexivity. Qed.

(* ---- HEARTBEAT_IVL / HEARTBEAT_TIMEOUT as the application sets them (option layer, Model/Options.v) ---- *)
From RZ Require Import Model.Options Proofs.OptionsProofs.
(* 0 switches heartbeating off, v > 0 is v ms, negatives and wrong lengths are refused under the option's id *)
Theorem C19_heartbeat_option_semantics : forall (o : opts) (b : bytes), (match apply_opt o HEARTBEAT_IVL b with | inl o' => exists v, i32_of b = Some v /\ 0 <= v /\ heartbeat_ivl_of o' = ivl_decode v /\ (forall g, g <> F_heartbeat_ivl -> o' g = o g) | inr e => e = EVal HEARTBEAT_IVL /\ (i32_of b = None \/ exists v, i32_of b = Some v /\ v < 0) end)%Z /\ (match apply_opt o HEARTBEAT_TIMEOUT b with | inl o' => exists v, i32_of b = Some v /\ 0 <= v /\ heartbeat_timeout_of o' = ivl_decode v /\ (forall g, g <> F_heartbeat_timeout -> o' g = o g) | inr e => e = EVal HEARTBEAT_TIMEOUT /\ (i32_of b = None \/ exists v, i32_of b = Some v /\ v < 0) end)%Z.
Proof. exact heartbeat_semantics. Qed.
(* composed with the engine (whose configuration copies the option, Model/EngineCfg.v; engine time is nanoseconds) *)
From RZ Require Import Model.EngineCfg Proofs.OptionsEngine.
Theorem C19_heartbeat_option_ping_not_early : forall (o : opts) (d : Z) cfg g now x, (0 < d <= 2147483647)%Z -> exists o', apply_opt o HEARTBEAT_IVL (i32_bytes d) = inl o' /\ (c_hb_ivl cfg = ms_to_ns (cfg_heartbeat_ivl o') -> In x (snd (e_tick cfg g now)) -> (exists b z, x = OSend b z) -> h_waiting (g_hb g) = false /\ Z.to_N d * 1000000 <= now - h_last_activity (g_hb g)).
Proof. exact heartbeat_option_ping_not_early. Qed.
Theorem C19_heartbeat_option_zero_never_pings : forall (o : opts) cfg g now x, exists o', apply_opt o HEARTBEAT_IVL (i32_bytes 0) = inl o' /\ (c_hb_ivl cfg = ms_to_ns (cfg_heartbeat_ivl o') -> In x (snd (e_tick cfg g now)) -> ~ exists b z, x = OSend b z).
Proof. exact heartbeat_option_zero_never_pings. Qed.
(* the interval options read back as written, 0 (= off) included *)
Theorem C19_heartbeat_option_get_after_set : forall (o : opts) (v : Z), (0 <= v <= 2147483647)%Z -> (exists o', apply_opt o HEARTBEAT_IVL (i32_bytes v) = inl o' /\ retrieve_opt o' HEARTBEAT_IVL = GOk (i32_bytes v)) /\ (exists o', apply_opt o HEARTBEAT_TIMEOUT (i32_bytes v) = inl o' /\ retrieve_opt o' HEARTBEAT_TIMEOUT = GOk (i32_bytes v)) /\ (exists o', apply_opt o HANDSHAKE_IVL (i32_bytes v) = inl o' /\ retrieve_opt o' HANDSHAKE_IVL = GOk (i32_bytes v)).
Proof. exact heartbeat_get_after_set. Qed.
