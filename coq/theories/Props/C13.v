(* C13 - PUSH and DEALER hand every message to exactly one connected peer, rotating round-robin
   over the peers that can currently accept it; nobody that keeps accepting is starved; peers join
   and leave mid-stream without a message being sent twice; a send waiting for a first peer
   proceeds once one has connected.
   Only statements here; proofs live in Proofs/BalancerProofs.v, RouteProofs.v, LbWaitProofs.v. *)
From RZ Require Import Base.Prelude Model.Balancer Model.Route Model.LbWait.
From RZ Require Import Proofs.BalancerProofs Proofs.RouteProofs Proofs.LbWaitProofs.

(* ---- LoadBalancer: cursor and list, over every history of add / remove / get_next ---- *)
Theorem C13_idx_in_range : forall ops, inv (brun ops bal0).
Proof. exact idx_in_range. Qed.
Theorem C13_peers_nodup : forall ops, NoDup (peers (brun ops bal0)).
Proof. exact peers_nodup. Qed.
(* so the `next_idx >= len` reset of get_next_connection is never taken *)
Theorem C13_reset_branch_dead : forall b, inv b -> peers b <> [] ->
  get_next b = (Some (nth (next_idx b) (peers b) 0%N), mkBal (peers b) ((next_idx b + 1) mod length (peers b))).
Proof. exact get_next_no_reset. Qed.

(* no membership change: k passes hand out the peers k times each, in cyclic list order from the cursor *)
Theorem C13_rr_cycle : forall k b, inv b ->
  picks (k * length (peers b)) b = (concat (repeat (view b) k), b).
Proof. exact rr_cycle. Qed.
Theorem C13_rr_cycle_counts : forall k b p, inv b -> NoDup (peers b) -> In p (peers b) ->
  count_occ N.eq_dec (fst (picks (k * length (peers b)) b)) p = k.
Proof. exact rr_cycle_counts. Qed.

(* remove: the upcoming turn order is the old one with u deleted (no skip, no double turn) *)
Theorem C13_remove_keeps_order : forall u b, inv b -> NoDup (peers b) ->
  view (remove u b) = filter (fun x => negb (N.eqb x u)) (view b).
Proof. exact remove_view. Qed.
Theorem C13_remove_keeps_successor : forall u b, inv b -> NoDup (peers b) ->
  fst (get_next b) <> Some u -> fst (get_next (remove u b)) = fst (get_next b).
Proof. exact remove_keeps_successor_other. Qed.
Theorem C13_remove_next_gives_successor : forall u s rest b, inv b -> NoDup (peers b) ->
  view b = u :: s :: rest -> fst (get_next (remove u b)) = Some s.
Proof. exact remove_keeps_successor_self. Qed.
Theorem C13_remove_last_peer : forall u b, inv b -> view b = [u] -> remove u b = bal0.
Proof. exact remove_last_peer. Qed.

(* add: joins at the end of the list, cursor untouched; a known uri is a no-op *)
Theorem C13_add_joins_end : forall u b, inv b -> ~ In u (peers b) ->
  peers (add u b) = peers b ++ [u] /\ next_idx (add u b) = next_idx b /\
  view (add u b) = skipn (next_idx b) (peers b) ++ u :: firstn (next_idx b) (peers b).
Proof. exact add_joins_end. Qed.
Theorem C13_add_dup_noop : forall u b, In u (peers b) -> add u b = b.
Proof. exact add_dup_noop. Qed.
Theorem C13_add_keeps_next : forall u b, inv b -> peers b <> [] ->
  fst (get_next (add u b)) = fst (get_next b).
Proof. exact add_keeps_next. Qed.

(* ---- routing: one call, any stale count, any readiness, any membership interference ---- *)
Theorem C13_route_exactly_one_sync : forall cnt o b t, one_spec (try_route_sync_with cnt o b t).
Proof. exact try_route_sync_one. Qed.
Theorem C13_route_exactly_one_msg : forall cnt o w b t, one_spec (route_message_with cnt o w b t).
Proof. exact route_message_one. Qed.
Theorem C13_route_accept_count : forall r, one_spec r ->
  accepts (r_log r) = match r_out r with Delivered _ | DeliveredSlow _ => 1 | _ => 0 end.
Proof. exact one_spec_accepts. Qed.
Theorem C13_route_log_faithful : forall cnt o w b t,
  let r1 := try_route_sync_with cnt o b t in
  let r2 := route_message_with cnt o w b t in
  faithful o t (r_log r1) /\ r_time r1 = t + length (r_log r1) /\
  faithful o t (r_log r2) /\ r_time r2 = t + length (r_log r2).
Proof. exact route_log_faithful. Qed.
Theorem C13_route_keeps_invariants : forall cnt o w b t, good b ->
  good (r_bal (try_route_sync_with cnt o b t)) /\ good (r_bal (route_message_with cnt o w b t)).
Proof. exact route_keeps_invariants. Qed.
(* the blocking send is reached only after max(count,1) full answers; try_route_sync never blocks *)
Theorem C13_slow_only_after_full_sweep : forall cnt o w b t,
  let r := route_message_with cnt o w b t in
  (all_fast (r_log r) /\ length (r_log r) <= Nat.max cnt 1) \/
  (exists pre a, r_log r = pre ++ [a] /\ at_slow a = true /\ all_fast pre /\ all_full pre /\
                 length pre = Nat.max cnt 1).
Proof. exact slow_only_after_full_sweep. Qed.
Theorem C13_sync_never_blocks : forall cnt o b t,
  let r := try_route_sync_with cnt o b t in all_fast (r_log r) /\ length (r_log r) <= cnt.
Proof. exact sync_never_blocks. Qed.

(* ---- sweeps without interference ---- *)
Theorem C13_sweep_stops_at_first_nonfull : forall o, (forall t, o_env o t = []) ->
  forall w b t pre q post,
  inv b -> view b = pre ++ q :: post -> all_full_at o t pre -> o_fast o (t + length pre) q <> Full ->
  let ans := o_fast o (t + length pre) q in
  let log := full_atts t pre ++ [mkAtt (t + length pre) q false ans] in
  let b' := snd (picks (S (length pre)) b) in
  inv b' /\ peers b' = peers b /\ view b' = post ++ pre ++ [q] /\
  try_route_sync o b t = mkRes (fast_outcome true ans q) log b' (S (t + length pre)) /\
  route_message o w b t = mkRes (fast_outcome false ans q) log b' (S (t + length pre)).
Proof. exact sweep_stops_at_first_nonfull. Qed.
Theorem C13_route_skips_full : forall o, (forall t, o_env o t = []) ->
  forall w b t pre q post,
  inv b -> view b = pre ++ q :: post -> all_full_at o t pre -> o_fast o (t + length pre) q = Accept ->
  r_out (try_route_sync o b t) = Delivered q /\ r_out (route_message o w b t) = Delivered q /\
  all_fast (r_log (route_message o w b t)).
Proof. exact route_skips_full. Qed.
Theorem C13_sweep_all_full : forall o, (forall t, o_env o t = []) ->
  forall w b t v,
  inv b -> view b = v -> v <> [] -> all_full_at o t v ->
  try_route_sync o b t = mkRes Returned (full_atts t v) b (t + length v) /\
  exists q rest b', v = q :: rest /\ inv b' /\ peers b' = peers b /\ view b' = rest ++ [q] /\
    let ans := o_slow o (t + length v) q in
    route_message o w b t =
    mkRes (match ans with Accept => DeliveredSlow q | Full => Returned | Closed => Dropped q end)
          (full_atts t v ++ [mkAtt (t + length v) q true ans]) b' (S (S (t + length v - 1))).
Proof. exact sweep_all_full. Qed.

(* ---- fairness over runs of messages ---- *)
Theorem C13_route_no_starvation : forall o, (forall t, o_env o t = []) ->
  forall p, (forall t, o_fast o t p = Accept) ->
  forall c1 win c2 b t, inv b -> In p (peers b) -> length win = length (peers b) ->
  exists r, In r (firstn (length win) (skipn (length c1) (run_calls o (c1 ++ win ++ c2) b t))) /\
            r_out r = Delivered p.
Proof. exact route_no_starvation. Qed.
Theorem C13_starvation_bound_tight :
  exists o b cs, (forall t, o_env o t = []) /\ (forall t q, o_fast o t q = Accept) /\ inv b /\ In 2%N (peers b) /\
    S (length cs) = length (peers b) /\
    forall r, In r (run_calls o cs b 0) -> r_out r <> Delivered 2%N.
Proof. exact starvation_bound_tight. Qed.
(* when every peer is full the sender waits on ONE peer, whatever the others do meanwhile *)
Theorem C13_route_waits_on_any_refuted :
  exists o b, (forall t, o_env o t = []) /\ inv b /\ peers b = [0; 1]%N /\
    (forall t, 2 <= t -> o_fast o t 1%N = Accept /\ o_slow o t 1%N = Accept) /\
    r_out (route_message o false b 0) = Dropped 0%N.
Proof. exact route_waits_on_any_refuted. Qed.

(* DEALER (send_logical_message over route_message), for every behaviour of the peers: Ok = exactly
   one peer has the message; queued = nobody has it and it is queued intact; error = nobody has it.
   (Before the fix: commit an error other than "full" queued an EMPTY batch and answered Ok.) *)
Theorem C13_dealer_send_sound : forall o b t,
  let '(r, a) := dealer_send o b t in
  match a with
  | AnsOk => accepts (r_log r) = 1
  | AnsQueued => accepts (r_log r) = 0 /\ r_out r = Returned
  | AnsErr => accepts (r_log r) = 0
  end.
Proof. exact dealer_send_sound. Qed.

(* ---- wait_for_connection against add_connection / remove_connection / deactivate ----
   `w0 true` is the code after the fix: commit (future created before the checks); `w0 false` is the
   order at the pinned commit, kept as the refuted witness. *)
Theorem C13_wait_lost_wakeup_refuted :
  exists xs, lost (srun xs (w0 false)) = true /\ wstep (srun xs (w0 false)) = None.
Proof. exact wait_lost_wakeup_refuted. Qed.
Theorem C13_wait_lost_stays_lost : forall s e, lost s = true ->
  match e with EAdd u => In u (peers (w_bal s)) | ERemove _ => False | EDeact => False end ->
  lost (estep s e) = true.
Proof. exact lost_stays_lost. Qed.
Theorem C13_wait_safe_outside : forall xs, gap_free (w0 false) xs -> lost (srun xs (w0 false)) = false.
Proof. exact wait_safe_outside. Qed.
Theorem C13_wait_fixed_safe : forall xs, lost (srun xs (w0 true)) = false.
Proof. exact wait_fixed_safe. Qed.
(* ... with any number of tasks waiting at once (sends from several tasks on a peerless socket): none of them is left
   asleep next to a connected peer, for every interleaving (notify_waiters wakes every existing Notified future) *)
Theorem C13_wait_all_waiters_safe : forall n xs i, (i < n)%nat -> mlost (mrun xs (mw0 n)) i = false.
Proof. exact wait_all_waiters_safe. Qed.
Theorem C13_wait_proceeds : forall s seen, J s -> w_fixed s = false -> w_pc s = PAwait seen ->
  peers (w_bal s) <> [] -> w_pc (srun [SW; SW] s) = PDone (negb (w_deact s)).
Proof. exact wait_proceeds. Qed.

(* non-vacuity: a reachable balancer with three peers; peer 3 is full, so a message goes to the
   next peer of the rotation; a mid-sweep disconnect/connect does not duplicate it *)
Example C13_example :
  let b := brun [BAdd 1; BAdd 2; BAdd 3; BAdd 2; BNext; BNext]%N bal0 in
  let o := mkOracle (fun _ p => if N.eqb p 3 then Full else Accept) (fun _ _ => Closed)
                    (fun t => if t =? 0 then [MRemove 1; MAdd 4]%N else []) in
  inv b /\ view b = [3; 1; 2]%N /\
  r_out (route_message (no_env o) false b 0) = Delivered 1%N /\
  r_out (route_message o false b 0) = Delivered 2%N /\
  accepts (r_log (route_message o false b 0)) = 1 /\
  view (r_bal (route_message o false b 0)) = [3; 4; 2]%N.
Proof. vm_compute. split; [left; lia|]. repeat split; reflexivity. Qed.
