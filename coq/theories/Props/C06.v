(* C06 - a configured security mechanism cannot be bypassed or downgraded. *)
From RZ Require Import Base.Prelude Base.Stepper Model.Codec Proofs.CodecProofs Model.Engine
  Proofs.EngineProofs Model.Actor Proofs.ActorProofs Proofs.EngineSecurity.
Local Open Scope N_scope.

(* For every configuration with a mechanism enabled (PLAIN, CURVE or NOISE_XX; either role; any
   ALLOW_ZMTP2; any socket type) and EVERY input history (arbitrary byte chunks, ticks,
   application sends, close): if the engine ever reports HandshakeComplete or delivers a message,
   then it negotiated ZMTP/3, and its mechanism is a non-NULL mechanism that completed.
   (CURVE/NOISE are opaque: they never complete for a peer without keys - mech_sound.) *)
Theorem C06_no_bypass : forall cfg is t,
  c_sec_enabled cfg = true ->
  any_emits (snd (e_run cfg (e_new t) is)) = true ->
  secure_done (g_st (fst (e_run cfg (e_new t) is))).
Proof. exact no_bypass. Qed.

(* PLAIN listener: the mechanism becomes "authenticated" only by a step that decodes a frame whose
   body is HELLO(u, p) with u, p equal to the configured credentials (both must be set) ... *)
Theorem C06_plain_auth_only_by_valid_hello : forall cfg st b st' n o,
  estep cfg st b = Step st' n o -> plain_authed st = false -> plain_authed st' = true ->
  exists f k, dec_buffer (c_maxsz cfg) b = DFrame f k /\ valid_hello cfg (f_payload f).
Proof. exact plain_auth_only_by_valid_hello. Qed.
(* ... and a completed PLAIN server mechanism is an authenticated one *)
Theorem C06_plain_done_is_authed : forall st,
  secure_done st -> (exists ps, e_mech st = MPlain true ps) -> plain_authed st = true.
Proof. exact plain_done_is_authed. Qed.

(* per micro-step form of the gating invariant (used by the above; exposed for audit) *)
Theorem C06_step_invariant : forall cfg st b st' n o,
  c_sec_enabled cfg = true -> sec_inv st -> estep cfg st b = Step st' n o ->
  sec_inv st' /\ (emits o = true -> secure_done st').
Proof. exact estep_sec. Qed.

Example C06_example :
  let cfg := {| c_server := true; c_stype := s_PULL; c_rid := None; c_sec_enabled := true; c_allow_v2 := true;
                c_use_plain := true; c_use_curve := false; c_use_noise := false;
                c_plain_user := Some [97]; c_plain_pass := Some [98];
                c_opaque_ok := false; c_hb_ivl := None; c_hb_timeout := None; c_cork := false; c_zc := false;
                c_maxsz := (-1)%Z |} in
  let good := (255 :: repeat 0 8 ++ [127; 3; 0] ++ mech_field s_PLAIN ++ [0] ++ repeat 0 31) ++
              enc_codec (cmd_frame ((5 :: s_HELLO) ++ hello_body [97] [98])) ++
              enc_codec (cmd_frame ((5 :: s_READY) ++ enc_prop s_SocketType s_PUSH)) ++
              enc_codec (data_frame false [1]) in
  let v2 := (255 :: repeat 0 8 ++ [127; 1; 8]) ++ enc_codec (data_frame false []) ++ enc_codec (data_frame false [1]) in
  any_emits (snd (e_run cfg (e_new 0) [INet good 0])) = true /\
  any_emits (snd (e_run cfg (e_new 0) [INet v2 0])) = false.
Proof. vm_compute. split; reflexivity. Qed.

(* ---- from set_option to the engine's `security_enabled` (Model/Options.v, Model/EngineCfg.v; both regenerated from
   core/src/socket/options.rs on every run and proved equal, Proofs/OptionsCheck.v) ---- *)
From RZ Require Import Model.Options Model.EngineCfg Proofs.OptionsProofs Proofs.EngineCfgProofs.
(* setting ANY of PLAIN_SERVER / PLAIN_USERNAME / PLAIN_PASSWORD / CURVE_SERVER / CURVE_SECRET_KEY / CURVE_SERVER_KEY
   successfully makes the derived engine configuration security_enabled ... *)
Theorem C06_mech_option_enables_security : forall (o : opts) (id : Z) (b : bytes) (o' : opts), In id mech_ids -> apply_opt o id b = inl o' -> security_enabled o' = true.
Proof. exact mech_option_enables_security. Qed.
(* ... and NO later history of set_option calls - any ids, any byte strings, accepted or refused - switches it off again *)
Theorem C06_configured_mechanism_stays : forall (o : opts) (pre : list (Z * bytes)) (id : Z) (b : bytes) (o1 : opts) (post : list (Z * bytes)), In id mech_ids -> apply_opt (fst (apply_all o pre)) id b = inl o1 -> security_enabled (fst (apply_all o1 post)) = true.
Proof. exact configured_mechanism_stays. Qed.
(* NOISE_XX is switched by its own flag only: 1 = on, any other 4-byte value = off, nothing else changes *)
Theorem C06_noise_flag_semantics : forall (o : opts) (b : bytes), match apply_opt o NOISE_XX_ENABLED b with | inl o' => exists v, i32_of b = Some v /\ o' F_noise_xx_options_enabled = VB (v =? 1)%Z /\ (forall g, g <> F_noise_xx_options_enabled -> o' g = o g) | inr e => e = EVal 0 /\ i32_of b = None end.
Proof. exact noise_flag_semantics. Qed.
(* composed with C06_no_bypass: an engine built from options in which a PLAIN / CURVE option was ever set emits nothing
   before its mechanism is done, for every input history *)
Theorem C06_configured_options_no_bypass : forall (o : opts) (pre : list (Z * bytes)) (id : Z) (b : bytes) (o1 : opts) (post : list (Z * bytes)) cfg is t, In id mech_ids -> apply_opt (fst (apply_all o pre)) id b = inl o1 -> c_sec_enabled cfg = security_enabled (fst (apply_all o1 post)) -> any_emits (snd (e_run cfg (e_new t) is)) = true -> secure_done (g_st (fst (e_run cfg (e_new t) is))).
Proof. intros o pre id b o1 post cfg is t Hin Ha Hc. apply C06_no_bypass. rewrite Hc. exact (configured_mechanism_stays o pre id b o1 post Hin Ha). Qed.
Theorem C06_defaults_not_secured : security_enabled default_opts = false /\ cfg_allow_zmtp2 default_opts = true.
Proof. exact defaults_not_secured. Qed.
Example C06_options_nonvacuous :
  match apply_opt default_opts PLAIN_USERNAME [97; 100; 109; 105; 110] with
  | inl o1 => security_enabled o1 = true /\
              security_enabled (fst (apply_all o1 [(NOISE_XX_ENABLED, [0; 0; 0; 0]); (PLAIN_SERVER, [0; 0; 0; 0]); (ALLOW_ZMTP2, [1; 0; 0; 0]); (9999%Z, [])])) = true
  | inr _ => False
  end.
Proof. vm_compute. split; reflexivity. Qed.
