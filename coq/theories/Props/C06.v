(* C06 - a configured security mechanism cannot be bypassed or downgraded. *)
From RZ Require Import Base.Prelude Base.Stepper Model.Codec Proofs.CodecProofs Model.Engine
  Proofs.EngineProofs Model.Actor Proofs.ActorProofs Proofs.EngineSecurity.
Local Open Scope N_scope.

(* For every configuration with a mechanism enabled (PLAIN, CURVE or NOISE_XX; either role; any
   ALLOW_ZMTP2; any socket type) and EVERY input history (arbitrary byte chunks, ticks,
   application sends, close): if the engine ever reports HandshakeComplete or delivers a message,
   then it negotiated ZMTP/3, and its mechanism is a non-NULL mechanism that completed.
   (CURVE/NOISE are opaque: they never complete for a peer without keys - mech_sound.) *)
Theorem C06_no_bypass : forall cfg is t,
  c_sec_enabled cfg = true ->
  any_emits (snd (e_run cfg (e_new t) is)) = true ->
  secure_done (g_st (fst (e_run cfg (e_new t) is))).
Proof. exact no_bypass. Qed.

(* PLAIN listener: the mechanism becomes "authenticated" only by a step that decodes a frame whose
   body is HELLO(u, p) with u, p equal to the configured credentials (both must be set) ... *)
Theorem C06_plain_auth_only_by_valid_hello : forall cfg st b st' n o,
  estep cfg st b = Step st' n o -> plain_authed st = false -> plain_authed st' = true ->
  exists f k, dec_buffer (c_maxsz cfg) b = DFrame f k /\ valid_hello cfg (f_payload f).
Proof. exact plain_auth_only_by_valid_hello. Qed.
(* ... and a completed PLAIN server mechanism is an authenticated one *)
Theorem C06_plain_done_is_authed : forall st,
  secure_done st -> (exists ps, e_mech st = MPlain true ps) -> plain_authed st = true.
Proof. exact plain_done_is_authed. Qed.

(* per micro-step form of the gating invariant (used by the above; exposed for audit) *)
Theorem C06_step_invariant : forall cfg st b st' n o,
  c_sec_enabled cfg = true -> sec_inv st -> estep cfg st b = Step st' n o ->
  sec_inv st' /\ (emits o = true -> secure_done st').
Proof. exact estep_sec. Qed.

Example C06_example :
  let cfg := {| c_server := true; c_stype := s_PULL; c_rid := None; c_sec_enabled := true; c_allow_v2 := true;
                c_use_plain := true; c_use_curve := false; c_use_noise := false;
                c_plain_user := Some [97]; c_plain_pass := Some [98];
                c_opaque_ok := false; c_hb_ivl := None; c_hb_timeout := None; c_cork := false; c_zc := false;
                c_maxsz := (-1)%Z |} in
  let good := (255 :: repeat 0 8 ++ [127; 3; 0] ++ mech_field s_PLAIN ++ [0] ++ repeat 0 31) ++
              enc_codec (cmd_frame ((5 :: s_HELLO) ++ hello_body [97] [98])) ++
              enc_codec (cmd_frame ((5 :: s_READY) ++ enc_prop s_SocketType s_PUSH)) ++
              enc_codec (data_frame false [1]) in
  let v2 := (255 :: repeat 0 8 ++ [127; 1; 8]) ++ enc_codec (data_frame false []) ++ enc_codec (data_frame false [1]) in
  any_emits (snd (e_run cfg (e_new 0) [INet good 0])) = true /\
  any_emits (snd (e_run cfg (e_new 0) [INet v2 0])) = false.
Proof. vm_compute. split; reflexivity. Qed.
