(* C01 - accepted messages arrive exactly once, in order, intact.
   Only statements here; proofs live in Proofs/{Batch,Egress,Ingress,Dealer,Inproc,Pipeline}Proofs.v.

   Trusted, embodied in the models as FIFO lists: the TCP / unix byte stream, the fibre
   core->session and inproc channels, and that a dropped `ReadyPipeSender::send` future has either
   enqueued its item (and reported Ready in that same poll) or not enqueued it (C08/C09). *)
From Coq Require Import Permutation.
From RZ Require Import Base.Prelude Base.Stepper Model.Codec Proofs.CodecProofs Model.Engine Proofs.EngineProofs
  Model.Actor Model.Batch Proofs.BatchProofs Model.Egress Proofs.EgressProofs
  Model.IngressDriver Proofs.IngressDriverProofs Model.Dealer Proofs.DealerProofs Model.Inproc Proofs.InprocProofs
  Model.Pipeline Proofs.PipelineProofs.
Local Open Scope N_scope.

(* ---- stage 1: batch assembly (sessionx/actor.rs, both branches) ---- *)

(* one activation: batch, then the new carry-over, then the rest of the pipe is exactly the old
   carry-over followed by the pipe - for every message type, size function, option vector, egress
   backlog and queue contents *)
Theorem C01_assemble_order : forall (M : Type) (wsize : M -> N) c pending st b st',
  assemble wsize c pending st = (b, st') -> b ++ fst st' ++ snd st' = fst st ++ snd st.
Proof. exact assemble_order. Qed.

(* any number of cycles and accepted sends in any order: all emitted batches, then what is still
   queued, is the accepted sequence *)
Theorem C01_assemble_run_order : forall (M : Type) (wsize : M -> N) c evs bs st',
  run wsize c ([], []) evs = (bs, st') -> concat bs ++ fst st' ++ snd st' = accepted evs.
Proof. exact assemble_run_order. Qed.

(* the oldest queued message is always sent in the next batch, whatever its size *)
Theorem C01_batch_nonempty_progress : forall (M : Type) (wsize : M -> N) g c pending carry pipe hd tl b st',
  (1 <= b_count c)%nat -> gate_open c pending = true -> carry ++ pipe = hd :: tl ->
  assemble_gen wsize g c pending (carry, pipe) = (b, st') -> exists d, b = hd :: d.
Proof. exact batch_nonempty_progress. Qed.

(* count limit (bound used by C14) *)
Theorem C01_batch_count_bound : forall (M : Type) (wsize : M -> N) g c pending st b st',
  (1 <= b_count c)%nat ->
  assemble_gen wsize g c pending st = (b, st') -> (length b <= max_count_of c pending)%nat.
Proof. exact batch_count_bound. Qed.

(* the pinned commit topped the batch up from the pipe while older messages were still in
   carry-over: order violated (loss and duplication were impossible even then) *)
Theorem C01_assemble_order_legacy_refuted :
  let '(b, (c', p')) := assemble_legacy (fun x : N => x) legacy_cfg 0 ([20; 5009; 20], [21; 22]) in
  b = [20; 21; 22] /\ c' = [5009; 20] /\ p' = [] /\ b ++ c' ++ p' <> [20; 5009; 20; 21; 22].
Proof. exact assemble_order_legacy_refuted. Qed.
Theorem C01_assemble_run_order_legacy_refuted :
  let evs := [BSend 20; BSend 5009; BSend 20; BSend 5009; BSend 20; BCycle N 0; BCycle N 0;
              BSend 21; BSend 22; BCycle N 0; BCycle N 0; BCycle N 0] in
  let '(bs, st) := run_legacy (fun x : N => x) legacy_cfg ([], []) evs in
  st = ([], []) /\ accepted evs = [20; 5009; 20; 5009; 20; 21; 22]
  /\ concat bs = [20; 5009; 20; 21; 22; 5009; 20].
Proof. exact assemble_run_order_legacy_refuted. Qed.
Theorem C01_assemble_order_legacy_outside : forall (M : Type) (wsize : M -> N) c pending st b st',
  assemble_legacy wsize c pending st = (b, st') -> topup_over_carry wsize c pending st = false ->
  b ++ fst st' ++ snd st' = fst st ++ snd st.
Proof. exact assemble_order_legacy_outside. Qed.
Theorem C01_assemble_no_loss_no_dup : forall (M : Type) (wsize : M -> N) g c evs st bs st',
  run_gen wsize g c st evs = (bs, st') ->
  Permutation (concat bs ++ fst st' ++ snd st') (fst st ++ snd st ++ accepted evs).
Proof. exact assemble_run_perm. Qed.

(* ---- stage 2: EgressBuffer + EgressDriver ---- *)
Theorem C01_egress_stream : forall ops,
  exists e out layout,
    eg_run (eg_new, []) ops = Some (e, out)
    /\ out ++ eg_flat e = cat layout
    /\ data_of layout = pushed_data ops
    /\ Permutation (prio_of layout) (pushed_prio ops)
    /\ (exists done, layout = done ++ e_chunks e /\ out = cat done ++ firstn (e_off e) (cat (e_chunks e)))
    /\ e_msgs e = count_of (e_chunks e)
    /\ e_total e = N.of_nat (length (eg_flat e)).
Proof. exact egress_stream. Qed.
Theorem C01_egress_data_only : forall ops e out,
  pushed_prio ops = [] -> eg_run (eg_new, []) ops = Some (e, out) -> e_chunks e = [] ->
  out = concat (pushed_data ops).
Proof. exact egress_stream_data_only. Qed.

(* ---- stage 3: IngressDriver over the per-pipe queue ---- *)
Theorem C01_ingress_exactly_once : forall (T : Type) (weight : T -> nat) (cap : nat) evs,
  let s := i_run weight cap true (i_new T) evs in
  i_delivered s ++ i_q s ++ i_ib s = i_entered s /\ (length (i_q s) <= cap)%nat.
Proof. exact ingress_exactly_once. Qed.

(* ---- stage 4a: DEALER's pending queue and processor ---- *)
Theorem C01_dealer_no_loss_no_dup : forall (M : Type) ser hwm evs,
  let s := d_run ser hwm evs in Permutation (d_routed s ++ d_pend s) (@d_accepted M s).
Proof. exact dealer_no_loss_no_dup. Qed.
Theorem C01_dealer_direct_order : forall (M : Type) hwm evs,
  sends_after_attach false evs = true ->
  let s := d_run false hwm evs in d_pend s = [] /\ d_routed s = @d_accepted M s.
Proof. exact dealer_direct_order. Qed.
(* messages accepted while the connection was being established: handed over one per wake-up,
   overtaken by later sends, the rest stays queued on an idle connected socket *)
Theorem C01_dealer_queue_refuted :
  let s := d_run false 1000 [DSend 0%nat; DSend 1%nat; DSend 2%nat; DAttach nat; DWakeQ nat; DWakeP nat; DSend 3%nat] in
  d_quiescent s = true /\ d_accepted s = [0; 1; 2; 3]%nat /\ d_routed s = [0; 1; 3]%nat /\ d_pend s = [2%nat].
Proof. exact dealer_queue_refuted. Qed.
(* a serialised queue (repair sketch) keeps order in every history *)
Theorem C01_dealer_serialised_order : forall (M : Type) hwm evs,
  let s := d_run true hwm evs in
  d_routed s ++ d_pend s = @d_accepted M s /\ (d_quiescent s = true -> d_routed s = d_accepted s).
Proof. exact dealer_serialised_order. Qed.

(* ---- stage 4b: inproc channel + reader task ---- *)
Theorem C01_inproc_exactly_once : forall chan_cap cap rcvbatch evs,
  sends_whole evs = true ->
  let s := n_run chan_cap cap rcvbatch evs in
  n_delivered s ++ n_q s ++ fly_list s ++ n_out s ++ n_rx s = n_sent s.
Proof. exact inproc_exactly_once. Qed.
Theorem C01_inproc_quiescent : forall chan_cap cap rcvbatch evs,
  sends_whole evs = true ->
  let s := n_run chan_cap cap rcvbatch evs in
  prefix (n_delivered s) (n_sent s) /\
  (n_q s = [] -> n_fly s = None -> n_out s = [] -> n_rx s = [] -> n_delivered s = n_sent s).
Proof. exact inproc_quiescent. Qed.
Theorem C01_inproc_frames_conserved : forall chan_cap cap rcvbatch evs,
  let s := n_run chan_cap cap rcvbatch evs in
  concat (n_delivered s) ++ concat (n_q s) ++ concat (fly_list s) ++ concat (n_out s) ++ n_acc s ++ concat (n_rx s)
  = concat (n_sent s).
Proof. exact inproc_frames_conserved. Qed.

(* ---- composition (tcp / ipc) ---- *)
Theorem C01_end_to_end : forall bc ec cap g0 evs,
  e_phase (g_st g0) = PData -> e_partial (g_st g0) = [] -> g_acc g0 = [] ->
  let s := p_run bc ec cap g0 evs in
  Forall (wf_msg ec) (p_accepted s) ->
  prefix (p_received s) (p_accepted s) /\ (p_quiescent s -> p_received s = p_accepted s).
Proof. exact end_to_end. Qed.

(* non-vacuity: a concrete schedule with a multi-frame and a long message, small ceilings, partial
   writes, odd read sizes, a blocked and cancelled ingress driver; it ends quiescent and delivers *)
Example C01_example :
  let s := p_run ex_bc ex_cfg 1 ex_g0 ex_evs in
  e_phase (g_st ex_g0) = PData /\ e_partial (g_st ex_g0) = [] /\ g_acc ex_g0 = [] /\
  Forall (wf_msg ex_cfg) (p_accepted s) /\
  p_accepted s = [ex_m1; ex_m2; ex_m3] /\ p_received s = [ex_m1; ex_m2; ex_m3] /\ p_quiescent s.
Proof.
  split; [reflexivity|]. split; [reflexivity|]. split; [reflexivity|]. split.
  - change (p_accepted (p_run ex_bc ex_cfg 1 ex_g0 ex_evs)) with [ex_m1; ex_m2; ex_m3].
    repeat constructor; try (vm_compute; lia); try (vm_compute; congruence).
    + exists [data_frame true [1; 2]], (data_frame false (fill 300 5)). repeat split; repeat constructor.
    + exists [], (data_frame false [7]). repeat split; repeat constructor.
    + exists [], (data_frame false (fill 40 9)). repeat split; repeat constructor.
  - vm_compute. repeat split.
Qed.

(* ---- the physical byte ceiling of a batch (config().sndbatch_bytes_physical = calculate_required_slot_size, options.rs:854;
   Model/EngineCfg.v, regenerated from the source on every run): whatever the sizes, a batch of at most SNDBATCH_COUNT
   single-frame messages whose payloads stay within SNDBATCH_BYTES fits, framed, under the ceiling - so the logical
   limits never admit a batch that the physical limit must then cut (page = sysconf(_SC_PAGESIZE) > 0) ---- *)
From RZ Require Import Model.Options Model.EngineCfg Proofs.EngineCfgProofs.
Theorem C01_physical_ceiling_admits_logical_batch : forall (page target count : N) (sizes : list N), 0 < page -> N.of_nat (length sizes) <= count -> sum sizes <= target -> sum (map framed sizes) <= slot_size page target count.
Proof. exact slot_holds_batch. Qed.
