(* C05 - handshakes converge, agree, and give one verdict on compatibility. *)
From RZ Require Import Base.Prelude Base.Stepper Base.Kahn Model.Codec Proofs.CodecProofs Model.Engine
  Proofs.EngineProofs Model.Pair Proofs.HandshakeProofs.
Local Open Scope N_scope.

(* generic: in a two-node network of prefix-monotone stream functions all quiescent states reachable by
   any delivery schedule (any order, any fragment sizes, one byte at a time included) coincide *)
Theorem C05_kahn_confluence : forall (FA FB : bytes -> bytes),
  (forall a d, prefix (FA a) (FA (a ++ d))) -> (forall a d, prefix (FB a) (FB (a ++ d))) ->
  forall ia ib ia' ib', Reach FA FB ia ib -> Kahn.quiescent FA FB ia ib ->
  Reach FA FB ia' ib' -> Kahn.quiescent FA FB ia' ib' -> ia = ia' /\ ib = ib'.
Proof. exact kahn_confluence. Qed.

(* two engines, ANY pair of configurations, ANY two delivery schedules that leave both channels empty:
   same delivered bytes, same protocol states, same emitted actions on both sides *)
Theorem C05_schedule_independent : forall ca cb xs ys,
  drained (prun ca cb xs) = true -> drained (prun ca cb ys) = true ->
  let s1 := prun ca cb xs in let s2 := prun ca cb ys in
  da s1 = da s2 /\ db s1 = db s2 /\ same_core (pa s1) (pa s2) /\ same_core (pb s1) (pb s2) /\
  oa s1 = oa s2 /\ ob s1 = ob s2.
Proof.
  intros ca cb xs ys D1 D2.
  exact (pair_schedule_independent ca cb _ _ (PReach_run ca cb xs) (PReach_run ca cb ys) D1 D2).
Qed.

(* no deadlock of the staged greeting: while bytes are in flight a delivery makes progress *)
Theorem C05_progress : forall ca cb s, drained s = false ->
  exists x, (length (da (pstep ca cb s x)) + length (db (pstep ca cb s x)) > length (da s) + length (db s))%nat.
Proof. exact pair_progress. Qed.

(* convergence and agreement, for every schedule, on the grid {11 wire socket types}^2 x {NULL, PLAIN ok,
   PLAIN wrong password, NULL vs PLAIN, PLAIN vs NULL} x {no routing ids, 1-byte and 255-byte ids}, connector
   vs listener: compatible settings => both reach Data, no error, and each side's HandshakeComplete carries the
   other's socket type and routing id; incompatible mechanism / credentials / socket types => nobody completes
   and a side fails *)
Theorem C05_converge_grid : forall tA tB mc ids xs,
  In (tA, tB, mc, ids) grid ->
  let '(ca, cb) := grid_pair tA tB mc ids in
  drained (prun ca cb xs) = true -> good_outcome tA tB mc ids (outcome (prun ca cb xs)) = true.
Proof. exact converge_grid. Qed.
Theorem C05_grid_eager_drains : forall tA tB mc ids,
  In (tA, tB, mc, ids) grid ->
  let '(ca, cb) := grid_pair tA tB mc ids in drained (eager ca cb EAGER_ROUNDS p_init) = true.
Proof. exact grid_eager_drains. Qed.

(* one verdict: ZMTP/3 gives exactly the ZMTP/2 table's verdict on all 121 wire type pairs ... *)
Theorem C05_v3_verdict_is_v2_verdict : forall a b, In a all_types -> In b all_types -> compat_v3 a b = compat_v2 a b.
Proof. exact v3_verdict_is_v2_verdict. Qed.
Theorem C05_verdict_symmetric : forall a b, In a all_types -> In b all_types -> compat_v2 a b = compat_v2 b a.
Proof. exact verdict_symmetric. Qed.
(* ... and inproc gives the same verdict on the 8 implemented socket types, except DEALER-DEALER *)
Theorem C05_one_verdict_outside : forall a b, In a rzmq_types -> In b rzmq_types -> is_dealer_dealer a b = false ->
  compat_v3 a b = compat_v2 a b /\ compat_inproc a b = compat_v2 a b.
Proof. exact one_verdict_outside. Qed.
Theorem C05_one_verdict_refuted :
  compat_v3 s_DEALER s_DEALER = true /\ compat_v2 s_DEALER s_DEALER = true /\ compat_inproc s_DEALER s_DEALER = false.
Proof. exact one_verdict_refuted. Qed.

Example C05_example :
  length grid = 1210%nat /\
  (let '(ca, cb) := grid_pair s_DEALER s_ROUTER 1 true in
   drained (prun ca cb [ToB 3 0; ToA 1 0; ToA 100 0; ToB 5 0; ToB 1000 0; ToA 1000 0; ToB 1000 0; ToA 1000 0; ToB 1000 0; ToA 1000 0]) = true).
Proof. split; vm_compute; reflexivity. Qed.
