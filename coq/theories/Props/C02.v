(* C02 - a multipart message is delivered as exactly the frames that were sent, contiguous and in order, MORE on
   all but the last - read with recv_multipart() or frame by frame, whatever else happens on the socket; a message
   with more frames than supported is refused with an error or closes the connection: no panic, no truncation.

   The models are those of the code after the repairs of findings 1 (deregister_pipe cleared the cache), 2
   (DEALER/ROUTER recv_multipart ignored frame_recv_buffer) and 4 (ROUTER send_multipart kept the application's
   flags); their former witnesses are kept as `_witness` theorems and now deliver whole.  The classes that still
   fail are named `_refuted` (each is a known finding demonstrated against the real code by the correspondence run). *)
From RZ Require Import Base.Prelude Base.Stepper Model.Codec Proofs.CodecProofs Model.Engine Proofs.EngineProofs
  Proofs.EngineLimit Model.RouterMap Model.Envelope Model.FrameBatch Model.SendFlags Model.Ingress
  Model.Balancer Proofs.FrameBatchProofs Proofs.EnvelopeProofs Proofs.SendFlagsProofs Proofs.IngressProofs Proofs.WireBridge.
Local Open Scope N_scope.

(* ================================================================ receiving side *)
(* PULL / SUB (AnonymousIngressEngine), for EVERY queue discipline `qo` and every history mixing Recv and
   RecvMultipart with Enqueue / Register / Deregister of any pipe (the socket itself is not closed meanwhile):
   everything returned, followed by what is still cached, is exactly the concatenation of the batches taken off the
   queue - frames adjacent, in order, flags untouched - and no call panics. *)
Theorem C02_recv_contiguous : forall (Q : Type) (qo : qops Q) os st st' es,
  anon_run qo os st = (st', es) -> cache_inv (snd st) -> no_close os -> Forall good (popped es) ->
  cache_frames (snd st) ++ popped_frames es = returned es ++ cache_frames (snd st') /\ has_panic es = false.
Proof. exact @anon_accounting_open. Qed.
(* with close() in the history: the same, as long as the socket is not closed in the middle of a message *)
Theorem C02_recv_contiguous_until_close : forall (Q : Type) (qo : qops Q) os st st' es,
  anon_run qo os st = (st', es) -> cache_inv (snd st) -> no_drop qo os st = true -> Forall good (popped es) ->
  cache_frames (snd st) ++ popped_frames es = returned es ++ cache_frames (snd st') /\ has_panic es = false.
Proof. exact @anon_accounting. Qed.

(* histories that only use recv_multipart: every result is one whole batch *)
Theorem C02_recv_multipart_only : forall (Q : Type) (qo : qops Q) os q st' es,
  anon_run qo os (q, None) = (st', es) -> no_recv os ->
  snd st' = None /\ returned es = popped_frames es /\ has_panic es = false /\
  Forall (fun e => match e with EvRet (RBatch fs) (Some (_, b)) => fs = fb_list b
                              | EvRet (RBatch _) None => False | _ => True end) es.
Proof. exact @anon_multipart_only. Qed.

(* mixed style on PULL / SUB: recv_multipart after some recv()s returns the whole unread remainder *)
Theorem C02_recv_multipart_remainder : forall (Q : Type) (qo : qops Q) (q : Q) (d : list frame),
  d <> [] -> more_ok d -> (length d <= 255)%nat ->
  anon_recv_multipart qo (q, Some d) = ((q, None), EvRet (RBatch d) None).
Proof. exact @anon_recv_multipart_remainder. Qed.

(* a peer detaching leaves the half-read message alone (repaired finding 1) ... *)
Theorem C02_deregister_keeps_half_read : forall (Q : Type) (qo : qops Q) (q : Q) c p,
  anon_step qo (ODeregister p) (q, c) = ((qo_dereg qo p q, c), EvUnit).
Proof. exact @anon_deregister_keeps. Qed.
(* ... its former witness: peer 1 sent A = [10+M, 11+M, 12]; the application read 10; idle peer 3 detaches;
   11 and 12 are still delivered, then B *)
Theorem C02_recv_contiguous_deregister_witness :
  let '(st', es) := anon_run rpq_ops wit_deregister (q_new, None) in
  popped_frames es = [fr true 10; fr true 11; fr false 12; fr false 20] /\
  returned es = popped_frames es /\ cache_frames (snd st') = [].
Proof. exact recv_contiguous_deregister_witness. Qed.

(* DEALER / ROUTER (`frame_recv_buffer`), every queue discipline, every envelope function `process`, EVERY history:
   any mix of recv and recv_multipart, attach / detach / close meanwhile (repaired finding 2) *)
Theorem C02_recv_contiguous_addressed : forall (Q : Type) (qo : qops Q) process os st st' es,
  fbuf_run qo process os st = (st', es) -> buf_inv (snd st) -> Forall (pgood process) es ->
  cache_frames (snd st) ++ processed_frames process es = returned es ++ cache_frames (snd st') /\ has_panic es = false.
Proof. exact @fbuf_accounting. Qed.
Theorem C02_recv_multipart_remainder_addressed : forall (Q : Type) (qo : qops Q) process (q : Q) (d : list frame),
  d <> [] -> (length d <= 255)%nat ->
  fbuf_recv_multipart qo process (q, Some d) = ((q, None), EvRet (RBatch d) None).
Proof. exact @fbuf_recv_multipart_remainder. Qed.
(* former witness: recv() -> frame 1 of A, recv_multipart() -> the rest of A (used to be B), recv() -> B *)
Theorem C02_recv_contiguous_mixed_witness :
  let '(st', es) := fbuf_run rpq_ops (fun _ b => Ok b) wit_mixed (q_new, None) in
  processed_frames (fun _ b => Ok b) es = [fr true 10; fr true 11; fr false 12; fr false 20] /\
  returned es = processed_frames (fun _ b => Ok b) es.
Proof. exact recv_contiguous_mixed_witness. Qed.

(* REQ / REP recv(): a single-frame payload comes through; of a multi-frame payload only frame 1 (MORE still set) *)
Theorem C02_reqrep_recv_single : forall f : frame,
  rep_recv_fb (FTwo (delim true) (no_more f)) = Ok (no_more f) /\
  req_recv_fb (FTwo (delim true) (no_more f)) = Ok (no_more f).
Proof. exact reqrep_recv_single. Qed.
Theorem C02_reqrep_recv_truncates_refuted :
  rep_recv_fb wit_multi_request = Ok (fr true 1) /\
  (exists b, rep_recv_multipart_fb wit_multi_request = Ok b /\ fb_list b = [fr true 1; fr true 2; fr false 3]) /\
  req_recv_fb wit_multi_request = Ok (fr true 1) /\
  (exists b, req_recv_multipart_fb wit_multi_request = Ok b /\ fb_list b = [fr true 1; fr true 2; fr false 3]).
Proof. exact reqrep_recv_truncates_refuted. Qed.

(* ================================================================ sending side *)
(* whatever one send_multipart call hands to the connection is, at list level, the envelope function of the socket *)
Theorem C02_send_sound : forall k v w, send_multipart_of k v = Ok (SRWire w) -> w = wire_of k v.
Proof. exact send_sound. Qed.
(* it carries MORE on all but the last frame, whatever flags the application left on the frames - every sender,
   ROUTER included (repaired finding 4) *)
Theorem C02_wire_is_one_message : forall k v w, send_multipart_of k v = Ok (SRWire w) -> more_ok w.
Proof. exact wire_is_one_message. Qed.
(* former witness: ROUTER send_multipart([id, a, b]) with MORE unset on a is one message on the wire *)
Theorem C02_wire_is_one_message_router_witness :
  exists w, send_multipart_of (SndRouter false false (Some SDealer)) router_unnormalised_witness = Ok (SRWire w) /\
            wire_split w = [[(true, [65]); (true, []); (true, [1]); (false, [2])]].
Proof. exact wire_is_one_message_router_witness. Qed.
(* every frame the application passed is on the wire, in order, after the envelope frames *)
Theorem C02_send_never_truncates : forall k v w,
  send_multipart_of k v = Ok (SRWire w) ->
  exists env, datas w = env ++ datas (match k with SndRouter _ _ _ => tl v | _ => v end).
Proof. exact send_never_truncates. Qed.
(* hence (data_phase_delivers) the peer's engine reassembles every such wire into exactly one batch with exactly
   those frames, however the byte stream is cut *)
Theorem C02_wire_reassembled : forall cfg g ws cs,
  e_phase (g_st g) = PData -> e_partial (g_st g) = [] -> g_acc g = [] ->
  Forall (sendable cfg) ws ->
  concat (map fst cs) = concat (map enc_codec (concat (map (map to_codec) ws))) ->
  let '(g', o) := nets cfg g cs in
  o = map ODeliver (map (map to_codec) ws) /\ g_st g' = g_st g /\ g_acc g' = [].
Proof. exact wire_reassembled. Qed.

(* a message sent through PUSH send() part by part stays together only while the socket has a single peer *)
Theorem C02_push_parts_single_peer : forall p (fs : list frame),
  push_parts_routed (mkBal [p] 0) fs = (map (fun f => (p, f)) fs, mkBal [p] 0).
Proof. exact push_parts_single_peer. Qed.
Theorem C02_push_parts_spread_refuted :
  fst (push_parts_routed (mkBal [1; 2] 0) [(true, [10]); (true, [11]); (false, [12])])
  = [(1, (true, [10])); (2, (true, [11])); (1, (false, [12]))].
Proof. exact push_parts_spread_refuted. Qed.

(* ================================================================ the frame limit *)
(* FrameBatch is a list that panics exactly when it would hold more than 255 frames *)
Theorem C02_framebatch_push : forall (b : fb frame) x, fb_wf b ->
  (fb_push b x = Panic <-> length (fb_list b) = 255%nat) /\
  (forall b', fb_push b x = Ok b' -> fb_list b' = fb_list b ++ [x]).
Proof. exact (@fb_push_spec frame). Qed.
Theorem C02_framebatch_from_vec : forall (xs : list frame),
  (fb_from_vec xs = Panic <-> (255 < length xs)%nat) /\ (forall b, fb_from_vec xs = Ok b -> fb_list b = xs).
Proof. exact (@fb_from_vec_spec frame). Qed.
Theorem C02_framebatch_insert : forall i (x : frame) b,
  (length (fb_list b) = 255%nat -> fb_insert i x b = Panic) /\
  (forall b', fb_insert i x b = Ok b' -> fb_list b' = firstn i (fb_list b) ++ x :: skipn i (fb_list b)).
Proof. exact (@fb_insert_spec frame). Qed.

(* sender: below the limit (envelope frames included) no sending path panics ... *)
Theorem C02_frame_limit_sender_ok : forall k v, (wire_len_bound k v <= 255)%nat -> send_multipart_of k v <> Panic.
Proof. exact send_no_panic_below. Qed.
(* ... but `Socket::send_multipart` of more than 255 frames panics on every socket type (FrameBatch::from), *)
Theorem C02_frame_limit_sender_refuted : forall k v, (255 < length v)%nat -> send_multipart_of k v = Panic.
Proof. exact api_panics_beyond_255. Qed.
(* and so do: DEALER with the automatic delimiter at exactly 255 frames, ROUTER to a DEALER / unknown peer at
   identity + 254, REP when prefix + payload exceed 255, DEALER send() part by part at the 256th part *)
Theorem C02_frame_limit_dealer_255_refuted : forall v : list frame,
  length v = 255%nat -> send_multipart_of (SndDealer false) v = Panic.
Proof. exact dealer_auto_255_panics. Qed.
Theorem C02_frame_limit_router_255_refuted : forall mandatory s (v : list frame),
  s = SDealer \/ s = SDefault -> length v = 255%nat -> (forall (idm : frame) t, v = idm :: t -> snd idm <> []) ->
  send_multipart_of (SndRouter mandatory false (Some s)) v = Panic.
Proof. exact router_auto_255_panics. Qed.
Theorem C02_frame_limit_rep_refuted : forall prefix v : list frame,
  (length prefix <= 255)%nat -> (length v <= 255)%nat -> v <> [] -> (255 < length prefix + length v)%nat ->
  send_multipart_of (SndRep prefix) v = Panic.
Proof. exact rep_over_255_panics. Qed.
Theorem C02_frame_limit_dealer_parts_refuted : forall manual (fs : list frame) f,
  length fs = 255%nat -> Forall (fun f => fmore f = true) fs ->
  dealer_send_parts manual None (fs ++ [f]) = Panic.
Proof. exact dealer_parts_256_panics. Qed.
(* whenever a send does not panic, nothing is truncated (C02_send_never_truncates): whole message or nothing *)

(* receiver: a wire of more than 255 frames (parts sent one by one, or a foreign peer) is answered with PeerError at
   its 256th frame; the messages before it are delivered, nothing of it is (no truncated batch); the engine closes.
   (That the engine never panics on any input is C07_no_panic.) *)
Theorem C02_overlong_wire_refused : forall cfg g ws (w : list frame) tail cs,
  e_phase (g_st g) = PData -> e_partial (g_st g) = [] -> g_acc g = [] ->
  Forall (sendable cfg) ws ->
  (MAX_FRAMES < length w)%nat -> wire_admitted cfg w ->
  Forall (fun f => fmore f = true) (firstn MAX_FRAMES w) ->
  concat (map fst cs) = concat (map enc_codec (concat (map (map to_codec) ws))) ++
                        concat (map enc_codec (map to_codec w)) ++ tail ->
  let '(g', o) := nets cfg g cs in
  o = map ODeliver (map (map to_codec) ws) ++ [OErr EProto] /\ e_phase (g_st g') = PClosed.
Proof. exact overlong_wire_refused. Qed.
(* ROUTER recv prepends the identity with FrameBatch::with_capacity(1 + n): fine up to 254 frames, ... *)
Theorem C02_router_recv_ok : forall manual pt id (raw : fb frame), fb_canon raw -> (length (fb_list raw) <= 254)%nat ->
  exists w, router_recv_fb manual pt id raw = Ok w /\ fb_list w = router_recv manual pt id (fb_list raw).
Proof. exact router_recv_fb_ok. Qed.
(* ... a 255-frame message that keeps all its frames (no delimiter to strip) panics in recv()/recv_multipart() *)
Theorem C02_router_recv_255_refuted : forall manual pt id (raw : fb frame) f0 rest,
  fb_canon raw -> fb_list raw = f0 :: rest -> length (fb_list raw) = 255%nat ->
  manual = true \/ pt = Some TRouter \/ fempty f0 = false ->
  router_recv_fb manual pt id raw = Panic.
Proof. exact router_recv_255_panics. Qed.
(* inproc: whole messages pass the reader's accumulator unchanged; 256 parts sent one by one panic inside it *)
Theorem C02_inproc_whole_messages : forall (ms : list (list frame)),
  Forall (fun m => m <> [] /\ more_ok m /\ (length m <= 255)%nat) ms ->
  exists out, inproc_run fb_new ms = Ok (fb_new, out) /\ map fb_list out = ms.
Proof. exact inproc_whole_messages. Qed.
Theorem C02_inproc_256_parts_refuted : inproc_run fb_new (repeat [fr true 7] 256) = Panic.
Proof. exact inproc_256_parts_panic. Qed.

(* non-vacuity: a history with two peers, mixed receive styles and a detach in the middle of message A satisfies the
   hypotheses of C02_recv_contiguous and delivers both messages whole *)
Example C02_example :
  let os := [ORegister 1; ORegister 2; OEnqueue 0%nat msgA; OEnqueue 1%nat msgB; ORecv; ODeregister 2;
             ORecvMultipart; ORecv; ORecv] in
  let '(st', es) := anon_run rpq_ops os (q_new, None) in
  forallb (fun o => match o with OClose => false | _ => true end) os = true /\
  forallb (fun b => (0 <? length (fb_list b))%nat) (popped es) = true /\
  returned es = [fr true 10; fr true 11; fr false 12; fr false 20] /\ popped_frames es = returned es.
Proof. vm_compute. auto. Qed.
