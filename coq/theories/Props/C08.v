(* C08 - a receiver never sleeps while a message is queued for it (no lost wake-ups).

   Model/Rpq.v is the interleaving model of ready_pipe_queue.rs at the granularity of its
   individual atomic actions (the cfg(rzmq_verif) schedule points sit between the same actions and
   the correspondence run compares the real queue with the model event by event).  Every theorem
   below is about EVERY program set (one producer per pipe over send / try_send / try_send_batch,
   any number of consumers over pop / try_pop), EVERY per-pipe capacity, and EVERY schedule of
   thread steps, cancellations of pending futures and deregistrations (`reach`), under the one
   documented requirement of ReadyPipeQueue::new: ready capacity >= number of pipes.

   Model/RpqWake.v adds which parked consumer the ready channel actually wakes (fibre wakes one
   waiter per push and does not pass a wake-up on when a notified recv future is dropped):
   C08_wake_cancel_refuted is the resulting genuine lost wake-up, C08_wake_no_lost_wakeup the
   guarantee outside that class.  Model/WgWait.v is WaitGroup::wait against done() (the code after
   its fix: commit; the pinned-commit order is kept as a refuted legacy witness). *)
From RZ Require Import Base.Prelude Model.Rpq Model.RpqWake Model.WgWait.
From RZ Require Import Proofs.RpqProofs Proofs.RpqWakeProofs Proofs.WgWaitProofs.

(* ---- the invariant, on every reachable state ---- *)
Theorem C08_rpq_inv_reachable : forall c pp cp es, np c <= rcap c -> RpqInv c (run c es (init pp cp)).
Proof. exact rpq_inv_reachable. Qed.

(* a consumer that took a ready entry always finds an item in that pipe's channel *)
Theorem C08_rpq_no_stale_pop : forall c s i b q, np c <= rcap c -> reach c s -> i < nc c ->
  cons s i = CRecv b q -> exists x l, chan s q = x :: l.
Proof. exact rpq_no_stale_pop. Qed.

(* the counters never underflow (debug_assert!(prev > 0) cannot fire; no usize wrap) and
   reserved >= queued >= 0 at every instant *)
Theorem C08_rpq_no_underflow : forall c s, np c <= rcap c -> reach c s ->
  (forall p, (0 <= queued s p <= reserved s p)%Z) /\
  (forall i b q x, i < nc c -> cons s i = CDecQ b q x -> (1 <= queued s q)%Z) /\
  (forall i b q x prev, i < nc c -> cons s i = CDecR b q x prev -> (1 <= reserved s q)%Z).
Proof. exact rpq_no_underflow. Qed.

(* per pipe: (items taken by the consumers, in the order taken) ++ (channel content) = items
   written, in the order written - nothing lost, nothing duplicated, order kept *)
Theorem C08_rpq_exactly_once_in_order : forall c s p, np c <= rcap c -> reach c s ->
  pushed s p = taken_of p s ++ chan s p /\ prefix (taken_of p s) (pushed s p) /\
  (NoDup (pushed s p) -> NoDup (taken_of p s)).
Proof. exact rpq_exactly_once_in_order. Qed.

(* whoever owes the ready list an entry finds room: the arming sends never block or spin, their
   await points are never pending (hence never cancellable), try_pop's single attempt never fails *)
Theorem C08_rpq_arm_never_blocks : forall c s, np c <= rcap c -> reach c s ->
  (forall p, prod s p <> SArm true) /\ (forall i b q x, cons s i <> CArm b q x true) /\
  (forall p, p < np c -> p_arm (prod s p) = 1%Z -> rroom c s = true) /\
  (forall i b q x k, i < nc c -> cons s i = CArm b q x k -> rroom c s = true).
Proof. exact rpq_arm_never_blocks. Qed.

(* an item in a channel is always answered for: a ready entry, a producer about to count/arm,
   or a consumer that holds the pipe *)
Theorem C08_rpq_item_has_owner : forall c s p, np c <= rcap c -> reach c s -> chan s p <> [] ->
  In p (ready s) \/ p_arm (prod s p) = 1%Z \/ p_unc (prod s p) = 1%Z \/
  exists i, i < nc c /\ c_holds p (cons s i) = true.
Proof. exact rpq_item_has_owner. Qed.

(* no lost wake-up (1): nothing in flight, consumers idle or parked, ready list empty
   ==> every channel is empty and every counter is zero *)
Theorem C08_rpq_no_lost_wakeup_quiescent : forall c s, np c <= rcap c -> reach c s ->
  (forall p, p < np c -> prod s p = PIdle) ->
  (forall i, i < nc c -> cons s i = CIdle \/ cons s i = CWait) ->
  ready s = [] ->
  forall p, p < np c -> chan s p = [] /\ queued s p = 0%Z /\ reserved s p = 0%Z.
Proof. exact rpq_no_lost_wakeup_quiescent. Qed.

(* no lost wake-up (2), deadlock freedom: an item is queued and some consumer is receiving
   ==> some thread has an enabled step *)
Theorem C08_rpq_no_lost_wakeup : forall c s p, np c <= rcap c -> reach c s -> p < np c -> chan s p <> [] ->
  (exists i, i < nc c /\ c_wants s i = true) ->
  exists e s', (exists t, e = RunP t \/ e = RunC t) /\ step c s e = Some s'.
Proof. exact rpq_no_lost_wakeup. Qed.

(* progress: a pop() that finds a ready entry returns an item of that pipe within five of its own
   steps, whatever the other threads are doing (it waits for nobody) *)
Theorem C08_rpq_pop_completes : forall c s i q rd, np c <= rcap c -> reach c s -> i < nc c ->
  cons s i = CWait -> ready s = q :: rd ->
  exists k x, k <= 5 /\
    let s' := run c (repeat (RunC i) k) s in
    cons s' i = CIdle /\ hd [] (out s') = [1; N.of_nat i; 4; 0; N.of_nat q; x]%N /\
    taken s' = taken s ++ [(q, x)] /\ cprog s' i = cprog s i.
Proof. exact rpq_pop_completes. Qed.

(* a consumer that has taken a ready entry cannot be cancelled and is never blocked until it returns *)
Theorem C08_rpq_taken_is_returned : forall c s i, np c <= rcap c -> reach c s -> i < nc c ->
  c_midop (cons s i) = true -> ccancel s i = None /\ exists s', step c s (RunC i) = Some s'.
Proof. exact rpq_taken_is_returned. Qed.

(* cancellation (C09 for the queue): only a blocked channel write and a wait on the empty ready
   list can be cancelled; afterwards the invariant holds, channels / queued / ready list / logs
   are untouched, and the cancelled send's reservation is returned *)
Theorem C08_rpq_cancel_safe : forall c s e s', np c <= rcap c -> reach c s ->
  (exists t, e = CancelP t \/ e = CancelC t) -> step c s e = Some s' ->
  RpqInv c s' /\ ready s' = ready s /\ taken s' = taken s /\
  (forall q, chan s' q = chan s q /\ queued s' q = queued s q /\ pushed s' q = pushed s q) /\
  match e with
  | CancelP p => (exists x, prod s p = SBlock x true) /\ prod s' p = PIdle /\
                 reserved s' p = (reserved s p - 1)%Z /\ (forall q, q <> p -> reserved s' q = reserved s q) /\
                 reserved s' p = (queued s' p + csum (c_c3 p) (cons s') (nc c))%Z
  | CancelC i => cons s i = CWait /\ cons s' i = CIdle /\ forall q, reserved s' q = reserved s q
  | _ => True
  end.
Proof. exact rpq_cancel_safe. Qed.

(* detaching loses nothing: once no reference to a slot is left (Weak::upgrade fails) its channel
   is empty and its counters are zero *)
Theorem C08_rpq_dead_slot_empty : forall c s p, np c <= rcap c -> reach c s -> alive c s p = false ->
  chan s p = [] /\ queued s p = 0%Z /\ reserved s p = 0%Z.
Proof. exact rpq_dead_slot_empty. Qed.

(* ---- waker layer ---- *)
(* KNOWN FINDING C08-pop-cancel-after-wake: two consumers parked in pop(); the arming send wakes
   one; its pop() future is dropped before being polled; the other sleeps on a non-empty ready list *)
Theorem C08_wake_cancel_refuted :
  exists c pp cp es, np c <= rcap c /\ wake_lost c (wrun c es (init pp cp, wk0)) = true /\
    chan (fst (wrun c es (init pp cp, wk0))) 0 <> [].
Proof. exact wake_cancel_refuted. Qed.

(* outside that class (no woken pop() dropped before its poll) and always with a single consumer:
   a non-empty ready list with a sleeping consumer has a woken, runnable consumer *)
Theorem C08_wake_no_lost_wakeup : forall c pp cp es,
  no_woken_cancel c (init pp cp, wk0) es \/ nc c <= 1 ->
  wake_lost c (wrun c es (init pp cp, wk0)) = false.
Proof. exact wake_no_lost_wakeup. Qed.

(* the waker-aware run stays inside the states of the abstract model, so all theorems above apply to it *)
Theorem C08_wake_run_reach : forall c es s w, reach c s -> reach c (fst (wrun c es (s, w))).
Proof. exact wrun_reach. Qed.

(* ---- WaitGroup::wait against done() ----
   `g0 true` is the code after the fix: commit (Notified future created before the count check);
   `g0 false` is the order at the pinned commit, kept as the refuted witness. *)
(* headline: on EVERY schedule of add()/done() steps the waiter never sleeps with the count at zero
   and no notify outstanding *)
Theorem C08_wg_fixed_safe : forall xs, glost (grun xs (g0 true)) = false.
Proof. exact wg_fixed_safe. Qed.
(* ... so whenever it cannot move while the count is zero, it has returned *)
Theorem C08_wg_fixed_poll_returns : forall xs, let s := grun xs (g0 true) in
  g_count s = 0 -> g_pend s = 0 -> gstep s = None -> g_pc s = GDone.
Proof. exact wg_fixed_poll_returns. Qed.
(* and a parked waiter returns within its next three steps once the count is zero *)
Theorem C08_wg_proceeds : forall s seen, GJ s -> g_fixed s = true -> g_pc s = GAwait seen ->
  g_count s = 0 -> g_pend s = 0 -> g_pc (grun [GW; GW; GW] s) = GDone.
Proof. exact wg_proceeds. Qed.
(* legacy (fixed finding C08-waitgroup-lost-wakeup): the old order loses the wake-up ... *)
Theorem C08_wg_lost_wakeup_refuted :
  exists xs, glost (grun xs (g0 false)) = true /\ gstep (grun xs (g0 false)) = None /\
             g_count (grun xs (g0 false)) = 0.
Proof. exact wg_lost_wakeup_refuted. Qed.
(* ... exactly in the window between the check and the creation of the future *)
Theorem C08_wg_safe_outside : forall xs, ggap_free (g0 false) xs -> glost (grun xs (g0 false)) = false.
Proof. exact wg_safe_outside. Qed.

(* non-vacuity: two pipes (capacity 1 and 2), two consumers; an interleaving in which pipe 0's
   second send blocks on the full channel and is cancelled, pipe 1 uses the batch path, pipe 0 is
   deregistered while its token is in the ready list; everything committed is delivered in order *)
Example C08_example :
  let c := mkCfg 2 2 (fun p => if p =? 0 then 1 else 2) 2 in
  let pp := fun p => if p =? 0 then [Send 100; Send 101]%N else [TrySendBatch [200; 201; 202]]%N in
  let cp := fun i => if i =? 0 then [Pop; Pop] else [TryPop; Pop] in
  let es := [RunP 0; RunP 0; RunP 0; RunP 0; RunP 0;          (* send 100 complete, pipe 0 armed *)
             RunP 0; RunP 0; RunP 0; RunP 0;                  (* send 101: channel full, parked *)
             RunP 1; RunP 1; RunP 1; RunP 1; RunP 1; RunP 1; RunP 1; RunP 1; RunP 1;  (* batch: 200, 201 in, 202 refused *)
             Dereg 0; CancelP 0;
             RunC 0; RunC 1; RunC 0; RunC 1; RunC 0; RunC 1; RunC 0; RunC 1; RunC 1;
             RunC 0; RunC 0; RunC 0; RunC 0; RunC 0; RunC 1] in
  let s := run c es (init pp cp) in
  np c <= rcap c /\ taken_of 0 s = [100]%N /\ taken_of 1 s = [200; 201]%N /\ pushed s 1 = [200; 201]%N /\
  ready s = [] /\ alive c s 0 = false /\ reserved s 0 = 0%Z /\ cons s 1 = CWait.
Proof. vm_compute. repeat split; reflexivity. Qed.
