(* C10 - REQ and REP enforce strict alternation for every call history.

   Model: Model/ReqRep.v - shared socket state + one program of send | recv | send_multipart |
   recv_multipart calls per task, cut at the lock scopes and await points of req_socket.rs /
   rep_socket.rs, interleaved with peer events.  All theorems quantify over every number of peers and
   tasks, every program and every schedule `xs`; `qnonoverlap` / `pnonoverlap` restrict to schedules
   in which no two calls overlap (any number of tasks, peer events anywhere).

   What the code does (and the model therefore proves):
   * the check-then-act windows in REQ send / REQ recv / REP recv let two racing calls both succeed:
     `*_refuted` (concrete schedules, replayed on the real sockets by the check);
   * outside that class (no overlapping calls) the successful calls follow the alternation automaton:
     `*_alternates_outside`; with no resets (peer detach, failed recv) and single-frame replies that is
     literally send, recv, send, ... / recv, send, recv, ...: `*_strict_alternation`;
   * REP send takes the pending request atomically, so for EVERY schedule a reply is addressed with the
     pipe and routing prefix stored by the immediately preceding successful recv: `rep_reply_to_requester`;
   * a call refused with InvalidState by the state check that opens it has changed nothing, for EVERY
     schedule (REQ and REP); REQ recv's second InvalidState exit ("state changed while waiting") changes
     nothing when calls do not overlap and can undo a concurrent successful send when they do.
   Only statements here; proofs live in Proofs/ReqRepProofs.v. *)
From RZ Require Import Base.Prelude Model.Balancer Model.ReqRep.
From RZ Require Import Proofs.ReqRepProofs.

(* ---- REQ: alternation ---- *)
Theorem C10_req_alternates_outside : forall n tmo progs xs, qnonoverlap xs (qinit n tmo progs) = true -> req_accepts (s_trace (qrun xs (qinit n tmo progs))) = true.
Proof. exact req_alternates_outside. Qed.
Theorem C10_req_alternates_single_task : forall n tmo prog xs, only_task0 xs -> req_accepts (s_trace (qrun xs (qinit n tmo [prog]))) = true.
Proof. exact req_alternates_single_task. Qed.
Theorem C10_req_strict_alternation : forall tr, req_accepts tr = true -> plain tr -> alternates true tr = true.
Proof. exact req_strict_alternation. Qed.
(* two tasks, one send() each, six steps: both succeed, both requests reach the peer *)
Theorem C10_req_alternates_refuted : exists n tmo progs xs, req_accepts (s_trace (qrun xs (qinit n tmo progs))) = false /\ ok_ops (s_log (qrun xs (qinit n tmo progs))) = [OSend; OSend] /\ map fst (q_out (s_sh (qrun xs (qinit n tmo progs)))) = [0%N; 0%N].
Proof. exact req_alternates_refuted. Qed.
Theorem C10_req_recv_race_refuted : exists n tmo progs xs, req_accepts (s_trace (qrun xs (qinit n tmo progs))) = false /\ ok_ops (s_log (qrun xs (qinit n tmo progs))) = [OSend; ORecv; ORecv].
Proof. exact req_recv_race_refuted. Qed.

(* ---- REQ: failed calls ---- *)
Theorem C10_req_check_failed_changes_nothing : forall n tmo progs xs, Forall check_failed_clean (s_log (qrun xs (qinit n tmo progs))).
Proof. exact req_check_failed_changes_nothing. Qed.
Theorem C10_req_failed_calls_change_nothing_outside : forall n tmo progs xs, qnonoverlap xs (qinit n tmo progs) = true -> Forall failed_clean (s_log (qrun xs (qinit n tmo progs))).
Proof. exact req_failed_calls_change_nothing_outside. Qed.
Theorem C10_req_failed_calls_change_nothing_refuted : exists n tmo progs xs e, In e (s_log (qrun xs (qinit n tmo progs))) /\ e_res e = RInvalid true /\ e_dirty e = true /\ map (fun e => (e_task e, c_op (e_call e), e_res e)) (s_log (qrun xs (qinit n tmo progs))) = [(0, OSend, ROk []); (1, OSend, ROk []); (0, ORecv, RInvalid true); (1, ORecv, RInvalid false)].
Proof. exact req_failed_calls_change_nothing_refuted. Qed.

(* ---- REP ---- *)
Theorem C10_rep_alternates_outside : forall n tmo progs xs, pnonoverlap xs (pinit n tmo progs) = true -> rep_accepts (s_trace (prun xs (pinit n tmo progs))) = true.
Proof. exact rep_alternates_outside. Qed.
Theorem C10_rep_alternates_single_task : forall n tmo prog xs, only_task0 xs -> rep_accepts (s_trace (prun xs (pinit n tmo [prog]))) = true.
Proof. exact rep_alternates_single_task. Qed.
Theorem C10_rep_strict_alternation : forall tr, rep_accepts tr = true -> pplain tr -> palternates None tr = true.
Proof. exact rep_strict_alternation. Qed.
(* two tasks, one recv() each: both succeed; the reply goes to the second requester, the first is never answered *)
Theorem C10_rep_alternates_refuted : exists n tmo progs xs, rep_accepts (s_trace (prun xs (pinit n tmo progs))) = false /\ ok_ops (s_log (prun xs (pinit n tmo progs))) = [ORecv; ORecv; OSend] /\ p_out (s_sh (prun xs (pinit n tmo progs))) = [(1, [0; 51])]%N /\ map (fun e => (e_task e, e_res e)) (s_log (prun xs (pinit n tmo progs))) = [(0, ROk [31%N]); (1, ROk [33%N]); (0, ROk []); (1, RInvalid false)].
Proof. exact rep_alternates_refuted. Qed.
(* every schedule: the commit event before a take is the recv that stored exactly this (pipe, prefix),
   and everything handed to a peer is prefix ++ payload of such a take, on that pipe *)
Theorem C10_rep_reply_to_requester : forall n tmo progs xs, let s := prun xs (pinit n tmo progs) in (forall tr1 i tr2, s_trace s = tr1 ++ PETake i :: tr2 -> exists tr0, tr1 = tr0 ++ [PERecv i]) /\ Forall (out_ok (s_trace s)) (p_out (s_sh s)).
Proof. exact rep_reply_to_requester. Qed.
Theorem C10_rep_failed_calls_change_nothing : forall n tmo progs xs, Forall failed_clean (s_log (prun xs (pinit n tmo progs))).
Proof. exact rep_failed_calls_change_nothing. Qed.

(* non-vacuity: two tasks taking turns on one REQ socket (no overlap) make progress *)
Example C10_nonoverlap_satisfiable :
  let progs := [[mkCall OSend 11; mkCall ORecv 0]; [mkCall ORecv 0; mkCall OSend 13; mkCall OSend 15]] in
  let xs := [ST 0; ST 0; ST 0; SE (QReply 0 [0; 21]); ST 1; ST 1; ST 1; ST 0; ST 1; ST 1; ST 1; ST 1]%N in
  qnonoverlap xs (qinit 1 false progs) = true /\
  map (fun e => (e_task e, c_op (e_call e), e_res e)) (s_log (qrun xs (qinit 1 false progs)))
  = [(0, OSend, ROk []); (1, ORecv, ROk [21%N]); (0, ORecv, RInvalid false); (1, OSend, ROk []); (1, OSend, RInvalid false)].
Proof. vm_compute. auto. Qed.
