(* C04 - what a connection delivers depends on the bytes sent, not on read boundaries. *)
From RZ Require Import Base.Prelude Base.Stepper Model.Codec Proofs.CodecProofs Model.Engine
  Proofs.EngineProofs Model.Actor Proofs.ActorProofs Model.RxSession Proofs.RxSessionProofs.
Local Open Scope N_scope.

(* Engine: for every configuration, every byte string (valid transcript or not) and every two
   segmentations of it into reads (with arbitrary read times), the engine ends in the same
   protocol state with the same leftover and has emitted the same action sequence. *)
Theorem C04_engine_chunk_independent : forall cfg g cs1 cs2,
  quiescent cfg g -> concat (map fst cs1) = concat (map fst cs2) ->
  let '(g1, o1) := nets cfg g cs1 in
  let '(g2, o2) := nets cfg g cs2 in
  g_st g1 = g_st g2 /\ g_acc g1 = g_acc g2 /\ o1 = o2.
Proof. exact engine_chunk_independent. Qed.

Theorem C04_fresh_engine_quiescent : forall cfg t, quiescent cfg (e_new t).
Proof. exact e_new_quiescent. Qed.

(* the engine is a prefix-monotone stream function: more bytes only ever append actions *)
Theorem C04_engine_outputs_prefix_monotone : forall cfg g d1 t1 d2 t2,
  quiescent cfg g ->
  prefix (snd (e_net cfg g d1 t1)) (snd (e_net cfg g (d1 ++ d2) t2)).
Proof. exact engine_outputs_prefix_monotone. Qed.

(* Data phase: every well-formed message sequence is delivered as exactly those messages, one
   batch each, for every segmentation *)
Theorem C04_data_phase_delivers : forall cfg g ms cs,
  e_phase (g_st g) = PData -> e_partial (g_st g) = [] -> g_acc g = [] ->
  Forall (wf_msg cfg) ms ->
  concat (map fst cs) = concat (map enc_codec (concat ms)) ->
  let '(g', o) := nets cfg g cs in
  o = map ODeliver ms /\ g_st g' = g_st g /\ g_acc g' = [].
Proof. exact data_phase_delivers. Qed.

(* Session: what the actor queues for the application is exactly the engine's deliveries for the
   whole byte stream - including deliveries made in the read that completed the handshake *)
Theorem C04_actor : forall cfg t cs,
  a_ingress (a_reads true cfg (a_new t) cs) =
  deliveries (snd (e_net cfg (e_new t) (concat (map fst cs)) 0)).
Proof. exact actor_forwards_engine_deliveries. Qed.

(* the handler at the pinned commit (DeliverMessage ignored during the handshake) violated it:
   witness = greeting + READY + one data frame in a single read. Repaired by a fix: commit. *)
Theorem C04_actor_legacy_refuted :
  a_ingress (a_reads false legacy_witness_cfg (a_new 0) [(legacy_witness_stream, 0)]) = [] /\
  deliveries (snd (e_net legacy_witness_cfg (e_new 0) legacy_witness_stream 0)) = [[data_frame false [1; 2; 3]]].
Proof. exact legacy_handler_drops_refuted. Qed.

(* ---------- the receiving session's operational loop (Model/RxSession.v): read arm gated on an empty
   ingress_buffer, drain arm, EOF / fatal error leaving the loop ---------- *)
(* for every gate, schedule and segmentation: handed to the pipe ++ still buffered ++ dropped with the loop = the
   engine's deliveries for the chunks read so far, in order *)
Theorem C04_session_conservation : forall gate cfg t g0 input es,
  let s := x_run gate cfg (x_new t g0 input) es in
  x_pipe s ++ x_buf s ++ x_dropped s = deliveries (snd (nets cfg g0 (x_seen s))) /\ x_seen s ++ x_in s = input.
Proof. exact rx_conservation. Qed.
(* with the code's gate nothing is lost to the peer's EOF: for an error-free stream, every schedule of read / drain
   polls and every segmentation, once the loop has been left everything decoded from the WHOLE stream is in the pipe *)
Theorem C04_session_eof_loses_nothing : forall cfg t g0 input, has_err (snd (nets cfg g0 input)) = false ->
  forall es, let s := x_run gate_empty cfg (x_new t g0 input) es in
  x_dropped s = [] /\ (x_over s = true -> x_pipe s = deliveries (snd (nets cfg g0 input))).
Proof. exact rx_eof_loses_nothing. Qed.
Theorem C04_session_eof_segmentation_independent : forall cfg t input1 input2,
  concat (map fst input1) = concat (map fst input2) ->
  has_err (snd (nets cfg (e_new t) input1)) = false ->
  forall es1 es2,
  let s1 := x_run gate_empty cfg (x_new t (e_new t) input1) es1 in
  let s2 := x_run gate_empty cfg (x_new t (e_new t) input2) es2 in
  x_over s1 = true -> x_over s2 = true -> x_pipe s1 = x_pipe s2.
Proof. exact rx_eof_segmentation_independent. Qed.
(* the gate matters: a refill threshold instead of "empty" loses the buffered tail to EOF *)
Theorem C04_session_refill_gate_loses_refuted :
  let s := x_run gate_lwm2 legacy_witness_cfg (x_new 0 (e_new 0) [(legacy_witness_stream, 0)]) [XRead; XRead] in
  has_err (snd (nets legacy_witness_cfg (e_new 0) [(legacy_witness_stream, 0)])) = false /\
  x_over s = true /\ x_pipe s = [] /\ x_dropped s = [[data_frame false [1; 2; 3]]] /\
  x_over (x_run gate_empty legacy_witness_cfg (x_new 0 (e_new 0) [(legacy_witness_stream, 0)]) [XRead; XRead]) = false.
Proof. exact rx_refill_gate_loses_refuted. Qed.
(* NOT independent of the cuts when the stream ends in a protocol error: messages decoded in the same read as the
   error are dropped with the loop (recorded finding; outside the property's quantifier, which ranges over
   handshake + data transcripts) *)
Theorem C04_session_error_tail_depends_on_cuts_refuted :
  let one := x_run gate_empty legacy_witness_cfg (x_new 0 (e_new 0) [(two_msgs ++ error_tail, 0)]) [XRead; XDrain 5] in
  let two := x_run gate_empty legacy_witness_cfg (x_new 0 (e_new 0) [(two_msgs, 0); (error_tail, 0)]) [XRead; XDrain 5; XRead] in
  x_over one = true /\ x_over two = true /\ x_pipe one = [] /\ length (x_pipe two) = 2%nat.
Proof. exact rx_error_tail_depends_on_cuts_refuted. Qed.

Example C04_example :
  let m := [data_frame true [1; 2]; data_frame false (fill 300 5)] in
  wf_msg legacy_witness_cfg m /\ quiescent legacy_witness_cfg (e_new 0).
Proof.
  split; [|reflexivity]. constructor.
  - exists [data_frame true [1; 2]], (data_frame false (fill 300 5)).
    split; [reflexivity|]. split; [repeat constructor|reflexivity].
  - repeat constructor; vm_compute; congruence.
  - vm_compute. lia.
Qed.
