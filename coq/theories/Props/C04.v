(* C04 - what a connection delivers depends on the bytes sent, not on read boundaries. *)
From RZ Require Import Base.Prelude Base.Stepper Model.Codec Proofs.CodecProofs Model.Engine
  Proofs.EngineProofs Model.Actor Proofs.ActorProofs.
Local Open Scope N_scope.

(* Engine: for every configuration, every byte string (valid transcript or not) and every two
   segmentations of it into reads (with arbitrary read times), the engine ends in the same
   protocol state with the same leftover and has emitted the same action sequence. *)
Theorem C04_engine_chunk_independent : forall cfg g cs1 cs2,
  quiescent cfg g -> concat (map fst cs1) = concat (map fst cs2) ->
  let '(g1, o1) := nets cfg g cs1 in
  let '(g2, o2) := nets cfg g cs2 in
  g_st g1 = g_st g2 /\ g_acc g1 = g_acc g2 /\ o1 = o2.
Proof. exact engine_chunk_independent. Qed.

Theorem C04_fresh_engine_quiescent : forall cfg t, quiescent cfg (e_new t).
Proof. exact e_new_quiescent. Qed.

(* the engine is a prefix-monotone stream function: more bytes only ever append actions *)
Theorem C04_engine_outputs_prefix_monotone : forall cfg g d1 t1 d2 t2,
  quiescent cfg g ->
  prefix (snd (e_net cfg g d1 t1)) (snd (e_net cfg g (d1 ++ d2) t2)).
Proof. exact engine_outputs_prefix_monotone. Qed.

(* Data phase: every well-formed message sequence is delivered as exactly those messages, one
   batch each, for every segmentation *)
Theorem C04_data_phase_delivers : forall cfg g ms cs,
  e_phase (g_st g) = PData -> e_partial (g_st g) = [] -> g_acc g = [] ->
  Forall (wf_msg cfg) ms ->
  concat (map fst cs) = concat (map enc_codec (concat ms)) ->
  let '(g', o) := nets cfg g cs in
  o = map ODeliver ms /\ g_st g' = g_st g /\ g_acc g' = [].
Proof. exact data_phase_delivers. Qed.

(* Session: what the actor queues for the application is exactly the engine's deliveries for the
   whole byte stream - including deliveries made in the read that completed the handshake *)
Theorem C04_actor : forall cfg t cs,
  a_ingress (a_reads true cfg (a_new t) cs) =
  deliveries (snd (e_net cfg (e_new t) (concat (map fst cs)) 0)).
Proof. exact actor_forwards_engine_deliveries. Qed.

(* the handler at the pinned commit (DeliverMessage ignored during the handshake) violated it:
   witness = greeting + READY + one data frame in a single read. Repaired by a fix: commit. *)
Theorem C04_actor_legacy_refuted :
  a_ingress (a_reads false legacy_witness_cfg (a_new 0) [(legacy_witness_stream, 0)]) = [] /\
  deliveries (snd (e_net legacy_witness_cfg (e_new 0) legacy_witness_stream 0)) = [[data_frame false [1; 2; 3]]].
Proof. exact legacy_handler_drops_refuted. Qed.

Example C04_example :
  let m := [data_frame true [1; 2]; data_frame false (fill 300 5)] in
  wf_msg legacy_witness_cfg m /\ quiescent legacy_witness_cfg (e_new 0).
Proof.
  split; [|reflexivity]. constructor.
  - exists [data_frame true [1; 2]], (data_frame false (fill 300 5)).
    split; [reflexivity|]. split; [repeat constructor|reflexivity].
  - repeat constructor; vm_compute; congruence.
  - vm_compute. lia.
Qed.
