(* C17 - a connection's failure stays local; lost outbound connections are retried with a bounded,
   at most geometric back-off. Only statements here; proofs live in Proofs/BackoffProofs.v and
   Proofs/IsolationProofs.v. Durations are nanoseconds; DUR_MAX is the largest std::time::Duration. *)
From RZ Require Import Base.Prelude Model.Backoff Model.Isolation Proofs.BackoffProofs Proofs.IsolationProofs.
Local Open Scope N_scope.

(* ---------------- back-off arithmetic: ReconnectState::on_connection_failure ---------------- *)

(* the first delay is RECONNECT_IVL, cut by RECONNECT_IVL_MAX when that is set *)
Theorem C17_delay0 : forall base max, base <= DUR_MAX ->
  delay base max 0 = if 0 <? max then N.min base max else base.
Proof. exact delay0. Qed.

(* closed form for every attempt count: base * 2^min(attempts,31), cut at Duration::MAX and at max *)
Theorem C17_delay_closed_form : forall base max att,
  delay base max att =
    (if 0 <? max then N.min (N.min (base * 2 ^ N.min att 31) DUR_MAX) max
     else N.min (base * 2 ^ N.min att 31) DUR_MAX).
Proof. exact delay_closed_form. Qed.

(* grows at most geometrically: each delay is at most twice the previous one ... *)
Theorem C17_delay_next_le_double : forall base max att,
  delay base max (att + 1) <= 2 * delay base max att.
Proof. exact delay_next_le_double. Qed.
(* ... also along the real (saturating) update of the u32 counter *)
Theorem C17_delay_next_le_double_sat : forall base max att,
  delay base max (u32_sat_add att 1) <= 2 * delay base max att.
Proof. exact delay_next_le_double_sat. Qed.

(* never shrinks while failures continue *)
Theorem C17_delay_monotone : forall base max a b, a <= b -> delay base max a <= delay base max b.
Proof. exact delay_monotone. Qed.

(* never exceeds RECONNECT_IVL_MAX when that is set (max > 0), and never exceeds Duration::MAX *)
Theorem C17_delay_le_max : forall base max att, 0 < max -> delay base max att <= max.
Proof. exact delay_le_max. Qed.
Theorem C17_delay_le_durmax : forall base max att, delay base max att <= DUR_MAX.
Proof. exact delay_le_durmax. Qed.

(* never below the first delay: min base max when max is set, base otherwise *)
Theorem C17_delay_ge_base_or_max : forall base max att, base <= DUR_MAX ->
  (if 0 <? max then N.min base max else base) <= delay base max att.
Proof. exact delay_ge_base_or_max. Qed.

(* once the cap is reachable the delay sits exactly on it *)
Theorem C17_delay_reaches_max : forall base max att,
  0 < max -> max <= DUR_MAX -> max <= base * 2 ^ N.min att 31 -> delay base max att = max.
Proof. exact delay_reaches_max. Qed.

(* the multiplier 2u32.saturating_pow(attempts.min(31)) is an exact power of two that fits a u32
   for every attempt count (no saturation, no wrap), and saturating_pow is what its name says *)
Theorem C17_multiplier_never_overflows : forall att,
  sat_pow2_u32 (N.min att 31) = 2 ^ N.min att 31 /\
  1 <= sat_pow2_u32 (N.min att 31) /\ sat_pow2_u32 (N.min att 31) <= 2147483648 /\
  sat_pow2_u32 (N.min att 31) < U32MAX.
Proof. exact multiplier_never_overflows. Qed.
Theorem C17_saturating_pow_spec : forall e, sat_pow2_u32 e = N.min (2 ^ e) U32MAX.
Proof. exact sat_pow2_spec. Qed.
(* Duration::saturating_mul on (secs, nanos), as std computes it, is min (d * m) Duration::MAX *)
Theorem C17_duration_saturating_mul : forall secs nanos rhs, nanos < NS ->
  dur_ns (std_dur_sat_mul secs nanos rhs) = dur_sat_mul (dur_ns (secs, nanos)) rhs.
Proof. exact std_dur_sat_mul_ns. Qed.

(* the attempt counter saturates at u32::MAX: never wraps, never decreases on failure *)
Theorem C17_attempts_saturate : forall base max now st d st',
  attempts st <= U32MAX -> on_failure base max now st = Done (d, st') ->
  attempts st' <= U32MAX /\ attempts st <= attempts st' /\
  (attempts st < U32MAX -> attempts st' = attempts st + 1).
Proof. exact attempts_saturate. Qed.

(* on_connection_failure returns exactly `delay`, schedules now + delay *)
Theorem C17_on_failure_spec : forall base max now st d st',
  on_failure base max now st = Done (d, st') ->
  d = delay base max (attempts st) /\ attempts st' = u32_sat_add (attempts st) 1 /\
  instant_add now d = next_at st' /\ next_at st' <> None.
Proof. exact on_failure_done. Qed.

(* on_connection_success resets: the next failure starts from the first delay again *)
Theorem C17_success_resets : forall base max now st,
  on_success st = rstate_default /\
  (base <= DUR_MAX ->
   forall d st', on_failure base max now (on_success st) = Done (d, st') ->
     d = (if 0 <? max then N.min base max else base) /\ attempts st' = 1).
Proof. exact success_resets. Qed.

(* `Instant::now() + delay` cannot panic for any interval the option parser can produce (i32 ms) *)
Theorem C17_no_panic_option_range : forall base max now st,
  base <= OPT_MAX_NS -> snd now < NS -> fst now < 4611686018427387904 ->
  exists st', on_failure base max now st = Done (delay base max (attempts st), st').
Proof. exact on_failure_no_panic_option_range. Qed.

(* whole histories of failures and successes *)
Theorem C17_failure_run : forall base max now k st ds st',
  run_ops base max now st (repeat OpFail k) = Done (ds, st') ->
  ds = fail_delays base max k (attempts st) /\ attempts st' = att_after k (attempts st).
Proof. exact run_fail_seq. Qed.
Theorem C17_failure_run_geometric : forall base max k a,
  chain (fun x y => x <= y /\ y <= 2 * x) (fail_delays base max k a).
Proof. exact fail_delays_chain. Qed.
Theorem C17_history_bounds : forall base max now ops, base <= DUR_MAX -> forall st ds st',
  run_ops base max now st ops = Done (ds, st') ->
  Forall (fun d => (if 0 <? max then N.min base max else base) <= d /\ d <= DUR_MAX /\ (0 < max -> d <= max)) ds
  /\ attempts st' = count_att (attempts st) ops.
Proof. exact run_ops_bounds. Qed.
Theorem C17_history_success_resets : forall base max now pre, base <= DUR_MAX -> forall st ds st',
  run_ops base max now st (pre ++ [OpSucc; OpFail]) = Done (ds, st') ->
  exists ds0, ds = ds0 ++ [if 0 <? max then N.min base max else base] /\ attempts st' = 1.
Proof. exact run_ops_after_success. Qed.

(* TcpConnecter's own retry loop (peer refuses connections): doubling capped by max *)
Theorem C17_connecter_next : forall base cur m c', 0 < cur -> 0 < m -> cur * 2 <= DUR_MAX ->
  conn_next base cur (Some m) = Some c' -> c' <= m /\ c' <= 2 * cur /\ (cur <= m -> cur <= c').
Proof. exact conn_next_bounds. Qed.
Theorem C17_connecter_initial : forall base m ia r, 0 < base -> base <= m -> m * 2 <= DUR_MAX ->
  conn_initial base (Some m) ia = Some r -> base <= r /\ r <= m.
Proof. exact conn_initial_le_max. Qed.
(* ... except that with RECONNECT_IVL > RECONNECT_IVL_MAX > 0 its first wait is RECONNECT_IVL *)
Theorem C17_connecter_first_wait_exceeds_max_refuted :
  exists base m, 0 < m /\ m < base /\ conn_initial base (Some m) 0 = Some base.
Proof. exact conn_first_wait_exceeds_max_refuted. Qed.

(* ---------------- isolation: the socket core's reaction to what happens on its connections ---------------- *)

(* the decision table: from Running, the socket leaves Running exactly on the inputs listed in keeps_running *)
Theorem C17_stays_running_iff : forall c s i, ph s = Running ->
  (ph (step c s i) = Running <-> keeps_running (inproc_names s) i = true).
Proof. exact stays_running_iff. Qed.

(* a failure on a connection - whatever the error class - tears down only that connection *)
Theorem C17_fault_is_local : forall c s is,
  ph s = Running -> Forall (fun i => is_conn_fault i = true) is ->
  ph (run c s is) = Running /\ inproc_names (run c s is) = inproc_names s /\
  forall e, In e (eps s) -> (forall i, In i is -> stopped_id i <> Some (e_id e)) -> In e (eps (run c s is)).
Proof. exact fault_is_local. Qed.

(* the same for every input sequence the code handles without Err (events of other sockets included) *)
Theorem C17_run_stays_running : forall c is s, ph s = Running ->
  Forall (fun i => keeps_running (inproc_names s) i = true) is ->
  ph (run c s is) = Running /\ inproc_names (run c s is) = inproc_names s.
Proof. exact run_stays_running. Qed.
Theorem C17_run_keeps_endpoint : forall c is s e, In e (eps s) ->
  (forall i, In i is -> stopped_id i <> Some (e_id e)) ->
  (forall i, In i is -> added_uri i <> Some (e_uri e)) ->
  In e (eps (run c s is)).
Proof. exact run_keeps_endpoint. Qed.

(* a lost outbound connection is scheduled for a retry after exactly the back-off delay *)
Theorem C17_reconnect_scheduled : forall c s child u e er,
  ph s = Running -> find_by_id child (eps s) = Some e -> e_kind e = Session -> e_outbound e = true ->
  ivl_positive c = true -> is_fatal_connect_error er = false ->
  let s' := step c s (EvActorStopping true child (Some u) (Some er)) in
  ph s' = Running /\
  recon_get u (recon s') = Some (u32_sat_add (attempts_of u s) 1, Some (delay (cfg_base c) (cfg_max c) (attempts_of u s))) /\
  (forall u', u' <> u -> recon_get u' (recon s') = recon_get u' (recon s)).
Proof. exact reconnect_scheduled. Qed.
Theorem C17_reconnect_scheduled_attempt : forall c s u er,
  ivl_positive c = true -> is_fatal_connect_error er = false ->
  let s' := step c s (EvConnAttemptFailed true u er) in
  ph s' = ph s /\ eps s' = eps s /\
  recon_get u (recon s') = Some (u32_sat_add (attempts_of u s) 1, Some (delay (cfg_base c) (cfg_max c) (attempts_of u s))).
Proof. exact reconnect_scheduled_attempt. Qed.
Theorem C17_handshake_resets_backoff : forall c s u v,
  ph s = Running -> recon_get u (recon s) = Some v ->
  recon_get u (recon (step c s (EvPeerIdentity true (Some u)))) = Some (0, None).
Proof. exact handshake_resets_backoff. Qed.

(* ... but only if the session was already registered: when its ActorStopping event overtakes its
   NewConnectionEstablished command, no retry is scheduled and the dead session stays registered *)
Theorem C17_reconnect_scheduled_refuted_stop_before_attach :
  let s := run demo_cfg demo_core [EvActorStopping true 200 (Some 300) (Some ErrClosed); CmdNewConnSca out_conn true] in
  ph s = Running /\ recon_get 300 (recon s) = None /\ In out_conn (eps s).
Proof. exact stop_before_attach_loses_reconnect. Qed.
Theorem C17_reconnect_scheduled_in_order :
  let s := run demo_cfg demo_core [CmdNewConnSca out_conn true; EvActorStopping true 200 (Some 300) (Some ErrClosed)] in
  ph s = Running /\ recon_get 300 (recon s) = Some (1, Some 100000000) /\ eps s = eps demo_core.
Proof. exact attach_before_stop_schedules_reconnect. Qed.

(* where the code does NOT keep things local (witnesses on the faithful model) *)
Theorem C17_inproc_incompatible_stays_local :
  ph (step demo_cfg demo_core (EvInprocRequest 7 false false true bad_conn)) = Running.
Proof. exact inproc_incompatible_stays_local. Qed.
Theorem C17_fault_is_local_refuted_event_bus_lag : ph (step demo_cfg demo_core EvLagged) <> Running.
Proof. exact lagged_shuts_socket_down. Qed.
Theorem C17_fault_is_local_refuted_dead_session_attach :
  ph (step demo_cfg demo_core (CmdNewConnSca bad_conn false)) <> Running.
Proof. exact dead_sca_attach_shuts_socket_down. Qed.

(* non-vacuity: RECONNECT_IVL = 100 ms, RECONNECT_IVL_MAX = 400 ms; 100, 200, 400, 400 then a success and 100 again;
   and a protocol violation on an accepted connection leaves listener and healthy session in place *)
Example C17_example :
  run_ops 100000000 400000000 (1000, 0) rstate_default [OpFail; OpFail; OpFail; OpFail; OpSucc; OpFail]
    = Done ([100000000; 200000000; 400000000; 400000000; 100000000], {| attempts := 1; next_at := Some (1000, 100000000) |})
  /\ delay 100000000 0 40 = 100000000 * 2147483648
  /\ delay DUR_MAX 0 4294967295 = DUR_MAX
  /\ (let s := run demo_cfg demo_core [CmdNewConnSca bad_conn true; EvActorStopping true 9 (Some 900) (Some ErrProtocol)] in
      ph s = Running /\ eps s = eps demo_core)
  /\ is_conn_fault (EvActorStopping true 9 (Some 900) (Some ErrProtocol)) = true.
Proof. vm_compute. repeat split. Qed.

(* ---- RECONNECT_IVL / RECONNECT_IVL_MAX as the application sets them (option layer, Model/Options.v) ---- *)
From RZ Require Import Model.Options Proofs.OptionsProofs Proofs.OptionsCompose.
Theorem C17_reconnect_option_semantics : forall (o : opts) (b : bytes), (match apply_opt o RECONNECT_IVL b with | inl o' => exists v, i32_of b = Some v /\ -1 <= v /\ reconnect_ivl_of o' = (if (v =? -1) || (v =? 0) then None else Some (Z.to_N v)) /\ (forall g, g <> F_reconnect_ivl -> o' g = o g) | inr e => (e = EVal 0 /\ i32_of b = None) \/ (e = EVal RECONNECT_IVL /\ exists v, i32_of b = Some v /\ v < -1) end)%Z /\ (match apply_opt o RECONNECT_IVL_MAX b with | inl o' => exists v, i32_of b = Some v /\ 0 <= v /\ reconnect_ivl_max_of o' = Some (Z.to_N v) /\ (forall g, g <> F_reconnect_ivl_max -> o' g = o g) | inr e => (e = EVal 0 /\ i32_of b = None) \/ (e = EVal RECONNECT_IVL_MAX /\ exists v, i32_of b = Some v /\ v < 0) end)%Z.
Proof. exact reconnect_semantics. Qed.
Theorem C17_reconnect_max_option_caps : forall (o : opts) (m : Z) (base att : N), (0 < m <= 2147483647)%Z -> exists o', apply_opt o RECONNECT_IVL_MAX (i32_bytes m) = inl o' /\ reconnect_ivl_max_of o' = Some (Z.to_N m) /\ delay base (Z.to_N m * 1000000) att <= Z.to_N m * 1000000.
Proof. exact reconnect_max_option_caps. Qed.
