(* C12 - a SUB socket delivers exactly what its current subscriptions match.
   Only statements here; proofs live in Proofs/TrieProofs.v.  Model: Model/Trie.v
   (SubscriptionTrie of trie.rs and the FilteredAnonymous filter of ready_pipe_queue.rs).
   `count_of t s` is the number of active subscriptions of exactly the topic s. *)
From RZ Require Import Base.Prelude Model.Trie Proofs.TrieProofs Model.PubRoute Proofs.PubRouteProofs.
Local Open Scope N_scope.

(* subscribe adds exactly one occurrence of s to the multiset (usize wrap-around excluded by the premise;
   without it the count wraps: C12_subscribe_wraps) *)
Theorem C12_subscribe_abs : forall t s s', count_of t s + 1 < U64 ->
  count_of (subscribe t s) s' = count_of t s' + (if bytes_eqb s s' then 1 else 0).
Proof. exact subscribe_abs. Qed.
Theorem C12_subscribe_wraps : forall t s, count_of (subscribe t s) s = wrap_add1 (count_of t s).
Proof. exact count_of_subscribe_same. Qed.
(* ... so the 2^64-th subscription of one topic deactivates it (unreachable in practice; everywhere
   else the property holds: C12_subscribe_abs, C12_run_refines) *)
Theorem C12_subscribe_overflow_refuted :
  exists t s, 0 < count_of t s /\ count_of (subscribe t s) s = 0 /\ matches (subscribe t s) s = false.
Proof. exact subscribe_overflow_refuted. Qed.

(* unsubscribe removes one occurrence if there is one and nothing otherwise (N.sub truncates at 0);
   it answers true exactly when the last occurrence went away *)
Theorem C12_unsubscribe_abs : forall t s s',
  count_of (fst (unsubscribe t s)) s' = count_of t s' - (if bytes_eqb s s' then 1 else 0)
  /\ snd (unsubscribe t s) = (count_of t s =? 1).
Proof. exact unsubscribe_abs. Qed.
(* unsubscribing something that is not subscribed changes nothing at all *)
Theorem C12_unsubscribe_absent_is_identity : forall t s, count_of t s = 0 -> unsubscribe t s = (t, false).
Proof. exact unsubscribe_absent. Qed.

(* matches = "some active subscription is a byte-prefix of the topic" *)
Theorem C12_matches_spec : forall t m,
  matches t m = true <-> exists s, 0 < count_of t s /\ prefix s m.
Proof. exact matches_spec. Qed.
Theorem C12_empty_subscription_matches_everything : forall t m, 0 < count_of t [] -> matches t m = true.
Proof. exact empty_topic_matches_all. Qed.
Theorem C12_no_subscription_matches_nothing : forall m, matches empty m = false.
Proof. exact matches_empty. Qed.

(* all histories: the multiplicity of every topic is its +1/-1 balance (never below 0) *)
Theorem C12_history_balance : forall ops t s,
  count_of t s + N.of_nat (length ops) < U64 ->
  count_of (fst (run t ops)) s = fold_left (bal s) ops (count_of t s).
Proof. exact count_of_run. Qed.
(* a topic subscribed n times stays active until unsubscribed n times *)
Theorem C12_n_subs_need_n_unsubs : forall t s n k,
  count_of t s + N.of_nat n + N.of_nat k < U64 ->
  let t' := fst (run t (repeat (Sub s) n ++ repeat (Unsub s) k)) in
  count_of t' s = count_of t s + N.of_nat n - N.of_nat k
  /\ ((k < n)%nat -> forall m, prefix s m -> matches t' m = true).
Proof. exact n_subs_need_n_unsubs. Qed.

(* refinement: every history of subscribe / unsubscribe / matches / get_all_topics on the trie gives,
   op by op, the results of the multiset reference (topic lists compared as duplicate-free sets) *)
Theorem C12_run_refines : forall ops,
  N.of_nat (length ops) < U64 ->
  refines (fst (run empty ops)) (fst (spec_run [] ops))
  /\ Forall2 ret_equiv (snd (run empty ops)) (snd (spec_run [] ops)).
Proof. exact run_refines_from_empty. Qed.
Theorem C12_get_all_topics_spec : forall t, wf t ->
  NoDup (get_all_topics t) /\ forall s, In s (get_all_topics t) <-> 0 < count_of t s.
Proof. exact get_all_topics_spec. Qed.

(* the filter looks at the first frame only *)
Theorem C12_filter_first_frame_only : forall t f r1 r2, passes t (f :: r1) = passes t (f :: r2).
Proof. exact passes_first_frame_only. Qed.
(* single send, sync send and batched send forward the same messages, in order *)
Theorem C12_filter_paths_agree : forall t cap items,
  (length (filter (passes t) items) <= cap)%nat ->
  try_send_batch t true cap items = (filter (passes t) items, [], frames items)
  /\ flat_map (fun m => forwarded1 (send_single t true m)) items = filter (passes t) items
  /\ flat_map (fun m => forwarded1 (try_send_sync t true true m)) items = filter (passes t) items.
Proof. exact filter_paths_agree. Qed.
(* back-pressure in the batched path: a prefix of the deque is consumed, its filter forwarded in
   order, the rest left as it was *)
Theorem C12_batch_backpressure_keeps_order : forall t cap items s r n,
  try_send_batch t true cap items = (s, r, n) ->
  exists consumed, items = consumed ++ r /\ s = filter (passes t) consumed /\ n = frames consumed
    /\ (length s <= cap)%nat.
Proof. exact batch_backpressure. Qed.

(* headline *)
Theorem C12_sub_forwards_iff_active_prefix : forall ops items cap,
  N.of_nat (length ops) < U64 ->
  let t := fst (run empty ops) in
  let subs := fst (spec_run [] ops) in
  (length (filter (passes t) items) <= cap)%nat ->
  fst (fst (try_send_batch t true cap items))
    = filter (fun m => spec_matches subs (topic_of m)) items
  /\ forall m, In m (fst (fst (try_send_batch t true cap items))) <->
               In m items /\ exists s, In s subs /\ prefix s (topic_of m).
Proof. exact sub_forwards_iff_active_prefix. Qed.

(* ---- the publisher side: Distributor::send_to_all over the session interface (Model/PubRoute.v) ---- *)

(* each peer's outcome is that of its own send: a peer with room always gets the message and a slow,
   stalled, closed or stale peer changes no other peer's outcome *)
Theorem C12_pub_outcomes_independent : forall d t now ps,
  map fst (fst (send_to_all d t now ps)) = map (fun p => fst (peer_send d t p)) ps.
Proof. exact send_to_all_outcomes. Qed.
(* ... but the peers are served in sequence: publish time = sum of the waits on the full peers *)
Theorem C12_pub_total_time : forall d t now ps,
  snd (send_to_all d t now ps) = fold_left (fun acc p => acc + snd (peer_send d t p)) ps now.
Proof. exact send_to_all_total. Qed.
(* "never blocks the publisher or delays delivery to other subscribers" is FALSE for the code as it
   is with SNDTIMEO unset: a stalled subscriber in front of a healthy one costs the full 30 s *)
Theorem C12_pub_never_blocks_refuted :
  exists ps, send_to_all 30000 TNone 0 ps = ([(Dropped, 30000); (Sent, 30000)], 30000)
             /\ nth 1 ps Closed = Room.
Proof. exact pub_never_blocks_refuted. Qed.
(* it holds outside that class: SNDTIMEO = 0, or no full peer *)
Theorem C12_pub_zero_timeout_never_blocks : forall d now ps, snd (send_to_all d TZero now ps) = now.
Proof. exact zero_timeout_never_blocks. Qed.
Theorem C12_pub_all_room_no_delay : forall d t now ps,
  Forall (fun p => p = Room) ps -> send_to_all d t now ps = (map (fun _ => (Sent, now)) ps, now).
Proof. exact all_room_no_delay. Qed.

(* non-vacuity: a concrete history with nested, repeated, empty and binary topics *)
Example C12_example :
  let ops := [Sub [1; 2]; Sub [1; 2]; Sub [1; 2; 3]; Unsub [1; 2]; Match [1; 2; 9]; Unsub [1; 2];
              Match [1; 2; 9]; Match [1; 2; 3; 4]; Unsub [7]; Sub []; Match [255]; Topics] in
  snd (run empty ops) =
    [RNone; RNone; RNone; RBool false; RBool true; RBool true; RBool false; RBool true; RBool false;
     RNone; RBool true; RTopics [[]; [1; 2; 3]]]
  /\ N.of_nat (length ops) < U64
  /\ try_send_batch (fst (run empty (firstn 8 ops))) true 1
       [[Some [9]; Some [1; 2; 3]]; [Some [1; 2; 3]; None]; [None]; [Some [1; 2; 3; 4]]]
     = ([[Some [1; 2; 3]; None]], [[Some [1; 2; 3; 4]]], 5%nat).
Proof. vm_compute. repeat split; reflexivity. Qed.
