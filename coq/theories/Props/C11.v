(* C11 - a ROUTER addresses by true identity; envelopes round-trip unchanged.
   Only statements here; proofs live in Proofs/RouterMapProofs.v and Proofs/EnvelopeProofs.v. *)
From RZ Require Import Base.Prelude Model.RouterMap Model.Envelope Model.RouterGate Proofs.RouterMapProofs Proofs.EnvelopeProofs Proofs.RouterGateProofs.
Local Open Scope N_scope.

(* ---- the two identity maps, every history of attach / announce / detach / stale-cleanup ---- *)
(* general invariant (colliding identities included): unique keys; every live pipe has its reverse entry with
   its latest identity; every forward entry (u, st, o) of identity i is backed by its recorded owner o: o is a live
   pipe, its latest identity is i, and the entry holds exactly o's uri and strategy *)
Theorem C11_router_inv : forall uri_of placeholder h,
  RInv uri_of (run uri_of placeholder h) (spec_run placeholder h).
Proof. exact router_inv_holds. Qed.
Theorem C11_router_inv_unfolded : forall uri_of placeholder h,
  let m := run uri_of placeholder h in let s := spec_run placeholder h in
  NoDup (map fst (fwd m)) /\ NoDup (map fst (rev m)) /\ NoDup (map fst s) /\
  (forall p i st, sget p s = Some (i, st) -> rget p m = Some i) /\
  (forall i u st o, fget i m = Some (u, st, o) -> rget o m = Some i /\ sget o s = Some (i, st) /\ u = uri_of o).
Proof. exact router_inv_holds. Qed.

(* identities pairwise distinct among live pipes: lookup by identity leads to the pipe that announced it (which
   is the entry's owner), the reverse map is exactly the live pipes, nothing else is in either map *)
Theorem C11_lookup_true_peer : forall uri_of placeholder h,
  distinct_hist placeholder h = true ->
  let m := run uri_of placeholder h in let s := spec_run placeholder h in
  (forall p i st, sget p s = Some (i, st) -> rget p m = Some i /\ fget i m = Some (uri_of p, st, p)) /\
  (forall p i, rget p m = Some i -> exists st, sget p s = Some (i, st)) /\
  (forall i u st o, fget i m = Some (u, st, o) -> sget o s = Some (i, st) /\ u = uri_of o) /\
  (forall p q i, rget p m = Some i -> rget q m = Some i -> p = q).
Proof. exact lookup_true_peer_holds. Qed.

(* colliding identities, exact behaviour *)
(* the later claimant gets the forward entry and becomes its owner; nobody else's reverse entry moves *)
Theorem C11_collision_last_wins : forall id p u t m,
  (fget id (add_peer id p u m) = Some (u, SDefault, p) /\ forall q, q <> p -> rget q (add_peer id p u m) = rget q m) /\
  (fget id (update_peer_identity p id u t m) = Some (u, strat_of_type t, p) /\
   forall q, q <> p -> rget q (update_peer_identity p id u t m) = rget q m).
Proof. exact (fun id p u t m => conj (collision_last_wins_add id p u m) (collision_last_wins_upd id p u t m)). Qed.
(* p and q both carry id, the forward entry of id belongs to p: q detaching takes away q's reverse entry and
   nothing else - the live pipe p stays addressable *)
Theorem C11_collision_detach_keeps_live : forall p q id u st m,
  p <> q -> rget p m = Some id -> rget q m = Some id -> fget id m = Some (u, st, p) ->
  let m' := remove_peer_by_read_pipe q m in
  rget p m' = Some id /\ fget id m' = Some (u, st, p) /\
  (forall j, fget j m' = fget j m) /\
  (forall k, rget k m' = if k =? q then None else rget k m).
Proof. exact collision_detach_keeps_live. Qed.
(* likewise when q re-announces under another identity id' (update_peer_identity) or is attached anew under id'
   (add_peer): q's own entry for id' appears, every other forward entry - that of id included - stays *)
Theorem C11_collision_reannounce_keeps_live : forall p q id id' u st u' t m,
  p <> q -> id' <> id -> rget p m = Some id -> rget q m = Some id -> fget id m = Some (u, st, p) ->
  let m' := update_peer_identity q id' u' t m in
  rget p m' = Some id /\ fget id m' = Some (u, st, p) /\
  fget id' m' = Some (u', strat_of_type t, q) /\
  (forall j, j <> id' -> fget j m' = fget j m) /\
  (forall k, rget k m' = if k =? q then Some id' else rget k m).
Proof. exact collision_reannounce_keeps_live. Qed.
Theorem C11_collision_reattach_keeps_live : forall p q id id' u st u' m,
  p <> q -> id' <> id -> rget p m = Some id -> rget q m = Some id -> fget id m = Some (u, st, p) ->
  let m' := add_peer id' q u' m in
  rget p m' = Some id /\ fget id m' = Some (u, st, p) /\
  fget id' m' = Some (u', SDefault, q) /\
  (forall j, j <> id' -> fget j m' = fget j m) /\
  (forall k, rget k m' = if k =? q then Some id' else rget k m).
Proof. exact collision_reattach_keeps_live. Qed.
(* the dual: the detaching pipe q IS the owner - its entry goes (only that one); the other pipe p keeps its
   reverse entry and is then not addressable, but nothing is delivered to a wrong peer *)
Theorem C11_collision_owner_detach_removes : forall p q id u st m,
  p <> q -> rget p m = Some id -> rget q m = Some id -> fget id m = Some (u, st, q) ->
  let m' := remove_peer_by_read_pipe q m in
  rget p m' = Some id /\ fget id m' = None /\
  (forall j, j <> id -> fget j m' = fget j m) /\
  (forall k, rget k m' = if k =? q then None else rget k m).
Proof. exact collision_owner_detach_removes. Qed.
(* ALL histories, no distinctness premise: whatever forward entry an identity has, it leads to a pipe that is
   live now and whose latest attach/announcement carried that identity (the latest claimant), with its uri and
   strategy; a message addressed to the identity is handed to that pipe's connection *)
Theorem C11_latest_claimant_reachable : forall uri_of placeholder h,
  let m := run uri_of placeholder h in let s := spec_run placeholder h in
  forall i u st o, fget i m = Some (u, st, o) ->
    u = uri_of o /\ rget o m = Some i /\ sget o s = Some (i, st).
Proof. exact latest_claimant_reachable. Qed.
Theorem C11_send_reaches_latest_claimant : forall uri_of placeholder h i u st o mandatory manual conn hint b payload,
  fget i (run uri_of placeholder h) = Some (u, st, o) -> i <> [] -> conn (uri_of o) = COk ->
  sget o (spec_run placeholder h) = Some (i, st) /\
  router_send_multipart mandatory manual conn hint (run uri_of placeholder h) ((b, i) :: payload) =
  (run uri_of placeholder h, SSent (uri_of o) (router_wire st manual (b, i) payload)).
Proof. exact send_reaches_latest_claimant. Qed.
(* ... and the entry stays with its owner o: attach / announce / detach of any OTHER pipe q leaves it alone,
   unless q claims the identity itself and thereby becomes the owner (any map m) *)
Theorem C11_nonowner_step_keeps_entry : forall uri_of placeholder m i u st o q,
  fget i m = Some (u, st, o) -> q <> o ->
  fget i (ev_step uri_of placeholder m (EDetach q)) = Some (u, st, o) /\
  (forall ido, fget i (ev_step uri_of placeholder m (EAttach q ido)) =
               if ident_eqb (eff_id placeholder q ido) i then Some (uri_of q, SDefault, q) else Some (u, st, o)) /\
  (forall ido t, fget i (ev_step uri_of placeholder m (EAnnounce q ido t)) =
                 if ident_eqb (eff_id placeholder q ido) i then Some (uri_of q, strat_of_type t, q) else Some (u, st, o)).
Proof. exact nonowner_step_keeps_entry. Qed.
(* the history that used to lose the live peer: 1 and 2 announce "A", the older pipe 1 detaches - "A" leads to 2 *)
Theorem C11_collision_older_detach_example :
  let h := [EAttach 1 None; EAnnounce 1 (Some [65]) (Some TDealer);
            EAttach 2 None; EAnnounce 2 (Some [65]) (Some TDealer); EDetach 1] in
  let m := run (fun q => q + 100) placeholder_id h in
  sget 2 (spec_run placeholder_id h) = Some ([65], SDealer) /\ sget 1 (spec_run placeholder_id h) = None /\
  rget 2 m = Some [65] /\ rget 1 m = None /\
  fget [65] m = Some (102, SDealer, 2) /\
  forall mandatory manual conn hint b payload, conn 102 = COk ->
    router_send_multipart mandatory manual conn hint m ((b, [65]) :: payload) =
    (m, SSent 102 (router_wire SDealer manual (b, [65]) payload)).
Proof. exact collision_older_detach_example. Qed.
(* what still fails without the distinctness premise: the NEWER claimant (the owner) detaches while the older one
   is attached - the older live peer that announced the identity cannot be addressed (HostUnreachable / silent drop) *)
Theorem C11_older_claimant_after_owner_leaves_refuted :
  exists h p i st, sget p (spec_run placeholder_id h) = Some (i, st) /\
                   rget p (run (fun q => q + 100) placeholder_id h) = Some i /\
                   fget i (run (fun q => q + 100) placeholder_id h) = None /\
                   forall mandatory manual conn hint b payload,
                     snd (router_send_multipart mandatory manual conn hint (run (fun q => q + 100) placeholder_id h) ((b, i) :: payload))
                     = if mandatory then SUnreachable else SDropped.
Proof. exact older_claimant_unreachable_after_owner_leaves. Qed.
(* remove_peer_by_identity: any candidate may be the one HashMap iteration meets first; with at most one
   candidate the order is irrelevant *)
Theorem C11_remove_by_identity_any_candidate : forall k id m,
  NoDup (map fst (rev m)) -> fget id m <> None -> rget k m = Some id ->
  forall q, rget q (remove_peer_by_identity k id m) = if q =? k then None else rget q m.
Proof. exact rmi_any_candidate. Qed.
Theorem C11_remove_by_identity_oracle_irrelevant : forall h1 h2 id m,
  NoDup (map fst (rev m)) -> (forall p q, rget p m = Some id -> rget q m = Some id -> p = q) ->
  (forall q, rget q (remove_peer_by_identity h1 id m) = rget q (remove_peer_by_identity h2 id m)) /\
  (forall j, fget j (remove_peer_by_identity h1 id m) = fget j (remove_peer_by_identity h2 id m)).
Proof. exact (fun h1 h2 id m ND U => conj (rmi_hint_irrelevant h1 h2 id m ND U)
                (fun j => eq_trans (rmi_fget h1 id m j) (eq_sym (rmi_fget h2 id m j)))). Qed.

(* ---- receive side: identity label and the identity-finalization gate, every event order ---- *)
(* a pipe whose peer's effective identity is id (its ROUTING_ID, or the placeholder if it announced none), attached
   either with that identity (inproc, io-uring) or pre-handshake with a placeholder (tcp/ipc): every message recv
   hands out for that pipe is labelled id - whatever the order of first message, identity event and recv calls;
   never a placeholder for a peer that announced an identity *)
Theorem C11_gate_labelled : forall (B : Type) placeholder p id h,
  handshaking_pipe B placeholder p id (gate0 B) h = true ->
  forall lbl b, In (p, lbl, b) (g_out (grun B placeholder h)) -> lbl = id.
Proof. exact gate_labelled_holds. Qed.
(* nothing is handed out before its pipe is finalized, and the label is the identity recorded at that moment *)
Theorem C11_gate_not_before_final : forall (B : Type) placeholder g e p lbl b,
  ~ In (p, lbl, b) (g_out g) -> In (p, lbl, b) (g_out (gstep B placeholder g e)) ->
  is_final B p g = true /\ lbl = label B placeholder p g.
Proof. exact gate_not_before_final. Qed.
(* per pipe: delivered ++ held ++ queued = arrivals, i.e. release in arrival order, nothing lost or duplicated,
   for schedules where no identity event lands between a failed take_finalized_held and the queue pop *)
Theorem C11_gate_fifo : forall (B : Type) placeholder p h,
  detach_free B p h = true -> no_final_in_window B placeholder (gate0 B) h = true ->
  let g := grun B placeholder h in
  arrivals B p h = delivered B p g ++ of_pipe p (g_held g) ++ of_pipe p (g_queue g).
Proof. exact gate_fifo_holds. Qed.
(* an identity event inside that window lets a pipe's second message overtake its held first one *)
Theorem C11_gate_fifo_window_refuted :
  exists h p, detach_free N p h = true /\
              arrivals N p h = [10; 20] /\
              delivered N p (grun N placeholder_id h) = [20; 10] /\
              forall lbl b, In (p, lbl, b) (g_out (grun N placeholder_id h)) -> lbl = [65].
Proof. exact gate_fifo_window_refuted. Qed.

(* ---- envelopes: every payload (any number of frames, empty frames anywhere), AUTO_DELIMITER default ---- *)
Theorem C11_envelope_roundtrip :
  (* DEALER -> ROUTER *)
  (forall pt id payload, payload <> [] -> pt <> Some TRouter ->
     one_message (dealer_prepare false payload) /\
     router_recv false pt id (dealer_prepare false payload) = (true, id) :: norm_flags payload) /\
  (* ROUTER -> DEALER (send_multipart; strategy Default or Dealer): for EVERY flag pattern the application left
     on the payload frames the contents arrive unchanged, as one message, flags = MORE on all but the last *)
  (forall s idm payload, s = SDefault \/ s = SDealer -> snd idm <> [] ->
     dealer_process_incoming false (router_wire s false idm payload) = norm_flags payload /\
     one_message (router_wire s false idm payload)) /\
  (* ROUTER -> DEALER (send part by part) *)
  (forall mandatory conn hint m id u s o payload,
     id <> [] -> fget id m = Some (u, s, o) -> conn u = COk -> payload <> [] -> more_ok payload ->
     dealer_process_incoming false
       (wire_to u (snd (router_send_parts mandatory false conn hint (m, None) ((true, id) :: payload)))) = payload) /\
  (* REQ -> ROUTER *)
  (forall pt id msg, pt <> Some TRouter -> router_recv false pt id (req_send msg) = [(true, id); no_more msg]) /\
  (* ROUTER -> REQ (send_multipart; strategy Req) *)
  (forall manual idm payload,
     req_recv_multipart (router_wire SReq manual idm payload) = norm_flags payload /\
     one_message (router_wire SReq manual idm payload)) /\
  (* REQ -> REP -> REQ *)
  (forall msg, rep_extract (req_send msg) = ([delim true], [no_more msg])) /\
  (forall reply, reply <> [] -> req_recv_multipart (rep_send_multipart [delim true] reply) = norm_flags reply) /\
  (* DEALER -> REP -> DEALER *)
  (forall payload, payload <> [] -> rep_extract (dealer_prepare false payload) = ([delim true], norm_flags payload)) /\
  (forall reply, reply <> [] -> dealer_process_incoming false (rep_send_multipart [delim true] reply) = norm_flags reply) /\
  (* DEALER <-> DEALER *)
  (forall payload, payload <> [] -> dealer_process_incoming false (dealer_prepare false payload) = norm_flags payload).
Proof.
  exact (conj (fun pt id payload H P => conj (dealer_prepare_one_message false payload H) (rt_dealer_router pt id payload H P))
        (conj (fun s idm payload S I => conj (rt_router_dealer s idm payload S I) (router_wire_auto_one_message s idm payload S))
        (conj rt_router_parts_dealer
        (conj rt_req_router (conj (fun manual idm payload => conj (rt_router_req manual idm payload) (router_wire_req_one_message manual idm payload)) (conj rt_req_rep (conj rt_rep_req (conj rt_dealer_rep (conj rt_rep_dealer rt_dealer_dealer))))))))).
Qed.
(* what send_multipart does to the flags: whatever the application left on identity and payload frames, the wire
   carries MORE on every frame but the last (so it is one message whenever it is non-empty) *)
Theorem C11_router_wire_flags : forall s manual idm payload,
  more_ok (router_wire s manual idm payload) /\
  (strat_prepare s manual idm payload <> [] -> one_message (router_wire s manual idm payload)).
Proof. exact (fun s manual idm payload => conj (router_wire_flags s manual idm payload) (router_wire_one_message s manual idm payload)). Qed.
(* frame contents survive flag normalisation *)
Theorem C11_normalisation_keeps_contents : forall l,
  datas (norm_flags l) = datas l /\ datas (clear_last l) = datas l.
Proof. exact (fun l => conj (datas_norm l) (datas_clear l)). Qed.
(* the zero-frame payload is not representable: it arrives as one empty frame *)
Theorem C11_empty_payload_becomes_one_empty_frame :
  (forall pt id, pt <> Some TRouter -> router_recv false pt id (dealer_prepare false []) = [(true, id); (false, [])]) /\
  rep_send_multipart [delim true] [] = [delim true; delim false].
Proof. exact (conj rt_dealer_router_nil rt_rep_nil). Qed.
(* REQ.recv() hands out only the first frame of a reply *)
Theorem C11_req_recv_first_frame_only : forall manual idm x t,
  req_recv (router_wire SReq manual idm (x :: t)) = hd (false, []) (norm_flags (x :: t)).
Proof. exact rt_router_req_recv. Qed.

(* ---- AUTO_DELIMITER off at one or both ends: stated as what they are ---- *)
Theorem C11_raw_passthrough :
  (forall pt id payload, datas (router_recv true pt id (dealer_prepare true payload)) = id :: datas payload) /\
  (forall idm payload, dealer_process_incoming true (router_wire SDealer true idm payload) = norm_flags payload) /\
  (forall idm x t, dealer_process_incoming true (router_wire SDefault true idm (x :: t)) = with_more idm :: norm_flags (x :: t)).
Proof. exact (conj raw_dealer_router_datas (conj raw_router_dealer_strategy raw_router_default_strategy)). Qed.
Theorem C11_mixed_dealer_manual_router_auto : forall pt id f t, pt <> Some TRouter ->
  (fempty f = false -> datas (router_recv false pt id (dealer_prepare true (f :: t))) = id :: datas (f :: t)) /\
  (fempty f = true -> datas (router_recv false pt id (dealer_prepare true (f :: t))) = id :: datas t).
Proof. exact (fun pt id f t P => conj (mixed_dealer_manual_router_auto_kept pt id f t P) (mixed_dealer_manual_router_auto_lost pt id f t P)). Qed.
Theorem C11_mixed_router_manual_dealer_auto : forall idm payload,
  dealer_process_incoming false (router_wire SDealer true idm payload) =
  match norm_flags payload with
  | [] => []
  | f0 :: rest => if fempty f0 then rest
                  else match rest with [] => [] | f1 :: rest' => if fempty f1 then rest' else rest end
  end.
Proof. exact mixed_router_manual_dealer_auto. Qed.
Theorem C11_mixed_router_manual_dealer_auto_loses_first_frame :
  exists idm payload,
    dealer_process_incoming false (router_wire SDealer true idm payload) <> norm_flags payload.
Proof. exact mixed_router_manual_dealer_auto_lost. Qed.
Theorem C11_manual_router_with_app_delimiter : forall idm body,
  dealer_process_incoming false (router_wire SDealer true idm (delim true :: body)) = norm_flags body.
Proof. exact manual_router_app_delimiter. Qed.
Theorem C11_mixed_router_manual_default_strategy : forall idm payload, snd idm <> [] ->
  dealer_process_incoming false (router_wire SDefault true idm payload) =
  match norm_flags payload with [] => [] | f1 :: rest' => if fempty f1 then rest' else f1 :: rest' end.
Proof. exact mixed_router_manual_default_dealer_auto. Qed.

(* ---- ROUTER_MANDATORY and the send decision ---- *)
Theorem C11_mandatory_semantics : forall mandatory manual conn hint m idm payload,
  snd idm <> [] -> fget (snd idm) m = None ->
  router_send_multipart mandatory manual conn hint m (idm :: payload) = (m, if mandatory then SUnreachable else SDropped).
Proof. exact mandatory_unknown. Qed.
Theorem C11_send_decision : forall mandatory manual conn hint m frames,
  let '(m', o) := router_send_multipart mandatory manual conn hint m frames in
  match o with
  | SInvalid => m' = m /\ (frames = [] \/ exists idm payload, frames = idm :: payload /\ snd idm = [])
  | SUnreachable =>
      mandatory = true /\ exists idm payload, frames = idm :: payload /\ snd idm <> [] /\
        ((fget (snd idm) m = None /\ m' = m) \/
         (exists u s o, fget (snd idm) m = Some (u, s, o) /\
            ((conn u = CGone /\ m' = remove_peer_by_identity hint (snd idm) m) \/ (conn u = CClosed /\ m' = m))))
  | SDropped =>
      mandatory = false /\ exists idm payload, frames = idm :: payload /\ snd idm <> [] /\
        ((fget (snd idm) m = None /\ m' = m) \/
         (exists u s o, fget (snd idm) m = Some (u, s, o) /\
            ((conn u = CGone /\ m' = remove_peer_by_identity hint (snd idm) m) \/ (conn u = CClosed /\ m' = m))))
  | SSent u w =>
      m' = m /\ exists idm payload s o, frames = idm :: payload /\ snd idm <> [] /\
        fget (snd idm) m = Some (u, s, o) /\ conn u = COk /\ w = router_wire s manual idm payload
  end.
Proof. exact send_multipart_decision. Qed.
(* maps and send together: the message goes to the connection of the live pipe that announced the identity *)
Theorem C11_send_reaches_true_peer : forall uri_of placeholder h p i st mandatory manual conn hint b payload,
  distinct_hist placeholder h = true ->
  sget p (spec_run placeholder h) = Some (i, st) -> i <> [] -> conn (uri_of p) = COk ->
  router_send_multipart mandatory manual conn hint (run uri_of placeholder h) ((b, i) :: payload) =
  (run uri_of placeholder h, SSent (uri_of p) (router_wire st manual (b, i) payload)).
Proof. exact send_reaches_true_peer. Qed.

(* part-wise send(): fine for a known identity (above) and with ROUTER_MANDATORY; without it an unknown
   identity is NOT a silent drop of the message *)
Theorem C11_parts_unknown_mandatory : forall manual conn hint m id, id <> [] -> fget id m = None ->
  router_send_part true manual conn hint (m, None) (true, id) = ((m, None), PUnreachable).
Proof. exact (fun manual conn hint m id => parts_unknown_first true manual conn hint m id). Qed.
Theorem C11_parts_unknown_misroute_refuted :
  exists m conn unknown idB uB oB x,
    fget unknown m = None /\ fget idB m = Some (uB, SDefault, oB) /\ unknown <> idB /\
    snd (router_send_parts false false conn 0 (m, None) [(true, unknown); (true, idB); (false, x)]) =
      [PDropped; PSent uB [(true, idB); delim true]; PSent uB [(false, x)]] /\
    dealer_process_incoming false
      (wire_to uB (snd (router_send_parts false false conn 0 (m, None) [(true, unknown); (true, idB); (false, x)]))) =
      [(false, x)].
Proof. exact parts_unknown_misroute_refuted. Qed.
Theorem C11_parts_unknown_not_silent_refuted :
  exists m conn unknown x,
    fget unknown m = None /\
    snd (router_send_parts false false conn 0 (m, None) [(true, unknown); (false, x)]) = [PDropped; PInvalid].
Proof. exact parts_unknown_not_silent_refuted. Qed.
(* part-wise send (and the Default strategy) towards a REQ peer: the REQ application sees identity + delimiter *)
Theorem C11_parts_to_req_exposes_envelope : forall mandatory conn hint m id u s o payload,
  id <> [] -> fget id m = Some (u, s, o) -> conn u = COk -> payload <> [] -> more_ok payload ->
  req_recv_multipart (wire_to u (snd (router_send_parts mandatory false conn hint (m, None) ((true, id) :: payload)))) =
  (true, id) :: delim true :: payload.
Proof. exact parts_to_req. Qed.
(* the same wire form results from send_multipart whenever the ROUTER does not know that the peer is a REQ
   (Default strategy: always over inproc, where no socket type is announced) *)
Theorem C11_default_strategy_to_req_exposes_envelope : forall idm payload, snd idm <> [] ->
  req_recv_multipart (router_wire SDefault false idm payload) = router_wire SDefault false idm payload /\
  router_wire SDefault false idm payload =
    with_more idm :: match payload with [] => [delim false] | _ => delim true :: norm_flags payload end.
Proof. exact (fun idm payload I => conj (default_strategy_to_req idm payload I) (router_wire_auto SDefault idm payload (or_introl eq_refl))). Qed.
Theorem C11_parts_to_req_refuted :
  exists m conn id u o payload,
    fget id m = Some (u, SReq, o) /\
    req_recv_multipart (wire_to u (snd (router_send_parts false false conn 0 (m, None) ((true, id) :: payload)))) <> payload.
Proof. exact parts_to_req_refuted. Qed.

(* non-vacuity: a history with reconnect under the same identity satisfies the distinctness premise, the maps
   compute, and a payload with empty frames at both ends survives DEALER -> ROUTER -> DEALER *)
Example C11_example :
  let h := [EAttach 1 None; EAnnounce 1 (Some [65]) (Some TDealer); EAttach 2 None; EAnnounce 2 None (Some TReq);
            EDetach 1; EAttach 3 None; EAnnounce 3 (Some [65]) (Some TDealer)] in
  let m := run (fun p => p + 100) placeholder_id h in
  let payload := [(true, []); (true, [1; 2]); (false, [])] in
  distinct_hist placeholder_id h = true /\
  fget [65] m = Some (103, SDealer, 3) /\ fget (placeholder_id 2) m = Some (102, SReq, 2) /\ rget 1 m = None /\
  placeholder_id 2 = [112; 105; 112; 101; 58; 50] /\ placeholder_id 1234 = [112; 105; 112; 101; 58; 49; 50; 51; 52] /\
  router_recv false (Some TDealer) [65] (dealer_prepare false payload) = (true, [65]) :: payload /\
  dealer_process_incoming false (router_wire SDealer false (false, [65]) (map no_more payload)) = payload /\
  more_ok payload /\
  (* gate: first message races ahead of the identity event; hypotheses of C11_gate_labelled / C11_gate_fifo hold *)
  let gh := [GAttach 1 None false; GArrive 1 7; GCheck 0; GPop 1; GAnnounce 1 (Some [65]) true; GArrive 1 8;
             GCheck 1; GCheck 0; GPop 1] in
  handshaking_pipe N placeholder_id 1 [65] (gate0 N) gh = true /\
  detach_free N 1 gh = true /\ no_final_in_window N placeholder_id (gate0 N) gh = true /\
  g_out (grun N placeholder_id gh) = [(1, [65], 7); (1, [65], 8)].
Proof. vm_compute. repeat split. Qed.
