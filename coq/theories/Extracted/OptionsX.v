(* GENERATED on every run by vp/extract_options.py from /repo/core/src/socket/options.rs - do not edit *)
From RZ Require Import Base.Prelude Model.Engine Model.Options Model.EngineCfg.
Local Open Scope Z_scope.

Definition x_consts : list (Z * Z) := [(SNDBUF, 11); (RCVBUF, 12); (SNDHWM, 23); (RCVHWM, 24); (LINGER, 17); (SUBSCRIBE, 6); (UNSUBSCRIBE, 7); (ROUTING_ID, 5); (RECONNECT_IVL, 18); (RECONNECT_IVL_MAX, 21); (RCVTIMEO, 27); (SNDTIMEO, 28); (LAST_ENDPOINT, 32); (TCP_KEEPALIVE, 34); (TCP_KEEPALIVE_IDLE, 35); (TCP_KEEPALIVE_CNT, 36); (TCP_KEEPALIVE_INTVL, 37); (HEARTBEAT_IVL, 38); (HEARTBEAT_TIMEOUT, 39); (HANDSHAKE_IVL, 41); (ROUTER_MANDATORY, 33); (AUTO_DELIMITER, 42); (ZAP_DOMAIN, 55); (PLAIN_SERVER, 44); (PLAIN_USERNAME, 45); (PLAIN_PASSWORD, 46); (NOISE_XX_ENABLED, 1202); (NOISE_XX_STATIC_SECRET_KEY, 1200); (NOISE_XX_REMOTE_STATIC_PUBLIC_KEY, 1201); (CURVE_SERVER, 47); (CURVE_SECRET_KEY, 49); (CURVE_SERVER_KEY, 48); (MAXMSGSIZE, 22); (MAX_CONNECTIONS, 1000); (IO_URING_SNDZEROCOPY, 1170); (IO_URING_RCVMULTISHOT, 1171); (TCP_CORK, 1172); (IO_URING_SESSION_ENABLED, 1175); (IO_URING_ZC_SEND_THRESHOLD, 1176); (ADAPTIVE_THROTTLE, 1210); (ALLOW_ZMTP2, 1220); (SNDBATCH_COUNT, 1215); (SNDBATCH_BYTES, 1216); (RCVBATCH_COUNT, 1217); (RCVBATCH_BYTES, 1218)].
Definition x_parse_duration_ms (val option_id : Z) : pres := if val =? (-1) then POk None else if 0 <=? val then POk (Some (as_u64 val)) else PErr 0.
Definition x_lenerr_id_duration_ms : bool := false.
Definition x_parse_secs_duration (val option_id : Z) : pres := if (0 <=? val) && (val <=? i32_max) then POk (Some (1000 * as_u64 val)) else PErr 0.
Definition x_lenerr_id_secs_duration : bool := false.
Definition x_parse_timeout (val option_id : Z) : pres := if val =? (-1) then POk None else if val =? 0 then POk (Some 0) else if 1 <=? val then POk (Some (as_u64 val)) else PErr option_id.
Definition x_lenerr_id_timeout : bool := true.
Definition x_parse_linger (val option_id : Z) : pres := if val =? (-1) then POk None else if 0 <=? val then POk (Some (as_u64 val)) else PErr 17.
Definition x_lenerr_id_linger : bool := false.
Definition x_parse_u32 (val option_id : Z) : pres := if (0 <=? val) && (val <=? i32_max) then POk (Some (as_u32 val)) else PErr 0.
Definition x_lenerr_id_u32 : bool := false.
Definition x_parse_heartbeat (val option_id : Z) : pres := if val =? 0 then POk None else if 1 <=? val then POk (Some (as_u64 val)) else PErr option_id.
Definition x_lenerr_id_heartbeat : bool := true.
Definition x_parse_handshake (val option_id : Z) : pres := if val =? 0 then POk None else if 1 <=? val then POk (Some (as_u64 val)) else PErr option_id.
Definition x_lenerr_id_handshake : bool := true.
Definition x_parse_reconnect_ivl (val option_id : Z) : pres := if val =? (-1) then POk None else if val =? 0 then POk None else if 1 <=? val then POk (Some (as_u64 val)) else PErr 18.
Definition x_lenerr_id_reconnect_ivl : bool := false.
Definition x_parse_reconnect_ivl_max (val option_id : Z) : pres := if val =? 0 then POk (Some 0) else if 1 <=? val then POk (Some (as_u64 val)) else PErr 21.
Definition x_lenerr_id_reconnect_ivl_max : bool := false.
Definition x_parse_max_connections (val option_id : Z) : pres := if val =? (-1) then POk None else if val =? 0 then PErr option_id else if 1 <=? val then POk (Some (as_u64 val)) else PErr option_id.
Definition x_lenerr_id_max_connections : bool := true.
Definition x_parse_keepalive_mode (val option_id : Z) : pres := if ((-1) <=? val) && (val <=? 1) then POk (Some val) else PErr 34.
Definition x_parse_maxmsgsize (val option_id : Z) : pres := if val <? (-1) then PErr 22 else POk (Some val).
Definition x_maxmsgsize_len : nat := 8.  Definition x_maxmsgsize_lenerr : Z := 22.
Definition x_i32_len : nat := 4.  Definition x_i32_lenerr : Z := 0.
Definition x_bool_true : Z := 1.
Definition x_blob_max : nat := 255.  Definition x_blob_err : Z := 5.
Definition x_apply_rules : list rule :=
  [ R 11 (KI32Max 0 true) F_sndbuf [];
    R 12 (KI32Max 0 true) F_rcvbuf [];
    R 23 (KI32Max 0 false) F_sndhwm [];
    R 24 (KI32Max 0 false) F_rcvhwm [];
    R 17 KLinger F_linger [];
    R 5 KBlob F_routing_id [];
    R 18 KReconnIvl F_reconnect_ivl [];
    R 21 KReconnMax F_reconnect_ivl_max [];
    R 27 KTimeout F_rcvtimeo [];
    R 28 KTimeout F_sndtimeo [];
    R 34 KKaMode F_tcp_keepalive_enabled [];
    R 35 KSecs F_tcp_keepalive_idle [];
    R 36 KU32 F_tcp_keepalive_count [];
    R 37 KSecs F_tcp_keepalive_interval [];
    R 38 KHeartbeat F_heartbeat_ivl [];
    R 39 KHeartbeat F_heartbeat_timeout [];
    R 41 KHandshake F_handshake_ivl [];
    R 22 KMaxMsg F_maxmsgsize [];
    R 1000 KMaxConn F_max_connections [];
    R 1172 (KBool false) F_tcp_cork [];
    R 1220 (KBool false) F_allow_zmtp2 [];
    R 55 (KString true) F_zap_domain [];
    R 44 (KBool true) F_plain_options_server_role [F_plain_options_enabled];
    R 45 (KString true) F_plain_options_username [F_plain_options_enabled];
    R 46 (KString true) F_plain_options_password [F_plain_options_enabled];
    R 47 (KBool false) F_curve_options_server_role [F_curve_options_enabled];
    R 49 KKey32 F_curve_options_secret_key [F_curve_options_enabled];
    R 48 KKey32 F_curve_options_server_public_key [F_curve_options_enabled];
    R 1202 (KBool false) F_noise_xx_options_enabled [];
    R 1200 KKey32 F_noise_xx_options_static_secret_key_bytes [];
    R 1201 KKey32 F_noise_xx_options_remote_static_public_key_bytes [];
    R 1175 (KBool false) F_io_uring_session_enabled [];
    R 1170 (KBool false) F_io_uring_send_zerocopy [];
    R 1171 (KBool false) F_io_uring_recv_multishot [];
    R 1176 (KI32Max 1 false) F_io_uring_zc_send_threshold [];
    R 1210 (KBool false) F_throttle_config_enabled [];
    R 1215 (KI32Max 1 false) F_sndbatch_count [];
    R 1216 (KI32Max 1 false) F_sndbatch_bytes [];
    R 1217 (KI32Max 1 false) F_rcvbatch_count [];
    R 1218 (KI32Max 1 false) F_rcvbatch_bytes [] ].
Definition x_apply_unsupported : list Z := [6; 7; 32; 33; 42; 16].
Definition x_get_rules : list (Z * gk * field) :=
  [ (11, GOptUsizeI32 0, F_sndbuf);
    (12, GOptUsizeI32 0, F_rcvbuf);
    (23, GUsizeI32, F_sndhwm);
    (24, GUsizeI32, F_rcvhwm);
    (17, GMsSat, F_linger);
    (5, GBytes, F_routing_id);
    (18, GMsTrunc, F_reconnect_ivl);
    (21, GMsTrunc, F_reconnect_ivl_max);
    (27, GMsSat, F_rcvtimeo);
    (28, GMsSat, F_sndtimeo);
    (34, GI32, F_tcp_keepalive_enabled);
    (35, GSecsTrunc, F_tcp_keepalive_idle);
    (36, GOptUsizeI32 0, F_tcp_keepalive_count);
    (37, GSecsTrunc, F_tcp_keepalive_interval);
    (38, GMsTrunc, F_heartbeat_ivl);
    (39, GMsTrunc, F_heartbeat_timeout);
    (41, GMsTrunc, F_handshake_ivl);
    (22, GI64, F_maxmsgsize);
    (1000, GOptUsizeI32 (-1), F_max_connections);
    (1172, GBool, F_tcp_cork);
    (1220, GBool, F_allow_zmtp2);
    (55, GBytes, F_zap_domain);
    (44, GOptBool, F_plain_options_server_role);
    (45, GBytes, F_plain_options_username);
    (46, GWriteOnly, F_plain_options_password);
    (1202, GBool, F_noise_xx_options_enabled);
    (1200, GWriteOnly, F_noise_xx_options_static_secret_key_bytes);
    (1201, GBytes, F_noise_xx_options_remote_static_public_key_bytes);
    (1175, GBool, F_io_uring_session_enabled);
    (1170, GBool, F_io_uring_send_zerocopy);
    (1171, GBool, F_io_uring_recv_multishot);
    (1176, GUsizeI32, F_io_uring_zc_send_threshold);
    (1210, GBool, F_throttle_config_enabled);
    (1215, GUsizeI32, F_sndbatch_count);
    (1216, GUsizeI32, F_sndbatch_bytes);
    (1217, GUsizeI32, F_rcvbatch_count);
    (1218, GUsizeI32, F_rcvbatch_bytes) ].
Definition x_get_unsupported : list Z := [6; 7; 33; 42].
Definition x_defaults : list (field * oval) :=
  [ (F_rcvhwm, VZ 256);
    (F_sndhwm, VZ 256);
    (F_rcvtimeo, VOZ None);
    (F_sndtimeo, VOZ None);
    (F_linger, VOZ (Some 0));
    (F_reconnect_ivl, VOZ (Some 1000));
    (F_reconnect_ivl_max, VOZ (Some 0));
    (F_routing_id, VOBy None);
    (F_tcp_keepalive_enabled, VZ 0);
    (F_tcp_keepalive_idle, VOZ None);
    (F_tcp_keepalive_count, VOZ None);
    (F_tcp_keepalive_interval, VOZ None);
    (F_max_connections, VOZ (Some 1024));
    (F_maxmsgsize, VZ (-1));
    (F_heartbeat_ivl, VOZ None);
    (F_heartbeat_timeout, VOZ None);
    (F_handshake_ivl, VOZ None);
    (F_allow_zmtp2, VB true);
    (F_tcp_cork, VB false);
    (F_sndbuf, VOZ None);
    (F_rcvbuf, VOZ None);
    (F_zap_domain, VOBy None);
    (F_sndbatch_count, VZ 128);
    (F_sndbatch_bytes, VZ 262144);
    (F_rcvbatch_count, VZ 128);
    (F_rcvbatch_bytes, VZ 262144);
    (F_io_uring_session_enabled, VB false);
    (F_io_uring_send_zerocopy, VB false);
    (F_io_uring_recv_multishot, VB false);
    (F_io_uring_zc_send_threshold, VZ 16384) ].
Definition x_sec_fields : list field := [F_plain_options_enabled; F_noise_xx_options_enabled; F_curve_options_enabled].
Definition x_uring_snd_buffer : N := 65536%N.
Definition x_cfg_copies : list (cfgf * field) :=
  [ (CF_routing_id, F_routing_id);
    (CF_allow_zmtp2, F_allow_zmtp2);
    (CF_heartbeat_ivl, F_heartbeat_ivl);
    (CF_heartbeat_timeout, F_heartbeat_timeout);
    (CF_handshake_timeout, F_handshake_ivl);
    (CF_rcvtimeo, F_rcvtimeo);
    (CF_sndtimeo, F_sndtimeo);
    (CF_use_send_zerocopy, F_io_uring_send_zerocopy);
    (CF_use_recv_multishot, F_io_uring_recv_multishot);
    (CF_use_cork, F_tcp_cork);
    (CF_use_noise_xx, F_noise_xx_options_enabled);
    (CF_noise_xx_local_sk_bytes_for_engine, F_noise_xx_options_static_secret_key_bytes);
    (CF_noise_xx_remote_pk_bytes_for_engine, F_noise_xx_options_remote_static_public_key_bytes);
    (CF_use_curve, F_curve_options_enabled);
    (CF_curve_local_secret_key, F_curve_options_secret_key);
    (CF_curve_remote_public_key, F_curve_options_server_public_key);
    (CF_use_plain, F_plain_options_enabled);
    (CF_plain_username_for_engine, F_plain_options_username);
    (CF_plain_password_for_engine, F_plain_options_password);
    (CF_max_msg_size, F_maxmsgsize);
    (CF_sndhwm, F_sndhwm);
    (CF_rcvhwm, F_rcvhwm);
    (CF_sndbatch_count, F_sndbatch_count);
    (CF_rcvbatch_count, F_rcvbatch_count);
    (CF_rcvbatch_bytes, F_rcvbatch_bytes);
    (CF_rcvbuf, F_rcvbuf);
    (CF_zc_send_threshold, F_io_uring_zc_send_threshold) ].
Definition x_slot_raw (target count : N) : N := (let ml := N.min count (target / 256) in target + ml * 9 + (count - ml) * 2)%N.
