(* Generic "accumulator stepper": a state machine that looks at a byte buffer,
   and either needs more bytes or consumes a prefix and emits outputs.
   Proved once: if each step is stable under appending bytes, then the result of
   feeding a byte stream does not depend on how the stream is cut into chunks. *)
From RZ Require Import Base.Prelude.

Section Stepper.
Variables (S O : Type).

Inductive res := Need | Step (s : S) (n : nat) (o : list O).

Variable step : S -> bytes -> res.
Variable mu : S -> nat.
Variable M : nat.

Definition step_mono := forall s b d s' n o,
  step s b = Step s' n o -> step s (b ++ d) = Step s' n o.
Definition step_bounded := forall s b s' n o,
  step s b = Step s' n o -> n <= length b.
(* termination: a step consumes bytes (and lands on a state of measure <= M), or consumes
   nothing and strictly decreases the measure *)
Definition step_measure := forall s b s' n o,
  step s b = Step s' n o -> (0 < n /\ mu s' <= M) \/ (n = 0 /\ mu s' < mu s).

Hypothesis Hmono : step_mono.
Hypothesis Hbound : step_bounded.
Hypothesis Hmeas : step_measure.

Inductive Run : S -> bytes -> S -> bytes -> list O -> Prop :=
| RunNeed s b : step s b = Need -> Run s b s b []
| RunStep s b s' n o s'' r o' :
    step s b = Step s' n o -> Run s' (skipn n b) s'' r o' -> Run s b s'' r (o ++ o').

Lemma Run_det s b s1 r1 o1 s2 r2 o2 :
  Run s b s1 r1 o1 -> Run s b s2 r2 o2 -> s1 = s2 /\ r1 = r2 /\ o1 = o2.
Proof.
  intros H1. revert s2 r2 o2. induction H1 as [s b Hn | s b s' n o s'' r o' Hs HR IH]; intros s2 r2 o2 H2.
  - inversion H2; subst; [auto | congruence].
  - inversion H2; subst; [congruence|].
    match goal with H : step s b = Step ?a ?b' ?c |- _ => rewrite Hs in H; inversion H; subst end.
    match goal with H : Run _ _ s2 r2 _ |- _ => destruct (IH _ _ _ H) as (-> & -> & ->) end.
    auto.
Qed.

Lemma Run_quiescent s b s' r o : Run s b s' r o -> step s' r = Need.
Proof. induction 1; auto. Qed.

Lemma Run_app s b s1 r1 o1 d s2 r2 o2 :
  Run s b s1 r1 o1 -> Run s1 (r1 ++ d) s2 r2 o2 -> Run s (b ++ d) s2 r2 (o1 ++ o2).
Proof.
  intros H1. revert d s2 r2 o2.
  induction H1 as [s b Hn | s b s' n o s'' r o' Hs HR IH]; intros d s2 r2 o2 H2.
  - exact H2.
  - rewrite <- app_assoc. eapply RunStep.
    + apply Hmono. exact Hs.
    + rewrite skipn_app_le by (eapply Hbound; eauto). apply IH. exact H2.
Qed.

(* the bytes left over are a suffix; consumed ++ rest = input *)
Lemma Run_suffix s b s' r o : Run s b s' r o -> exists c, b = c ++ r.
Proof.
  induction 1 as [s b Hn | s b s' n o s'' r o' Hs HR [c Hc]].
  - exists []. reflexivity.
  - exists (firstn n b ++ c). rewrite <- app_assoc, <- Hc. symmetry. apply firstn_skipn.
Qed.

(* executable pump with explicit fuel *)
Fixpoint pumpN (fuel : nat) (s : S) (b : bytes) : S * bytes * list O :=
  match fuel with
  | 0 => (s, b, [])
  | Datatypes.S f =>
      match step s b with
      | Need => (s, b, [])
      | Step s' n o => let '(s'', r, o') := pumpN f s' (skipn n b) in (s'', r, o ++ o')
      end
  end.

Definition weight (s : S) (b : bytes) : nat := length b * (Datatypes.S M) + mu s.
Definition pump (s : S) (b : bytes) : S * bytes * list O := pumpN (Datatypes.S (weight s b)) s b.

Lemma pumpN_Run fuel : forall s b, weight s b < fuel ->
  let '(s', r, o) := pumpN fuel s b in Run s b s' r o.
Proof.
  induction fuel as [|f IH]; intros s b Hw; [lia|].
  simpl. destruct (step s b) as [|s' n o] eqn:Hs.
  - apply RunNeed. exact Hs.
  - specialize (IH s' (skipn n b)).
    assert (weight s' (skipn n b) < f) as Hlt.
    { unfold weight in *. rewrite skipn_length.
      pose proof (Hbound _ _ _ _ _ Hs) as Hb.
      destruct (Hmeas _ _ _ _ _ Hs) as [[Hn Hm] | [-> Hm]].
      - assert (length b - n <= length b - 1) by lia.
        assert ((length b - n) * Datatypes.S M <= (length b - 1) * Datatypes.S M)
          by (apply Nat.mul_le_mono_r; lia).
        assert ((length b - 1) * Datatypes.S M + Datatypes.S M = length b * Datatypes.S M).
        { destruct (length b) as [|k]; [lia|]. simpl. rewrite Nat.sub_0_r. lia. }
        lia.
      - rewrite Nat.sub_0_r. lia. }
    specialize (IH Hlt). destruct (pumpN f s' (skipn n b)) as [[s'' r] o'].
    eapply RunStep; eauto.
Qed.

Lemma pump_Run s b : let '(s', r, o) := pump s b in Run s b s' r o.
Proof. unfold pump. apply pumpN_Run. lia. Qed.

Lemma Run_pump s b s' r o : Run s b s' r o -> pump s b = (s', r, o).
Proof.
  intros H. pose proof (pump_Run s b) as H'. destruct (pump s b) as [[s1 r1] o1].
  destruct (Run_det _ _ _ _ _ _ _ _ H' H) as (-> & -> & ->). reflexivity.
Qed.

(* totality: pump always ends in a quiescent configuration (fuel never runs out) *)
Lemma pump_quiescent s b : let '(s', r, _) := pump s b in step s' r = Need.
Proof.
  pose proof (pump_Run s b) as H. destruct (pump s b) as [[s' r] o].
  eapply Run_quiescent; eauto.
Qed.

Lemma pump_app s b d :
  pump s (b ++ d) =
  let '(s1, r1, o1) := pump s b in
  let '(s2, r2, o2) := pump s1 (r1 ++ d) in (s2, r2, o1 ++ o2).
Proof.
  pose proof (pump_Run s b) as H1. destruct (pump s b) as [[s1 r1] o1].
  pose proof (pump_Run s1 (r1 ++ d)) as H2. destruct (pump s1 (r1 ++ d)) as [[s2 r2] o2].
  apply Run_pump. eapply Run_app; eauto.
Qed.

(* feeding a list of chunks: append each chunk to the leftover and pump *)
Fixpoint feed (s : S) (buf : bytes) (chunks : list bytes) : S * bytes * list O :=
  match chunks with
  | [] => (s, buf, [])
  | c :: cs =>
      let '(s1, r1, o1) := pump s (buf ++ c) in
      let '(s2, r2, o2) := feed s1 r1 cs in (s2, r2, o1 ++ o2)
  end.

Lemma pump_idem s b : let '(s', r, o) := pump s b in pump s' r = (s', r, []).
Proof.
  pose proof (pump_quiescent s b) as H. destruct (pump s b) as [[s' r] o].
  apply Run_pump. apply RunNeed. exact H.
Qed.

Lemma feed_quiescent_start s buf cs :
  step s buf = Need -> feed s buf cs = pump s (buf ++ concat cs).
Proof.
  revert s buf. induction cs as [|c cs IH]; intros s buf Hq.
  - simpl. rewrite app_nil_r. symmetry. apply Run_pump. apply RunNeed. exact Hq.
  - cbn [feed concat]. rewrite app_assoc, (pump_app s (buf ++ c) (concat cs)).
    pose proof (pump_quiescent s (buf ++ c)) as Hq1.
    destruct (pump s (buf ++ c)) as [[s1 r1] o1].
    rewrite (IH s1 r1 Hq1). reflexivity.
Qed.

Lemma feed_cons s buf c cs : feed s buf (c :: cs) = pump s (buf ++ concat (c :: cs)).
Proof.
  cbn [feed concat]. rewrite app_assoc, (pump_app s (buf ++ c) (concat cs)).
  pose proof (pump_quiescent s (buf ++ c)) as Hq1.
  destruct (pump s (buf ++ c)) as [[s1 r1] o1].
  rewrite (feed_quiescent_start s1 r1 cs Hq1). reflexivity.
Qed.

(* Chunk independence: from a quiescent configuration, two chunkings of the same byte
   string give the same final state, leftover and output sequence. *)
Theorem feed_chunk_independent s buf cs1 cs2 :
  step s buf = Need -> concat cs1 = concat cs2 -> feed s buf cs1 = feed s buf cs2.
Proof.
  intros Hq Hc. rewrite !feed_quiescent_start by exact Hq. rewrite Hc. reflexivity.
Qed.

(* Outputs are prefix-monotone in the input stream. *)
Lemma pump_out_prefix s b d :
  prefix (snd (pump s b)) (snd (pump s (b ++ d))).
Proof.
  rewrite pump_app. destruct (pump s b) as [[s1 r1] o1].
  destruct (pump s1 (r1 ++ d)) as [[s2 r2] o2]. simpl. apply prefix_app.
Qed.

End Stepper.

Arguments Need {S O}.
Arguments Step {S O} s n o.
Arguments feed {S O} step mu M s buf chunks.
Arguments pump {S O} step mu M s b.
Arguments pumpN {S O} step fuel s b.
Arguments weight {S} mu M s b.
Arguments Run {S O} step _ _ _ _ _.
Arguments step_mono {S O} step.
Arguments step_bounded {S O} step.
Arguments step_measure {S O} step mu M.

(* Bundled form: one record of obligations, lemmas restated against it. *)
Record stepper_ok {S O : Type} (step : S -> bytes -> res S O) (mu : S -> nat) (M : nat) : Prop :=
  { ok_mono : step_mono step; ok_bounded : step_bounded step; ok_measure : step_measure step mu M }.

Section Ok.
Context {S O : Type} {step : S -> bytes -> res S O} {mu : S -> nat} {M : nat}.
Variable ok : stepper_ok step mu M.

Lemma sk_pump_Run s b : let '(s', r, o) := pump step mu M s b in Run step s b s' r o.
Proof. apply pump_Run; apply ok. Qed.
Lemma sk_Run_pump s b s' r o : Run step s b s' r o -> pump step mu M s b = (s', r, o).
Proof. apply Run_pump; apply ok. Qed.
Lemma sk_pump_quiescent s b : let '(s', r, _) := pump step mu M s b in step s' r = Need.
Proof. apply pump_quiescent; apply ok. Qed.
Lemma sk_pump_app s b d :
  pump step mu M s (b ++ d) =
  let '(s1, r1, o1) := pump step mu M s b in
  let '(s2, r2, o2) := pump step mu M s1 (r1 ++ d) in (s2, r2, o1 ++ o2).
Proof. apply pump_app; apply ok. Qed.
Lemma sk_Run_app s b s1 r1 o1 d s2 r2 o2 :
  Run step s b s1 r1 o1 -> Run step s1 (r1 ++ d) s2 r2 o2 -> Run step s (b ++ d) s2 r2 (o1 ++ o2).
Proof. apply Run_app; apply ok. Qed.
Lemma sk_feed_quiescent_start s buf cs :
  step s buf = Need -> feed step mu M s buf cs = pump step mu M s (buf ++ concat cs).
Proof. apply feed_quiescent_start; apply ok. Qed.
Lemma sk_feed_cons s buf c cs :
  feed step mu M s buf (c :: cs) = pump step mu M s (buf ++ concat (c :: cs)).
Proof. apply feed_cons; apply ok. Qed.
Lemma sk_feed_chunk_independent s buf cs1 cs2 :
  step s buf = Need -> concat cs1 = concat cs2 -> feed step mu M s buf cs1 = feed step mu M s buf cs2.
Proof. apply feed_chunk_independent; apply ok. Qed.
Lemma sk_pump_out_prefix s b d :
  prefix (snd (pump step mu M s b)) (snd (pump step mu M s (b ++ d))).
Proof. apply pump_out_prefix; apply ok. Qed.
End Ok.
