(* Common imports and small list/arith lemmas. No rzmq content. *)
From Coq Require Export List NArith ZArith Arith Lia Bool.
From Coq Require Export ZifyBool ZifyNat ZifyN.
Export ListNotations.
Global Arguments N.add : simpl never.
Global Arguments N.sub : simpl never.
Global Arguments N.mul : simpl never.
Global Arguments N.div : simpl never.
Global Arguments N.modulo : simpl never.
Global Arguments N.eqb : simpl never.
Global Arguments N.ltb : simpl never.
Global Arguments N.leb : simpl never.
Global Arguments N.land : simpl never.
Global Arguments N.lor : simpl never.
Global Arguments N.pow : simpl never.
Global Arguments N.of_nat : simpl never.
Global Arguments N.to_nat : simpl never.

Ltac Zify.zify_post_hook ::= Z.div_mod_to_equations.

Definition byte := N.
Definition bytes := list N.

(* well-formed byte string: every element < 256 *)
Definition wf_bytes (l : bytes) : bool := forallb (fun b => N.ltb b 256) l.

Lemma wf_bytes_app a b : wf_bytes (a ++ b) = wf_bytes a && wf_bytes b.
Proof. unfold wf_bytes. apply forallb_app. Qed.

Lemma firstn_app_le {A} (n : nat) (a b : list A) :
  n <= length a -> firstn n (a ++ b) = firstn n a.
Proof.
  intros H. rewrite firstn_app. replace (n - length a) with 0 by lia.
  simpl. apply app_nil_r.
Qed.

Lemma skipn_app_le {A} (n : nat) (a b : list A) :
  n <= length a -> skipn n (a ++ b) = skipn n a ++ b.
Proof.
  intros H. rewrite skipn_app. replace (n - length a) with 0 by lia.
  reflexivity.
Qed.

Lemma nth_app_lt {A} (n : nat) (a b : list A) d :
  n < length a -> nth n (a ++ b) d = nth n a d.
Proof. intros. apply app_nth1. assumption. Qed.

Lemma firstn_length_le' {A} (n : nat) (l : list A) : n <= length l -> length (firstn n l) = n.
Proof. apply firstn_length_le. Qed.

Lemma skipn_skipn {A} (n m : nat) (l : list A) : skipn n (skipn m l) = skipn (m + n) l.
Proof.
  revert l. induction m as [|m IH]; intros l; simpl; [reflexivity|].
  destruct l as [|x l]; simpl.
  - destruct n; reflexivity.
  - apply IH.
Qed.

Lemma firstn_skipn_app {A} (n : nat) (l r : list A) :
  length l = n -> firstn n (l ++ r) = l /\ skipn n (l ++ r) = r.
Proof.
  intros <-. split.
  - rewrite firstn_app, Nat.sub_diag, firstn_all. simpl. apply app_nil_r.
  - rewrite skipn_app, Nat.sub_diag, skipn_all. reflexivity.
Qed.

(* prefix order on lists *)
Definition prefix {A} (a b : list A) : Prop := exists d, b = a ++ d.

Lemma prefix_refl {A} (a : list A) : prefix a a.
Proof. exists []. symmetry. apply app_nil_r. Qed.

Lemma prefix_trans {A} (a b c : list A) : prefix a b -> prefix b c -> prefix a c.
Proof. intros [d ->] [e ->]. exists (d ++ e). symmetry. apply app_assoc. Qed.

Lemma prefix_length {A} (a b : list A) : prefix a b -> length a <= length b.
Proof. intros [d ->]. rewrite app_length. lia. Qed.

Lemma prefix_antisym {A} (a b : list A) : prefix a b -> prefix b a -> a = b.
Proof.
  intros [d ->] [e H].
  assert (length (d ++ e) = 0) as Hl.
  { apply (f_equal (@length A)) in H. rewrite !app_length in *. lia. }
  rewrite app_length in Hl. destruct d; simpl in Hl; [|lia].
  symmetry. apply app_nil_r.
Qed.

Lemma prefix_app {A} (a d : list A) : prefix a (a ++ d).
Proof. exists d. reflexivity. Qed.
