(* Two prefix-monotone stream functions connected by two FIFO channels (a two-node Kahn network).
   A schedule delivers, one step at a time, some more of the bytes one side has already emitted to
   the other side. Proved once: every reachable state is below every fixpoint, hence all quiescent
   reachable states coincide (the result does not depend on delivery order or fragmentation), and
   while something is undelivered a delivery step is enabled (no deadlock before quiescence).
   No rzmq content here. *)
From RZ Require Import Base.Prelude.

Section Kahn.
Variables FA FB : bytes -> bytes.   (* bytes emitted so far by A (resp. B) after receiving the given input *)
Hypothesis FA_mono : forall a d, prefix (FA a) (FA (a ++ d)).
Hypothesis FB_mono : forall a d, prefix (FB a) (FB (a ++ d)).

Lemma mono_prefix (F : bytes -> bytes) (Hm : forall a d, prefix (F a) (F (a ++ d))) x y :
  prefix x y -> prefix (F x) (F y).
Proof. intros [d ->]. apply Hm. Qed.

(* state: ia = bytes delivered to A so far (a prefix of what B emitted), ib likewise *)
Inductive Reach : bytes -> bytes -> Prop :=
| R0 : Reach [] []
| RtoB ia ib d : Reach ia ib -> d <> [] -> prefix (ib ++ d) (FA ia) -> Reach ia (ib ++ d)
| RtoA ia ib d : Reach ia ib -> d <> [] -> prefix (ia ++ d) (FB ib) -> Reach (ia ++ d) ib.

Definition quiescent (ia ib : bytes) : Prop := ib = FA ia /\ ia = FB ib.
Definition fixpoint (a b : bytes) : Prop := b = FA a /\ a = FB b.

Lemma reach_inv ia ib : Reach ia ib -> prefix ib (FA ia) /\ prefix ia (FB ib).
Proof.
  induction 1 as [| ia ib d HR [IH1 IH2] Hd Hp | ia ib d HR [IH1 IH2] Hd Hp].
  - split; exists (FA []) + exists (FB []); reflexivity.
  - split; [exact Hp|]. eapply prefix_trans; [exact IH2|]. apply FB_mono.
  - split; [|exact Hp]. eapply prefix_trans; [exact IH1|]. apply FA_mono.
Qed.

Lemma reach_below_fixpoint a b : fixpoint a b -> forall ia ib, Reach ia ib -> prefix ia a /\ prefix ib b.
Proof.
  intros [Hb Ha]. induction 1 as [| ia ib d HR [IH1 IH2] Hd Hp | ia ib d HR [IH1 IH2] Hd Hp].
  - split; [exists a | exists b]; reflexivity.
  - split; [exact IH1|]. eapply prefix_trans; [exact Hp|]. rewrite Hb.
    apply (mono_prefix FA FA_mono). exact IH1.
  - split; [|exact IH2]. eapply prefix_trans; [exact Hp|]. rewrite Ha.
    apply (mono_prefix FB FB_mono). exact IH2.
Qed.

(* confluence: the final streams do not depend on the schedule *)
Theorem kahn_confluence ia ib ia' ib' :
  Reach ia ib -> quiescent ia ib -> Reach ia' ib' -> quiescent ia' ib' -> ia = ia' /\ ib = ib'.
Proof.
  intros R1 Q1 R2 Q2.
  destruct (reach_below_fixpoint ia' ib' Q2 ia ib R1) as [A1 B1].
  destruct (reach_below_fixpoint ia ib Q1 ia' ib' R2) as [A2 B2].
  split; apply prefix_antisym; assumption.
Qed.

(* progress: a reachable state that is not quiescent has an enabled delivery *)
Theorem kahn_progress ia ib :
  Reach ia ib -> ~ quiescent ia ib -> exists ia2 ib2, Reach ia2 ib2 /\ (length ia + length ib < length ia2 + length ib2)%nat.
Proof.
  intros HR Hnq. destruct (reach_inv _ _ HR) as [[d1 H1] [d2 H2]].
  destruct d1 as [|x d1].
  - destruct d2 as [|y d2].
    + exfalso. apply Hnq. split; [rewrite H1, app_nil_r; reflexivity | rewrite H2, app_nil_r; reflexivity].
    + exists (ia ++ y :: d2), ib. split.
      * apply RtoA; [exact HR | discriminate | rewrite H2; apply prefix_refl].
      * rewrite app_length. cbn [length]. lia.
  - exists ia, (ib ++ x :: d1). split.
    + apply RtoB; [exact HR | discriminate | rewrite H1; apply prefix_refl].
    + rewrite app_length. cbn [length]. lia.
Qed.

(* every intermediate state is below the final one *)
Theorem kahn_monotone_to_final ia ib a b :
  Reach ia ib -> Reach a b -> quiescent a b -> prefix ia a /\ prefix ib b.
Proof. intros R1 R2 Q. exact (reach_below_fixpoint a b Q ia ib R1). Qed.

End Kahn.
