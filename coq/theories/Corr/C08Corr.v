(* C08 correspondence driver: the Rpq model run on the schedule the harness executed, one
   observation row per event, in the format of harness/src/c08.rs:
     [kind; idx; status; result...; 99; (queued; reserved; len) per pipe ...; ready_len; woken-mask]
   The run is the waker-aware one (RpqWake.wstep: a parked thread is polled only once its waker fired).
   and the WaitGroup::wait poll schedules (format of C13's wait_for_connection rows). *)
From RZ Require Import Base.Prelude Model.Rpq Model.RpqWake Model.WgWait.
Local Open Scope N_scope.

Definition obs := list (list N).

Definition pcode (pc : ppc) : N :=
  match pc with
  | PIdle => 0 | SRes _ => 1 | SWrite _ => 2 | SBlock _ false => 3 | SBlock _ true => 4
  | SCount => 5 | SArm false => 6 | SArm true => 7
  | TRes _ => 8 | TWrite _ => 9 | TCount => 10 | TArm => 11
  | BRes _ => 12 | BWrite _ _ _ _ => 13 | BCount _ _ _ => 14 | BRoll _ _ _ => 15 | BArm _ => 16
  end.

Definition ccode (pc : cpc) : N :=
  match pc with
  | CIdle => 0 | CWait => 1 | CStale => 2
  | CRecv true _ => 3 | CDecQ true _ _ => 4 | CDecR true _ _ _ => 5
  | CArm true _ _ false => 6 | CArm true _ _ true => 7
  | CRecv false _ => 8 | CDecQ false _ _ => 9 | CDecR false _ _ _ => 10 | CArm false _ _ _ => 11
  end.

Definition ev_row (c : cfg) (s : st) (e : ev) : list N :=
  match e with
  | RunP p => [0; N.of_nat p; if (p <? np c)%nat then pcode (prod s p) else 0]
  | RunC i => [1; N.of_nat i; if (i <? nc c)%nat then ccode (cons s i) else 0]
  | CancelP p => [2; N.of_nat p; if (p <? np c)%nat then pcode (prod s p) else 0]
  | CancelC i => [3; N.of_nat i; if (i <? nc c)%nat then ccode (cons s i) else 0]
  | Dereg p => [4; N.of_nat p; 0]
  end.

Definition shared_row (c : cfg) (s : st) : list N :=
  flat_map (fun p => [Z.to_N (queued s p); Z.to_N (reserved s p); N.of_nat (length (chan s p))]) (seq 0 (np c))
  ++ [N.of_nat (length (ready s))].

Definition row_of (c : cfg) (s : st) (sw' : st * wk) (e : ev) : list N :=
  let s' := fst sw' in
  let res := if (length (out s) <? length (out s'))%nat then skipn 2 (hd [] (out s')) else [] in
  ev_row c s' e ++ res ++ [99] ++ shared_row c s' ++ [wmask c sw'].

Fixpoint rpq_rows (c : cfg) (sw : st * wk) (es : list ev) : obs :=
  match es with
  | [] => []
  | e :: r => let sw' := wstep c sw e in row_of c (fst sw) sw' e :: rpq_rows c sw' r
  end.

Definition mk_cfg (rc : nat) (caps : list nat) (ncons : nat) : cfg :=
  mkCfg (length caps) ncons (fun p => Nat.max 1 (nth p caps 1%nat)) rc.
Definition progs {A} (l : list (list A)) : nat -> list A := fun i => nth i l [].

(* the ready capacity the code uses is ready_capacity.max(1) *)
Definition rpq_model (rc : nat) (caps : list nat) (pp : list (list sop)) (cp : list (list rop)) (es : list ev) : obs :=
  let c := mk_cfg (Nat.max 1 rc) caps (length cp) in
  rpq_rows c (init (progs pp) (progs cp), wk0) es.

(* ---- WaitGroup::wait ---- *)
Inductive wgitem := GPoll (gap : list geop) | GEnv (ops : list geop).

Definition gstatus (s : gst) : N := match g_pc s with GIdle => 3 | GDone => 1 | _ => 0 end.
Definition grestart (s : gst) : gst := match g_pc s with GDone => gset_pc s GIdle | _ => s end.
Definition b2n (b : bool) : N := if b then 1 else 0.

Fixpoint wg_rows (s : gst) (items : list wgitem) : obs :=
  match items with
  | [] => []
  | GPoll gap :: r =>
      let s0 := grestart s in
      let '(fired, s') := gpoll_gap s0 gap in
      [0; gstatus s'; N.of_nat (g_count s'); b2n fired] :: wg_rows s' r
  | GEnv ops :: r =>
      let s' := grun (map GE ops) s in
      [1; gstatus s; N.of_nat (g_count s'); 0] :: wg_rows s' r
  end.

Inductive c08case :=
| CRpq (rc : nat) (caps : list nat) (pp : list (list sop)) (cp : list (list rop)) (es : list ev)
| CWg (items : list wgitem)
| CWgMT (gap : bool).

Definition c08_model (c : c08case) : obs :=
  match c with
  | CRpq rc caps pp cp es => rpq_model rc caps pp cp es
  | CWg items => wg_rows (g0 true) items
  | CWgMT gap =>
      (* count = 1; the waiter has created its future, checked, and stands at the schedule point *)
      let s1 := grun [GE (EAdd 1); GW; GW; GW] (g0 true) in
      let s := if gap then gsettle 8 (grun [GE EDec; GE ENotify] s1)
               else gsettle 8 (grun [GE EDec; GE ENotify] (gsettle 8 s1)) in
      [[b2n (negb (match g_pc s with GDone => true | _ => false end)); N.of_nat (g_count s)]]
  end.

Definition row_eqb (a b : list N) : bool :=
  (length a =? length b)%nat && forallb (fun '(x, y) => x =? y) (combine a b).
Definition obs_eqb (a b : obs) : bool :=
  (length a =? length b)%nat && forallb (fun '(x, y) => row_eqb x y) (combine a b).

Definition c08_mismatches (cases : list (N * c08case * obs)) : list N :=
  map (fun '(i, _, _) => i) (filter (fun '(_, c, e) => negb (obs_eqb (c08_model c) e)) cases).
