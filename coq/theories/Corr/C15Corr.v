(* Executable drivers for the correspondence check of C15: case description (the JSON the Rust harness
   executes on the real code) -> observation rows, and the comparison. *)
From RZ Require Import Base.Prelude Model.Shutdown.
Local Open Scope N_scope.

Definition obs := list (list N).
Definition b2n (b : bool) : N := if b then 1 else 0.

(* ---- (A) scripted ops on the real ShutdownCoordinator / initiate_core_shutdown / check_and_advance_linger.
   Time: the harness performs every op of grid slot k at t0 + 20 ms + 40 ms * k (+ at most 16 ms); the
   LINGER values used are 0, -1 and 40 m + 20 ms. In units of 20 ms: ops happen at 2k+1, LINGER = 2m+1,
   so a deadline (even, or equal to the current odd instant for LINGER 0) never coincides with a later check. *)
Inductive cop :=
| OInit | OTick | OForce (p : N) | OStartLinger | OCheck | OAdvance | OSetLinger (ms : N)
| OPipe (i b : N) | ORemove (i : N) | OWait (k : N) | OClearDl.

Definition LINGER_INF : N := 4294967295.
Definition linger_of (ms : N) : linger := if ms =? LINGER_INF then LInf else LMs (ms / 20).

Definition phase_of (p : N) : sphase :=
  match p with 0 => SRunning | 1 => SStoppingChildren | 2 => SLingering | 3 => SCleaningPipes | _ => SFinished end.
Definition phase_code (p : sphase) : N :=
  match p with SRunning => 0 | SStoppingChildren => 1 | SLingering => 2 | SCleaningPipes => 3 | SFinished => 4 end.

Record cst := {
  k_co : coord; k_l : linger; k_running : bool;
  k_pipes : list (option bool);       (* None = removed from pipes_tx; Some b = present, non-empty? *)
  k_slot : N
}.
Definition k_now (s : cst) : N := 2 * k_slot s + 1.
Definition k_pipes_empty (s : cst) : bool :=
  forallb (fun p => match p with Some true => false | _ => true end) (k_pipes s).
Definition k_pipes_left (s : cst) : N :=
  N.of_nat (length (filter (fun p => match p with Some _ => true | None => false end) (k_pipes s))).

Fixpoint upd {A} (i : nat) (f : A -> A) (l : list A) : list A :=
  match l, i with
  | [], _ => []
  | x :: r, O => f x :: r
  | x :: r, S k => x :: upd k f r
  end.

(* perform_final_pipe_cleanup takes the whole pipes_tx map *)
Definition after_coord (s : cst) (c : coord) : cst :=
  let fin := sphase_eqb (c_ph c) SFinished && negb (sphase_eqb (c_ph (k_co s)) SFinished) in
  {| k_co := c; k_l := k_l s; k_running := k_running s;
     k_pipes := if fin then map (fun _ => None) (k_pipes s) else k_pipes s; k_slot := k_slot s |}.

Definition k_step (s : cst) (o : cop) : cst * N :=
  let now := k_now s in
  match o with
  | OInit =>
      if sphase_eqb (c_ph (k_co s)) SRunning then
        let s1 := {| k_co := k_co s; k_l := k_l s; k_running := false; k_pipes := k_pipes s; k_slot := k_slot s |} in
        (after_coord s1 (initiate (k_l s) now now (k_pipes_empty s) (k_co s)), 0)
      else (s, 0)
  | OTick => (after_coord s (check_and_advance (k_l s) now now (k_pipes_empty s) (k_co s)), 1)
  | OForce p => ({| k_co := set_ph (k_co s) (phase_of p); k_l := k_l s; k_running := k_running s;
                    k_pipes := k_pipes s; k_slot := k_slot s |}, 0)
  | OStartLinger => ({| k_co := start_linger (k_l s) now (k_co s); k_l := k_l s; k_running := k_running s;
                        k_pipes := k_pipes s; k_slot := k_slot s |}, 0)
  | OCheck => (s, b2n (linger_done (k_co s) (k_pipes_empty s) now))
  | OAdvance => ({| k_co := advance_to_cleaning (k_co s); k_l := k_l s; k_running := k_running s;
                    k_pipes := k_pipes s; k_slot := k_slot s |}, 0)
  | OSetLinger ms => ({| k_co := k_co s; k_l := linger_of ms; k_running := k_running s;
                         k_pipes := k_pipes s; k_slot := k_slot s |}, 0)
  | OPipe i b => ({| k_co := k_co s; k_l := k_l s; k_running := k_running s;
                     k_pipes := upd (N.to_nat i) (fun p => match p with Some _ => Some (negb (b =? 0)) | None => None end) (k_pipes s);
                     k_slot := k_slot s |}, 0)
  | ORemove i => ({| k_co := k_co s; k_l := k_l s; k_running := k_running s;
                     k_pipes := upd (N.to_nat i) (fun _ => None) (k_pipes s); k_slot := k_slot s |}, 0)
  | OWait k => ({| k_co := k_co s; k_l := k_l s; k_running := k_running s; k_pipes := k_pipes s; k_slot := k |}, 0)
  | OClearDl => ({| k_co := {| c_ph := c_ph (k_co s); c_dl := None |}; k_l := k_l s; k_running := k_running s;
                    k_pipes := k_pipes s; k_slot := k_slot s |}, 0)
  end.

Definition op_code (o : cop) : N :=
  match o with
  | OInit => 0 | OTick => 1 | OForce _ => 2 | OStartLinger => 3 | OCheck => 4 | OAdvance => 5
  | OSetLinger _ => 6 | OPipe _ _ => 7 | ORemove _ => 8 | OWait _ => 9 | OClearDl => 10
  end.

Definition k_row (o : cop) (s : cst) (res : N) : list N :=
  [op_code o; phase_code (c_ph (k_co s)); match c_dl (k_co s) with None => 0 | Some d => 1 + d / 2 end;
   b2n (k_running s); k_pipes_left s; res].

Fixpoint k_rows (s : cst) (ops : list cop) : obs :=
  match ops with
  | [] => []
  | o :: r => let '(s', res) := k_step s o in k_row o s' res :: k_rows s' r
  end.

Inductive c15case :=
| CCoord (linger_ms pipes : N) (ops : list cop)
| CLinger (linger_ms : N).      (* a real-socket scenario: the model predicts the observable class only *)

Definition c15_model (c : c15case) : obs :=
  match c with
  | CCoord l n ops =>
      k_rows {| k_co := coord0; k_l := linger_of l; k_running := true;
                k_pipes := repeat (Some false) (N.to_nat n); k_slot := 0 |} ops
  | CLinger _ =>
      (* [every received message intact; received is an in-order prefix of the accepted; received <= accepted;
          close() within its bound; term() within its bound; no actor left after term()] -
          sys_never_truncates, coord_linger_bounds_close, coord_linger_zero_prompt, sys_close_reaches_finished *)
      [[1; 1; 1; 1; 1; 1]]
  end.

Definition row_eqb (a b : list N) : bool :=
  (length a =? length b)%nat && forallb (fun '(x, y) => x =? y) (combine a b).
Definition obs_eqb (a b : obs) : bool :=
  (length a =? length b)%nat && forallb (fun '(x, y) => row_eqb x y) (combine a b).

(* a coordinator script whose clock reads left their 40 ms slot on a busy machine is reported as [[97]] by the harness
   (after its retries): it was not observed, so there is nothing to compare (the driver counts these) *)
Definition skipped (e : obs) : bool := match e with [[97]] => true | _ => false end.
Definition c15_mismatches (cases : list (N * c15case * obs)) : list N :=
  map (fun '(i, _, _) => i) (filter (fun '(_, c, e) => negb (skipped e) && negb (obs_eqb (c15_model c) e)) cases).
