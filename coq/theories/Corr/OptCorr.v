(* Executable driver for the option-layer correspondence: a history of set_option calls on a fresh socket followed by
   get_option reads, as observation rows (see harness/src/opt.rs). *)
From RZ Require Import Base.Prelude Model.Engine Model.Options.
Local Open Scope Z_scope.

Definition optcase := (list (Z * bytes) * list Z)%type.
Definition obs := list (list N).

Definition u32 (z : Z) : N := Z.to_N (z mod 2 ^ 32).
Definition err_row (tag : N) (e : oerr) : list N :=
  match e with
  | EVal i => [tag; 1%N; u32 i]
  | EUnsupported i => [tag; 2%N; u32 i]
  | EInvalidOption i => [tag; 3%N; u32 i]
  end.

Definition opt_model (c : optcase) : obs :=
  let '(ops, gets) := c in
  let '(o, res) := apply_all default_opts ops in
  map (fun r => match r with None => [0%N] | Some e => err_row 1%N e end) res ++
  map (fun id => match retrieve_opt o id with
                 | GOk b => 2%N :: u32 id :: b
                 | GNotSet => [3%N; 4%N; 0%N]
                 | GDenied => [3%N; 5%N; 0%N]
                 | GUnsupported i => [3%N; 2%N; u32 i]
                 | GInvalid i => [3%N; 3%N; u32 i]
                 end) gets.

Definition row_eqb (a b : list N) : bool :=
  (length a =? length b)%nat && forallb (fun '(x, y) => N.eqb x y) (combine a b).
Definition obs_eqb (a b : obs) : bool :=
  (length a =? length b)%nat && forallb (fun '(x, y) => row_eqb x y) (combine a b).

Definition opt_mismatches (cases : list (N * optcase * obs)) : list N :=
  map (fun '(i, _, _) => i) (filter (fun '(_, c, e) => negb (obs_eqb (opt_model c) e)) cases).

(* calculate_required_slot_size: case = (page, target, count) *)
From RZ Require Import Model.EngineCfg.
Definition slotcase := (N * N * N)%type.
Definition slot_model (c : slotcase) : obs := let '(page, target, count) := c in [[4%N; slot_size page target count]].
Definition slot_mismatches (cases : list (N * slotcase * obs)) : list N :=
  map (fun '(i, _, _) => i) (filter (fun '(_, c, e) => negb (obs_eqb (slot_model c) e)) cases).
