(* Correspondence driver for the engine model: scripted inputs -> observation rows, in the same
   format as harness/src/eng.rs. Used by the checks of C04, C05, C06, C07, C19. *)
From RZ Require Import Base.Prelude Base.Stepper Model.Codec Model.Engine Corr.C03Corr.
Local Open Scope N_scope.

Inductive cinput :=
| CNet (ps : list piece) (t : N)      (* t in milliseconds *)
| CApp (fs : list cfr)
| CTick (t : N)
| CClose
| CStart
| CWrote (t : N)                      (* record_activity() at virtual time t (ms) *)
| CDeadline.                          (* query get_pong_deadline(): row [91; has; ms] *)

Definition ms (t : N) : N := t * 1000000.

Definition errcode (e : errclass) : N :=
  match e with EProto => 1 | ESecurity => 2 | EAuth => 3 | ETimeout => 4 | EInternal => 5 | EInvalidState => 6 end.
Definition phasecode (p : phase) : N :=
  match p with PGreeting => 0 | PSecurity => 1 | PReady => 2 | PV2Identity => 3 | PData => 4 | PClosed => 5 end.

Definition is_net (o : eout) : bool :=
  match o with OSend _ _ | OSendOpaque | OCork _ | OClose _ => true | _ => false end.

Definition msg_row (f : frame) : list N := 7 :: b2n (f_more f) :: b2n (f_cmd f) :: digest_row (f_payload f).

Definition eout_rows (opaque : bool) (o : eout) : obs :=
  match o with
  | OSend b zc => if opaque then [[2]] else [1 :: b2n zc :: digest_row b]
  | OSendOpaque => [[2]]
  | OCork on => [[3; b2n on]]
  | OClose d => [[4; match d with Some _ => 1 | None => 0 end; match d with Some x => x | None => 0 end]]
  | OHandshake id pt =>
      [[5; match id with Some _ => 1 | None => 0 end] ++ digest_row (opt_or_empty id) ++
       [match pt with Some _ => 1 | None => 0 end] ++
       (match pt with
        | Some t => if utf8_valid t then 0 :: digest_row t else [1]
        | None => 0 :: digest_row []
        end)]
  | ODeliver fs => [6; N.of_nat (length fs)] :: map msg_row fs
  | OErr e => [[8; if opaque then 0 else errcode e]]
  | OPanic => [[9]]
  | OActivity | OPongSeen => []
  end.

(* after a panic the real engine is gone: later inputs produce nothing *)
Definition has_panic (o : list eout) : bool := existsb (fun x => match x with OPanic => true | _ => false end) o.

Definition call_rows (opaque : bool) (o : list eout) : obs :=
  let body := concat (map (eout_rows opaque) (filter is_net o)) ++
              concat (map (eout_rows opaque) (filter (fun x => negb (is_net x)) o)) in
  [90; N.of_nat (length body)] :: body.

Definition to_input (c : cinput) : option einput :=
  match c with
  | CNet ps t => Some (INet (concat (map piece_bytes ps)) (ms t))
  | CApp fs => Some (IApp (map cfr_frame fs))
  | CTick t => Some (ITick (ms t))
  | CClose => Some IClose
  | CWrote t => Some (IWrote (ms t))
  | CStart | CDeadline => None
  end.

Fixpoint eng_rows (cfg : ecfg) (opaque : bool) (g : engine) (dead : bool) (is : list cinput) : obs * engine * bool :=
  match is with
  | [] => ([], g, dead)
  | c :: rest =>
      if dead then
        let '(r, g', d') := eng_rows cfg opaque g dead rest in ([90; 0] :: r, g', d')
      else
        let '(g1, o) := match to_input c with
                        | Some i => e_input cfg g i
                        | None => (g, match c with CStart => e_start | _ => [] end)
                        end in
        let pn := has_panic o in
        let rows := if pn then [[90; 1]; [9]]
                    else match c with
                         | CDeadline =>
                             [[90; 1]; match e_pong_deadline cfg g with
                                       | Some d => [91; 1; d / 1000000]
                                       | None => [91; 0; 0]
                                       end]
                         | _ => call_rows opaque o
                         end in
        let '(r, g', d') := eng_rows cfg opaque g1 pn rest in (rows ++ r, g', d')
  end.

Definition count_head (h : N) (rows : obs) : N :=
  N.of_nat (length (filter (fun r => match r with x :: _ => x =? h | [] => false end) rows)).

(* For CURVE / NOISE_XX configurations the mechanisms are opaque (their tokens are not modelled), so
   only the security-relevant summary is compared: how many HandshakeComplete and DeliverMessage
   actions were emitted, whether a panic occurred, and whether the Data phase was reached. *)
Definition eng_model (cfg : ecfg) (opaque : bool) (is : list cinput) : obs :=
  let '(rows, g, dead) := eng_rows cfg opaque (e_new 0) false is in
  if opaque then
    [[count_head 5 rows; count_head 6 rows; count_head 9 rows;
      match e_phase (g_st g) with PData => 1 | _ => 0 end]]
  else
  rows ++ [if dead then [99; 5; 0; 0]
           else [99; phasecode (e_phase (g_st g)); len (g_acc g); b2n (h_waiting (g_hb g))]].

Definition eng_mismatches (cases : list (N * (ecfg * bool * list cinput) * obs)) : list N :=
  map (fun '(i, _, _) => i)
      (filter (fun '(_, (cfg, opq, is), e) => negb (obs_eqb (eng_model cfg opq is) e)) cases).

(* stack-level scenario (raw TCP peer against a real listening socket): the model predicts the
   messages handed to the application = the engine's deliveries for the whole byte stream,
   whatever the write boundaries were. *)
Definition stack_model (cfg : ecfg) (ps : list piece) : obs :=
  let '(_, o) := e_net cfg (e_new 0) (concat (map piece_bytes ps)) 0 in
  let ds := filter (fun x => match x with ODeliver _ => true | _ => false end) o in
  concat (map (eout_rows false) ds) ++ [[98; N.of_nat (length ds)]].
Definition stack_mismatches (cases : list (N * (ecfg * list piece) * obs)) : list N :=
  map (fun '(i, _, _) => i)
      (filter (fun '(_, (cfg, ps), e) => negb (obs_eqb (stack_model cfg ps) e)) cases).

(* ---------- C19 at the session level: a raw peer that never answers a PING (harness/src/stack.rs hbpeer) ---------- *)
From RZ Require Import Model.HbActor.
Inductive sev :=
| SNetE (ps : list piece) (t : N)
| STickE (t : N)
| SDeadlineE (t : N)
| SWroteE (t : N).
Definition sev_aev (e : sev) : aev :=
  match e with
  | SNetE ps t => ANet (concat (map piece_bytes ps)) (ms t)
  | STickE t => ATick (ms t)
  | SDeadlineE t => ADeadline (ms t)
  | SWroteE t => AWrote (ms t)
  end.
Definition sev_time (e : sev) : N := match e with SNetE _ t | STickE t | SDeadlineE t | SWroteE t => t end.
Definition has_send (o : list eout) : bool := existsb (fun x => match x with OSend _ _ => true | _ => false end) o.

(* (time of the first PING, time at which the session gave up) over a nominal timeline *)
Fixpoint sess_scan (cfg : ecfg) (s : ast) (es : list sev) (ping fatal : option N) : option N * option N :=
  match es with
  | [] => (ping, fatal)
  | e :: rest =>
      let '(s1, o) := a_step cfg s (sev_aev e) in
      let ping' := match ping, e with
                   | None, STickE t => if has_send o then Some t else None
                   | _, _ => ping
                   end in
      let fatal' := match fatal, a_fatal s, a_fatal s1 with
                    | None, None, Some _ => Some (sev_time e)
                    | _, _, _ => fatal
                    end in
      sess_scan cfg s1 rest ping' fatal'
  end.
Definition hb_session_model (cfg : ecfg) (es : list sev) : obs :=
  let '(p, f) := sess_scan cfg (a_new 0) es None None in
  [[97; match p with Some _ => 1 | None => 0 end; match f with Some _ => 1 | None => 0 end;
    match p with Some t => t | None => 0 end;
    match p, f with Some t, Some u => u - t | _, _ => 0 end]].
(* observed row [97; ping_seen; closed; ping_ms; close_ms - ping_ms; sent]: same PING / close verdict as the model,
   the PING within (ivl - lo .. 2 ivl + hi] of the handshake, the close within [window - lo, window + hi] of the PING *)
(* a peer that hangs (stack.rs hbpeer_stalled): nobody reads, so only the moment the session gives up is observed *)
Definition hb_session_close_model (cfg : ecfg) (es : list sev) : obs :=
  let '(_, f) := sess_scan cfg (a_new 0) es None None in
  [[96; match f with Some _ => 1 | None => 0 end; match f with Some u => u | None => 0 end]].
Definition hb_session_agrees (cfg : ecfg) (es : list sev) (ivl lo hi : N) (e : obs) : bool :=
  match hb_session_model cfg es, e with
  | _, [[96; f; cms; _]] =>
      match hb_session_close_model cfg es with
      | [[_; mf; mclose]] => (mf =? f) && (if f =? 1 then (mclose <=? cms + lo) && (cms <=? mclose + hi) else true)
      | _ => false
      end
  | [[_; mp; mf; _; mwin]], [[97; p; f; pms; win; _]] =>
      (mp =? p) && (mf =? f) &&
      (if p =? 1 then (ivl <=? pms + lo) && (pms <=? 2 * ivl + hi) else true) &&
      (if (p =? 1) && (f =? 1) then (mwin <=? win + lo) && (win <=? mwin + hi) else true)
  | _, _ => false
  end.
Definition hbs_mismatches (cases : list (N * (ecfg * list sev * N * N * N) * obs)) : list N :=
  map (fun '(i, _, _) => i)
      (filter (fun '(_, (cfg, es, ivl, lo, hi), e) => negb (hb_session_agrees cfg es ivl lo hi e)) cases).
