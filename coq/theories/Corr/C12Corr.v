(* Executable drivers used by the correspondence check for C12: a case description (the same JSON
   the Rust harness executes on the real SubscriptionTrie / PipeMessageSender) -> observation rows. *)
From RZ Require Import Base.Prelude Model.Trie.
Local Open Scope N_scope.

Definition obs := list (list N).
Definition b2n (b : bool) : N := if b then 1 else 0.
Definition nlen {A} (l : list A) : N := N.of_nat (length l).

(* lexicographic order on byte strings (Rust's Ord for Vec<u8>), insertion sort *)
Fixpoint lex_le (a b : bytes) : bool :=
  match a, b with
  | [], _ => true
  | _ :: _, [] => false
  | x :: a', y :: b' => if x <? y then true else if y <? x then false else lex_le a' b'
  end.
Fixpoint insert_sorted (x : bytes) (l : list bytes) : list bytes :=
  match l with
  | [] => [x]
  | y :: r => if lex_le x y then x :: l else y :: insert_sorted x r
  end.
Definition sort_topics (l : list bytes) : list bytes := fold_right insert_sorted [] l.

Definition ret_row (o : op) (r : ret) : list N :=
  match o, r with
  | Sub _, _ => [0]
  | Unsub _, RBool b => [1; b2n b]
  | Match _, RBool b => [2; b2n b]
  | Topics, RTopics l =>
      3 :: nlen l :: concat (map (fun s => nlen s :: s) (sort_topics l))
  | _, _ => [98]
  end.

(* run a history from the empty trie, one row per op *)
Fixpoint hist_rows (t : trie) (ops : list op) : obs :=
  match ops with
  | [] => []
  | o :: rest => let '(t1, r) := step t o in ret_row o r :: hist_rows t1 rest
  end.

Definition frame_cells (f : mframe) : list N :=
  match f with None => [0; 0] | Some d => 1 :: nlen d :: d end.
Definition msg_row (tag : N) (m : message) : list N :=
  tag :: nlen m :: concat (map frame_cells m).

(* path 0: `send` on each item, the pipe is drained after every send *)
Definition single_rows (t : trie) (alive : bool) (items : list message) : obs :=
  concat (map (fun m => match send_single t alive m with
                        | Forwarded m' => [[0; 1; 1]; msg_row 9 m']
                        | Discarded => [[0; 1; 0]]
                        | Refused _ => [[0; 0; 0]]
                        end) items).

(* path 1: `try_send_sync` on each item against a pipe with `free` slots, drained at the end *)
Fixpoint sync_rows (t : trie) (alive : bool) (free : nat) (items : list message) : obs * list message :=
  match items with
  | [] => ([], [])
  | m :: rest =>
      match try_send_sync t alive (match free with O => false | S _ => true end) m with
      | Forwarded m' => let '(rs, fw) := sync_rows t alive (pred free) rest in ([1; 0] :: rs, m' :: fw)
      | Discarded => let '(rs, fw) := sync_rows t alive free rest in ([1; 0] :: rs, fw)
      | Refused _ => let '(rs, fw) := sync_rows t alive free rest in ([1; if alive then 1 else 2] :: rs, fw)
      end
  end.

Inductive c12case :=
| CHist (ops : list op)
| CFilter (ops : list op) (cap : N) (alive : bool) (path : N) (items : list message).

Definition c12_model (c : c12case) : obs :=
  match c with
  | CHist ops => hist_rows empty ops
  | CFilter ops cap alive path items =>
      let t := fst (run empty ops) in
      match path with
      | 0 => single_rows t alive items
      | 1 => let '(rs, fw) := sync_rows t alive (N.to_nat cap) items in rs ++ map (msg_row 9) fw
      | _ => let '(s, r, n) := try_send_batch t alive (N.to_nat cap) items in
             [2; N.of_nat n; nlen r] :: map (msg_row 8) r ++ map (msg_row 9) s
      end
  end.

Definition row_eqb (a b : list N) : bool :=
  (length a =? length b)%nat && forallb (fun '(x, y) => x =? y) (combine a b).
Definition obs_eqb (a b : obs) : bool :=
  (length a =? length b)%nat && forallb (fun '(x, y) => row_eqb x y) (combine a b).

(* indices of the cases whose model observation differs from the expected (implementation) one *)
Definition c12_mismatches (cases : list (N * c12case * obs)) : list N :=
  map (fun '(i, _, _) => i) (filter (fun '(_, c, e) => negb (obs_eqb (c12_model c) e)) cases).
