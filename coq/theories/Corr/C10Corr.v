(* Executable driver for the C10 correspondence: the schedules that harness/src/c10.rs replays on
   real REQ / REP sockets are run on Model/ReqRep.v, producing the same observation rows.

   One harness token `["t", i]` is ONE poll of task i's call future: it runs from the schedule point
   the task stopped at to the next schedule point, or to an await that is not ready ("parked"), or to
   the end of the call.  `poll` therefore executes model steps until the task reaches a pc at which
   the real code has a `cfg(rzmq_verif)` schedule point (or parks / finishes).  The harness cannot
   separate the core's connection teardown from pipe_detached, so `TDetach p` = both, back to back. *)
From RZ Require Import Base.Prelude Model.Balancer Model.ReqRep.
Local Open Scope N_scope.

Inductive tok :=
| TT (t : nat)               (* poll task t *)
| TMsg (p : N) (m : msg)     (* peer p sends raw frames (REQ: a reply, REP: a request) *)
| TDetach (p : N)
| TTimeout (t : nat).

Inductive c10case :=
| CReq (npeers : nat) (tmo : bool) (progs : list (list call)) (sch : list tok)
| CRep (npeers : nat) (tmo : bool) (progs : list (list call)) (sch : list tok).

Definition obs := list (list N).
Definition b2n (b : bool) : N := if b then 1 else 0.

Definition op_code (o : op) : N := match o with OSend => 0 | ORecv => 1 | OSendM => 2 | ORecvM => 3 end.
Definition res_row (r : res) : list N :=
  match r with
  | ROk d => 0 :: d
  | ROkMore d => 1 :: d
  | RInvalid _ => [2]
  | RErr k => [k]
  end.

(* schedule points of the real code *)
Definition qpoint (pc : qpc) (c : call) : option N :=
  match pc with
  | QSendChecked => Some 1
  | QSendPushed _ => Some 2
  | QRecvChecked => Some 3
  | QRecvGot _ => Some 4
  | QRecvMChecked => Some 5
  | QRecvMGot _ => Some 6
  | _ => None
  end.
Definition ppoint (pc : ppc) (c : call) : option N :=
  match pc with
  | PRecvChecked => Some (if is_multi c then 9 else 7)
  | PRecvGot _ _ => Some (if is_multi c then 10 else 8)
  | PSendTaken _ => Some 11
  | _ => None
  end.

(* can task t move at all? (no: it is parked on an await that is not ready, or has nothing left to call) *)
Definition q_can_move (t : nat) (s : qsys) : bool :=
  match nth_error (s_tasks s) t with
  | Some tk =>
      match t_prog tk with
      | c :: _ => is_some (qstep t c (match t_pc tk with Some pc => pc | None => QStart end) (s_sh s))
      | [] => false
      end
  | None => false
  end.
Definition p_can_move (t : nat) (s : psys) : bool :=
  match nth_error (s_tasks s) t with
  | Some tk =>
      match t_prog tk with
      | c :: _ => is_some (pstep t c (match t_pc tk with Some pc => pc | None => PStart end) (s_sh s))
      | [] => false
      end
  | None => false
  end.

(* poll with the parked test in front of every step *)
Fixpoint qpoll (fuel t : nat) (s : qsys) : qsys * list N :=
  match fuel with
  | O => (s, [0; N.of_nat t; 99])
  | S k =>
      if negb (q_can_move t s) then (s, [0; N.of_nat t; 0])
      else
        let s' := qstep_sys s (ST t) in
        let nlog := length (s_log s) in
        match nth_error (s_log s') nlog with
        | Some e => (s', [0; N.of_nat t; 2; op_code (c_op (e_call e))] ++ res_row (e_res e))
        | None =>
            match nth_error (s_tasks s') t with
            | Some tk' =>
                match t_pc tk', t_prog tk' with
                | Some pc', c :: _ =>
                    match qpoint pc' c with
                    | Some k' => (s', [0; N.of_nat t; 1; k'])
                    | None => qpoll k t s'
                    end
                | _, _ => (s', [0; N.of_nat t; 0])
                end
            | None => (s', [0; N.of_nat t; 0])
            end
        end
  end.
Fixpoint ppoll (fuel t : nat) (s : psys) : psys * list N :=
  match fuel with
  | O => (s, [0; N.of_nat t; 99])
  | S k =>
      if negb (p_can_move t s) then (s, [0; N.of_nat t; 0])
      else
        let s' := pstep_sys s (ST t) in
        let nlog := length (s_log s) in
        match nth_error (s_log s') nlog with
        | Some e => (s', [0; N.of_nat t; 2; op_code (c_op (e_call e))] ++ res_row (e_res e))
        | None =>
            match nth_error (s_tasks s') t with
            | Some tk' =>
                match t_pc tk', t_prog tk' with
                | Some pc', c :: _ =>
                    match ppoint pc' c with
                    | Some k' => (s', [0; N.of_nat t; 1; k'])
                    | None => ppoll k t s'
                    end
                | _, _ => (s', [0; N.of_nat t; 0])
                end
            | None => (s', [0; N.of_nat t; 0])
            end
        end
  end.

Definition qtok (s : qsys) (x : tok) : qsys * list N :=
  match x with
  | TT t => qpoll 8 t s
  | TMsg p m => (qstep_sys s (SE (QReply p m)), [1; p; b2n (memN p (q_att (s_sh s)))])
  | TDetach p =>
      (qstep_sys (qstep_sys s (SE (QDetachCore p))) (SE (QDetachSock p)), [2; p; b2n (memN p (q_att (s_sh s)))])
  | TTimeout t => (qstep_sys s (SE (QTimeout t)), [3; N.of_nat t; 1])
  end.
Definition ptok (s : psys) (x : tok) : psys * list N :=
  match x with
  | TT t => ppoll 8 t s
  | TMsg p m => (pstep_sys s (SE (PReq p m)), [1; p; b2n (memN p (p_att (s_sh s)))])
  | TDetach p =>
      (pstep_sys (pstep_sys s (SE (PDetachCore p))) (SE (PDetachSock p)), [2; p; b2n (memN p (p_att (s_sh s)))])
  | TTimeout t => (pstep_sys s (SE (PTimeout t)), [3; N.of_nat t; 1])
  end.

Fixpoint qtoks (s : qsys) (xs : list tok) : qsys * obs :=
  match xs with
  | [] => (s, [])
  | x :: r => let '(s1, row) := qtok s x in let '(s2, rows) := qtoks s1 r in (s2, row :: rows)
  end.
Fixpoint ptoks (s : psys) (xs : list tok) : psys * obs :=
  match xs with
  | [] => (s, [])
  | x :: r => let '(s1, row) := ptok s x in let '(s2, rows) := ptoks s1 r in (s2, row :: rows)
  end.

Definition out_rows (o : list (N * msg)) : obs := map (fun '(p, m) => 8 :: p :: m) o.

Definition c10_model (c : c10case) : obs :=
  match c with
  | CReq n tmo progs sch => let '(s, rows) := qtoks (qinit n tmo progs) sch in rows ++ out_rows (q_out (s_sh s))
  | CRep n tmo progs sch => let '(s, rows) := ptoks (pinit n tmo progs) sch in rows ++ out_rows (p_out (s_sh s))
  end.

Definition row_eqb (a b : list N) : bool := list_eqb N.eqb a b.
Definition obs_eqb (a b : obs) : bool := list_eqb row_eqb a b.

Definition c10_mismatches (cases : list (N * c10case * obs)) : list N :=
  map (fun '(i, _, _) => i) (filter (fun '(_, c, e) => negb (obs_eqb (c10_model c) e)) cases).
