(* Executable drivers for the correspondence check of C16. *)
From RZ Require Import Base.Prelude Model.WgWait Model.Lifecycle.
Local Open Scope N_scope.

Definition obs := list (list N).
Definition b2n (b : bool) : N := if b then 1 else 0.

(* ---- (A) scripts over the real ActorDropGuard + WaitGroup.  Harness ops (ids are given in creation order):
   [0,i] guard i created directly   [1,i] waive   [2,i] set_error   [3,i] drop
   [4,i] tokio::spawn of task i (it creates its guard when first polled)
   [5,i] abort task i, then yield   [6,i] task i finishes normally (waive)   [7,i] finishes with an error
   [8] yield: every spawned task is polled   [9,i] task i panics                                         *)
Definition start_all (s : lstate) : lstate :=
  fold_left (fun s i => l_step s (LStart i)) (seq 0 (length (l_actors s))) s.

Definition g_op (s : lstate) (o : list N) : lstate :=
  match o with
  | [0; i] => l_step (l_step s LSpawn) (LStart (N.to_nat i))
  | [1; i] => l_step s (LWaive (N.to_nat i))
  | [2; i] => l_step s (LSetErr (N.to_nat i))
  | [3; i] => l_step s (LExit (N.to_nat i))
  | [4; i] => l_step s LSpawn
  | [5; i] => start_all (l_step s (LAbort (N.to_nat i)))
  | [6; i] => l_step (l_step (start_all s) (LWaive (N.to_nat i))) (LExit (N.to_nat i))
  | [7; i] => l_step (l_step (start_all s) (LSetErr (N.to_nat i))) (LExit (N.to_nat i))
  | [8] => start_all s
  | [9; i] => l_step (start_all s) (LPanic (N.to_nat i))
  | _ => s
  end.

Fixpoint g_rows (s : lstate) (ops : list (list N)) : obs :=
  match ops with
  | [] => let left := N.of_nat (l_count s) in [[99; left; b2n (left =? 0)]]   (* term() returns at once iff the count is 0 *)
  | o :: r => let s' := g_op s o in [hd 0 o; N.of_nat (l_count s')] :: g_rows s' r
  end.

(* ---- (D) histories on real sockets. Step rows [task; idx; op; sock; res; rel; late]:
   op: 1 bind 2 connect 3 send 4 recv 5 set_option 6 get_option 7 monitor 8 close 9 drop-handle 10 sleep 11 term
       12/13 harness signals 14 send_multipart 15 recv_multipart 16 disconnect 17 unbind 18 raw listener
   res: 0 Ok, 1 Err, 2 still pending 2.5 s after its socket was closed, 5 not executed
   rel: 0 issued before close()/term() started, 2 while it was in progress, 1 after it had returned
   late: 1 = finished, but more than 500 ms after max(issue, close returned)
   Last row, already classified by the python side:
   [99; close bounded; term bounded; term returned; actors at return = 0; actors later = 0; tasks later = 0;
    registered sockets = 0; inproc names = 0; listening endpoints bindable again; no panic]              *)
Definition stype_of_code (c : N) : stype :=
  match c with 0 => TPub | 1 => TSub | 2 => TReq | 3 => TRep | 4 => TDealer | 5 => TRouter | 6 => TPush | _ => TPull end.
Definition uop_of_code (c : N) : option uop :=
  match c with
  | 3 => Some USend | 14 => Some USendMulti | 4 => Some URecv | 15 => Some URecvMulti
  | 1 | 2 | 5 | 6 | 7 | 16 | 17 | 19 => Some UDelegated
  | _ => None
  end.

Definition step_ok (types : list N) (row : list N) : bool :=
  match row with
  | [_; _; op; sock; res; rel; late] =>
      match uop_of_code op with
      | None =>
          (* close() is a mailbox command as well (UserClose): it can fall into the same window; a second
             close() on the same handle returns Ok without sending. term() and harness steps always come back *)
          (op =? 8) || negb (res =? 2)
      | Some u =>
          match lookup (stype_of_code (nth (N.to_nat sock) types 7)) u with
          | None => false
          | Some r =>
              if res =? 5 then true
              else if rel =? 1 then
                (* issued on a closed socket: an error, at once - or, for a mailbox command, the window *)
                ((res =? 1) && (late =? 0) &&
                   existsb (fun lp => match after_close r lp with ErrPrompt => true | _ => false end)
                           [LoopServing; LoopLastRecvDone; LoopDrained; LoopDropped])
                || ((res =? 2) && match after_close r LoopDrained with HangsForever => true | _ => false end)
              else
                (* issued before / while closing: may succeed or fail; it may stay blocked only where the
                   table says nothing wakes it (or, for a mailbox command, in the window) *)
                negb (res =? 2)
                || match blocked_at_close r with StaysBlocked | BoundedByTimeout => true | Woken => false end
          end
      end
  | _ => false
  end.

Definition final_ok (row : list N) : bool :=
  match row with
  | 99 :: rest => forallb (fun x => x =? 1) rest && (length rest =? 10)%nat
  | _ => false
  end.

Inductive c16case :=
| CGuard (ops : list (list N))
| CTermFirst (n : N)             (* n sockets created, term() called before their command loops were ever polled *)
| CHist (types : list N).

Definition row_eqb (a b : list N) : bool :=
  (length a =? length b)%nat && forallb (fun '(x, y) => x =? y) (combine a b).
Definition obs_eqb (a b : obs) : bool :=
  (length a =? length b)%nat && forallb (fun '(x, y) => row_eqb x y) (combine a b).

Definition c16_model (c : c16case) : obs :=
  match c with
  | CGuard ops => g_rows l0 ops
  | CTermFirst n =>
      (* [98; WaitGroup count when term() returned; live actors at that moment; sockets still registered] *)
      let s := l_run (repeat LSpawn (N.to_nat n)) in
      [[98; N.of_nat (l_count s); N.of_nat (live s); n]]
  | CHist _ => [[99; 1; 1; 1; 1; 1; 1; 1; 1; 1; 1]]
  end.

Definition c16_agrees (c : c16case) (e : obs) : bool :=
  match c with
  | CGuard _ | CTermFirst _ => obs_eqb (c16_model c) e
  | CHist types =>
      match rev e with
      | fin :: steps => final_ok fin && forallb (step_ok types) steps
      | [] => false
      end
  end.

Definition c16_mismatches (cases : list (N * c16case * obs)) : list N :=
  map (fun '(i, _, _) => i) (filter (fun '(_, c, e) => negb (c16_agrees c e)) cases).
