(* C14 correspondence driver: case description -> observation rows, evaluated by vm_compute on
   the cases the Rust harness (harness/src/c14.rs) ran on the real code.

   CIface / CRecv (kind A): the harness runs under a PAUSED tokio clock, so the timer fires exactly
   when asked: fire = id, and answers / elapsed ms / number of copies on the pipe / what came back
   are compared exactly.
   CSock / CRecvSock (kind D): real sockets, wall clock; only the CLASS of the answer at the
   high-water mark is compared here (the python oracle judges the times): the observation
   "still waiting after block_ms" is class 5. *)
From RZ Require Import Base.Prelude Model.Hwm Proofs.HwmProofs.
Local Open Scope N_scope.

Definition obs := list (list N).

Inductive c14case :=
(* kind: 0 sca 1 inproc 2 uring; method: 0 message 1 multipart 2 owned 3 sync *)
| CIface (kind method : N) (full closed0 : bool) (sndtimeo : timeo) (pop_at close_at : option N)
(* eng: 0 anon.recv 1 anon.recv_multipart 2 addr.recv_logical_message *)
| CRecv (eng : N) (pre : bool) (rcvtimeo : timeo) (queued : nat) (push_at close_at : option N)
(* stype: 0 PUSH 1 DEALER 2 ROUTER(mandatory) 3 REQ; tr: 0 tcp 1 inproc *)
| CSock (stype tr : N) (sndtimeo : timeo) (hwm : nat) (block_ms : N)
(* the same with SNDTIMEO changed after the connection was made: s_conn at connect, s_now at send *)
| CSockLate (stype tr : N) (s_conn s_now : timeo) (hwm : nat) (block_ms : N)
(* rtype: 0 PULL 1 SUB 2 DEALER 3 ROUTER *)
| CRecvSock (rtype : N) (rcvtimeo : timeo) (push_after : option N) (block_ms : N).

Definition variant_of (kind method : N) : variant :=
  match kind, method with
  | 0, 0 => VScaMsg | 0, 1 => VScaMulti | 0, 2 => VScaOwned | 0, _ => VScaSync
  | 1, 0 => VInprocMsg | 1, 1 => VInprocMulti | 1, 2 => VInprocOwned | 1, _ => VInprocSync
  | _, 0 => VUringMsg | _, 1 => VUringMulti | _, 2 => VUringOwned | _, _ => VUringSync
  end.

Definition code (a : answer) : N :=
  match a with AOk => 0 | AWouldBlock => 1 | ATimeout => 2 | AClosed => 3 end.

Definition exact (d : N) : N := d.     (* the paused clock *)

Definition iface_row (v : variant) (o : outcome) : list N :=
  match o with
  | Hang => [9; 0; 0; 0]
  | Ret a t f =>
      [code a; t;
       match f with Enqueued => 1 | _ => 0 end;
       match f with Returned => 2 | Dropped => if can_return v then 1 else 0 | Enqueued => 0 end]
  end.

Definition recv_row (o : routcome) (rid : N) : list N :=
  match o with
  | RHang => [9; 0; 0; 0]
  | RRet a t p => [code a; t; if p then 1 else 0; match a with AOk => rid | _ => 0 end]
  end.

(* D: what is seen within `block_ms`: an answer, or a call that is still waiting *)
Definition class_of (block_ms : N) (o : outcome) : N :=
  match o with
  | Hang => 5
  | Ret a t _ => if block_ms <? t then 5 else code a
  end.
Definition rclass_of (block_ms : N) (o : routcome) : N :=
  match o with
  | RHang => 5
  | RRet a t _ => if block_ms <? t then 5 else code a
  end.

Definition iface_of (tr : N) : iface := match tr with 0 => ISca | _ => IInproc end.

Definition c14_model (c : c14case) : obs :=
  match c with
  | CIface kind method full closed0 s pop_at close_at =>
      let v := variant_of kind method in
      let ts := if closed0 then TsClosed else if full then TsFull else TsOk in
      [iface_row v (send_path exact v ts s (wait_of pop_at close_at))]
  | CRecv eng pre r queued push_at close_at =>
      let v := match eng with 0 => RAnon | 1 => RAnonMulti | _ => RAddr end in
      let w := match queued with O => pop_of push_at close_at | _ => PAt 0 end in
      let rid := if pre then 501 else match queued with O => 301 | _ => 101 end in
      [recv_row (recv_path exact v pre r (try_pop_of queued) w) rid]
  | CSock stype tr s hwm block_ms =>
      let i := iface_of tr in
      let o :=
        match stype with
        | 0 => push_full exact exact i s WNever
        | 1 => dealer_send exact (route_full exact i s WNever) hwm s hwm []
        | _ => send_path exact (match tr with 0 => VScaMulti | _ => VInprocMulti end) TsFull s WNever
        end in
      [[class_of block_ms o]]
  | CSockLate stype tr s_conn s_now hwm block_ms =>
      let i := iface_of tr in
      let o :=
        match stype with
        | 0 => push_late exact exact i s_conn s_now WNever
        | 1 => dealer_send exact (route_full exact i s_conn WNever) hwm s_now hwm []
        | _ => send_path exact (match tr with 0 => VScaMulti | _ => VInprocMulti end) TsFull s_conn WNever
        end in
      (* the harness waits block_ms for a -1 call, d + 3000 ms for a timed one (then: class 9) *)
      [[match s_now with
        | None => class_of block_ms o
        | Some d => match o with
                    | Hang => 9
                    | Ret a t _ => if d + 3000 <? t then 9 else code a
                    end
        end]]
  | CRecvSock rtype r push_after block_ms =>
      let v := match rtype with 0 | 1 => RAnonMulti | 2 => RAddr | _ => RRouter end in
      let w := match push_after with Some t => PAt t | None => PNever end in
      [[rclass_of block_ms (recv_path exact v false r PEmpty w)]]
  end.

Definition row_eqb (a b : list N) : bool :=
  (length a =? length b)%nat && forallb (fun '(x, y) => x =? y) (combine a b).
Definition obs_eqb (a b : obs) : bool :=
  (length a =? length b)%nat && forallb (fun '(x, y) => row_eqb x y) (combine a b).

(* a stack scenario that could not be set up (bind / connect / probe failed, scenario deadline,
   harness panic: codes 93..96) made no observation; the python side counts these *)
Definition unobserved (c : c14case) (e : obs) : bool :=
  match c, e with
  | (CSock _ _ _ _ _ | CSockLate _ _ _ _ _ _ | CRecvSock _ _ _ _), [[x]] => (93 <=? x) && (x <=? 96)
  | _, _ => false
  end.

Definition c14_mismatches (cases : list (N * c14case * obs)) : list N :=
  map (fun '(i, _, _) => i)
      (filter (fun '(_, c, e) => negb (unobserved c e) && negb (obs_eqb (c14_model c) e)) cases).
