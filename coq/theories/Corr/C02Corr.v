(* Executable drivers for the C02 correspondence: the same case descriptions the Rust harness (harness/src/c02.rs)
   executes against the real code are evaluated on the models; rows are compared inside Coq. *)
From RZ Require Import Base.Prelude Model.Codec Model.RouterMap Model.Envelope Model.FrameBatch Model.SendFlags
  Model.Ingress Corr.C03Corr.
Local Open Scope N_scope.

(* ================================================================ FrameBatch histories (elements are numbers) *)
Inductive fbop :=
| FNew | FCap (a : nat) | FFrom (a : nat) (x : N) | FPush (x : N) | FInsert (a : nat) (x : N)
| FRemove (a : nat) | FPop | FExtend (a : nat) (x : N) | FIndex (a : nat).

Definition ids (a : nat) (x : N) : list N := map (fun i => x + N.of_nat i) (seq 0 a).
Definition fb_digest (b : fb N) : list N :=
  let l := fb_list b in
  [N.of_nat (length l); b2n (fb_is_empty b); hd 0 l; last l 0;
   snd (fold_left (fun '(i, s) x => (i + 1, (s + i * x) mod 1000003)) l (1, 0))].
Definition fb_code (o : fbop) : N :=
  match o with
  | FNew => 0 | FCap _ => 1 | FFrom _ _ => 2 | FPush _ => 3 | FInsert _ _ => 4
  | FRemove _ => 5 | FPop => 6 | FExtend _ _ => 7 | FIndex _ => 8
  end.
(* result of one op: new batch and "returned element + 1" (0 = none) *)
Definition fb_apply (o : fbop) (b : fb N) : out (fb N * N) :=
  match o with
  | FNew => Ok (fb_new, 0)
  | FCap a => bind (fb_with_capacity a) (fun b' => Ok (b', 0))
  | FFrom a x => bind (fb_from_vec (ids a x)) (fun b' => Ok (b', 0))
  | FPush x => bind (fb_push b x) (fun b' => Ok (b', 0))
  | FInsert a x => bind (fb_insert a x b) (fun b' => Ok (b', 0))
  | FRemove a => bind (fb_remove a b) (fun '(x, b') => Ok (b', x + 1))
  | FPop => let '(r, b') := fb_pop b in Ok (b', match r with Some x => x + 1 | None => 0 end)
  | FExtend a x => bind (fb_extend b (ids a x)) (fun b' => Ok (b', 0))
  | FIndex a => bind (fb_index b a) (fun x => Ok (b, x + 1))
  end.
Fixpoint fb_run (ops : list fbop) (b : fb N) : obs :=
  match ops with
  | [] => []
  | o :: t =>
      match fb_apply o b with
      | Panic => [[fb_code o; 1]]
      | Ok (b', r) => (fb_code o :: 0 :: r :: fb_digest b') :: fb_run t b'
      end
  end.

(* ================================================================ AnonymousIngressEngine histories *)
Inductive iop :=
| IReg (p : N) | IEnq (h : nat) (shape : N) (fs : list frame) | IRecv | IRecvMp | IDereg (p : N) | IClose.

Definition lit_row (tag : N) (f : frame) : list N := tag :: b2n (fst f) :: snd f.
Definition ret_rows (kind : N) (r : ret) : obs :=
  match r with
  | RFrame f => [[kind; 0]; lit_row 7 f]
  | RBatch fs => [kind; 0; N.of_nat (length fs)] :: map (lit_row 7) fs
  | RWouldBlock => [[kind; 1]]
  | RPanic => [[kind; 2]]
  end.
(* the batch the harness builds: shape 0 = FrameBatch::new() + pushes, shape 1 = with_capacity(n + 3) + pushes *)
Definition mk_batch (shape : N) (fs : list frame) : out batch :=
  if shape =? 1 then bind (fb_with_capacity (length fs + 3)) (fun b0 => fb_extend b0 fs)
  else fb_extend fb_new fs.

Fixpoint ing_run (ops : list iop) (st : astate (Q := rpq)) (handles : list sid) : obs :=
  match ops with
  | [] => []
  | o :: t =>
      match o with
      | IReg p =>
          let '(st', e) := anon_step rpq_ops (ORegister p) st in
          [4] :: ing_run t st' (handles ++ [match e with EvReg h => h | _ => 0%nat end])
      | IEnq h shape fs =>
          match mk_batch shape fs with
          | Panic => [[3; 9]]
          | Ok b =>
              let '(st', e) := anon_step rpq_ops (OEnqueue (nth h handles 0%nat) b) st in
              [3; match e with EvEnq ok => b2n ok | _ => 9 end] :: ing_run t st' handles
          end
      | IRecv =>
          let '(st', e) := anon_step rpq_ops ORecv st in
          match e with EvRet r _ => ret_rows 1 r | _ => [[9]] end ++ ing_run t st' handles
      | IRecvMp =>
          let '(st', e) := anon_step rpq_ops ORecvMultipart st in
          match e with EvRet r _ => ret_rows 2 r | _ => [[9]] end ++ ing_run t st' handles
      | IDereg p => let '(st', _) := anon_step rpq_ops (ODeregister p) st in [5] :: ing_run t st' handles
      | IClose => let '(st', _) := anon_step rpq_ops OClose st in [5] :: ing_run t st' handles
      end
  end.

(* ================================================================ real sockets, one connection *)
(* message spec: id, frame sizes, flags supplied by the application (0 = no MORE anywhere, 1 = MORE on all but the
   last, 2 = MORE on EVERY frame, the last included: stale flags of frames relayed from a longer message),
   sent part by part (true) or with send_multipart (false) *)
Definition mspec : Type := N * list N * N * bool.

(* tagged payload [sender; id_hi; id_lo; idx_hi; idx_lo; cnt_hi; cnt_lo; 0xC2] ++ padding (contents not compared) *)
Definition tagged_data (sender id idx count len : N) : list N :=
  if len =? 0 then []
  else [sender; id / 256; id mod 256; idx / 256; idx mod 256; count / 256; count mod 256; 194]
       ++ repeat 0 (N.to_nat (N.max len 8 - 8)).
Fixpoint build_frames (sender id count : N) (flags : N) (idx : N) (sizes : list N) : list frame :=
  match sizes with
  | [] => []
  | l :: t => (match flags with 0 => false | 1 => idx + 1 <? count | _ => true end, tagged_data sender id idx count l)
              :: build_frames sender id count flags (idx + 1) t
  end.
Definition build_message (sender : N) (m : mspec) : list frame :=
  let '(id, sizes, flags, _) := m in build_frames sender id (N.of_nat (length sizes)) flags 0 sizes.
Definition tagged_row (f : frame) : list N :=
  let d := snd f in
  let l := N.of_nat (length d) in
  [7; b2n (fst f); l] ++
  match d with
  | [] => []
  | _ => if (8 <=? l) && (nth 7 d 0 =? 194)
         then [1; nth 0 d 0; nth 1 d 0 * 256 + nth 2 d 0; nth 3 d 0 * 256 + nth 4 d 0; nth 5 d 0 * 256 + nth 6 d 0]
         else 0 :: firstn 8 d
  end.
Definition call_rows (kind : N) (r : ret) : obs :=
  match r with
  | RFrame f => [[20; kind; 0; 1]; tagged_row f]
  | RBatch fs => [20; kind; 0; N.of_nat (length fs)] :: map tagged_row fs
  | RWouldBlock => [[20; kind; 1; 0]]
  | RPanic => [[20; kind; 3; 0]]
  end.

(* what one send call answers and puts on the pipe: code 0 Ok / 2 Err / 3 panic *)
Definition send_code (r : out send_res) : N :=
  match r with Panic => 3 | Ok SRErr => 2 | Ok _ => 0 end.
Definition send_wire (r : out send_res) : list frame :=
  match r with Ok (SRWire w) => w | _ => [] end.
(* parts through send(): codes per call are folded into one (first non-zero), wire = everything handed over *)
Definition parts_result (rs : out (option batch * list send_res)) : N * list frame :=
  match rs with
  | Panic => (3, [])
  | Ok (_, l) => (if existsb (fun r => match r with SRErr => true | _ => false end) l then 2 else 0,
                  concat (map (fun r => match r with SRWire w => w | _ => [] end) l))
  end.

Definition ID_D1 : list N := [68; 49].   (* "D1" *)
Definition ID_RX : list N := [82; 88].   (* "RX" *)

(* pattern codes: 0 push_pull, 1 dealer_router, 2 router_dealer, 3 dealer_dealer, 4 dealer_rep, 5 rep_req, 6 pub_sub *)
(* code of the call(s) and the FrameBatches handed to the connection, one list per batch *)
Definition one_batch (r : out send_res) : N * list (list frame) :=
  (send_code r, match send_wire r with [] => [] | w => [w] end).
Definition send_one (pat : N) (smanual : bool) (sender : N) (m : mspec) : N * list (list frame) :=
  let '(_, _, _, parts) := m in
  let fs := build_message sender m in
  match pat with
  | 0 => if parts then (0, map (fun f => [f]) fs)    (* PUSH send(): every frame is a batch of its own, flags as given *)
         else one_batch (send_multipart_of SndPush fs)
  | 6 => if parts then (0, map (fun f => [f]) fs)
         else one_batch (send_multipart_of SndPub fs)
  | 1 | 3 | 4 =>
      if parts then let '(c, w) := parts_result (dealer_send_parts smanual None fs) in
                    (c, match w with [] => [] | _ => [w] end)
      else one_batch (send_multipart_of (SndDealer smanual) fs)
  | 2 => one_batch (send_multipart_of (SndRouter false smanual (Some SDealer)) ((true, ID_RX) :: fs))
  | _ => one_batch (send_multipart_of (SndRep [delim true]) fs)
  end.

(* the receiving engine (tcp) and the inproc accumulator cut the frame stream after every frame without MORE;
   batches are built with push, hence canonical *)
Definition to_batches (inproc : bool) (sent : list (list frame)) : list batch :=
  if inproc then
    match inproc_run fb_new sent with Ok (_, out) => out | Panic => [] end
  else
    concat (map (fun l => match fb_extend fb_new l with Ok b => [b] | Panic => [] end) (wire_split (concat sent))).

Definition recv_process (pat : N) (rmanual : bool) : pipe -> batch -> out batch :=
  match pat with
  | 1 => fun _ raw => router_recv_fb rmanual (Some TDealer) ID_D1 raw
  | 2 | 3 => fun _ raw => dealer_process_fb rmanual raw
  | _ => fun _ raw => Ok raw
  end.

Fixpoint enqueue_all (bs : list batch) (st : astate (Q := rpq)) : astate (Q := rpq) :=
  match bs with
  | [] => st
  | b :: t => enqueue_all t (fst (anon_step rpq_ops (OEnqueue 0%nat b) st))
  end.
(* REP / REQ calls: `armed` = the socket is in the state in which a receive call is admitted
   (REP: ReadyToReceive; REQ: ExpectingReply); otherwise the call answers InvalidState *)
Fixpoint reqrep_rows (pat : N) (script : list bool) (q : rpq) (armed : bool) : obs :=
  match script with
  | [] => []
  | mp :: t =>
      let kind := b2n mp in
      if negb armed then [20; kind; 2; 3] :: reqrep_rows pat t q false
      else
        let '(q', r) := q_try_pop q in
        match r with
        | None => [20; kind; 1; 0] :: reqrep_rows pat t q' (if pat =? 4 then true else false)
        | Some (_, raw) =>
            if mp then
              match (if pat =? 4 then rep_recv_multipart_fb raw else req_recv_multipart_fb raw) with
              | Ok b => call_rows kind (RBatch (fb_list b))
              | Panic => call_rows kind RPanic
              end ++ reqrep_rows pat t q' false
            else
              match (if pat =? 4 then rep_recv_fb raw else req_recv_fb raw) with
              | Ok f => call_rows kind (RFrame f) ++
                        reqrep_rows pat t q' (if pat =? 4 then false else fst f)  (* REQ stays armed while MORE *)
              | Panic => call_rows kind RPanic ++ reqrep_rows pat t q' false
              end
        end
  end.
Fixpoint script_rows (pat : N) (rmanual : bool) (script : list bool) (st : astate (Q := rpq)) : obs :=
  match script with
  | [] => []
  | mp :: t =>
      let o := if mp then ORecvMultipart else ORecv in
      let kind := b2n mp in
      match pat with
      | 0 | 6 =>
          let '(st', e) := anon_step rpq_ops o st in
          match e with EvRet r _ => call_rows kind r | _ => [[9]] end ++ script_rows pat rmanual t st'
      | 1 | 2 | 3 =>
          let '(st', e) := fbuf_step rpq_ops (recv_process pat rmanual) o st in
          match e with EvRet r _ => call_rows kind r | _ => [[9]] end ++ script_rows pat rmanual t st'
      | _ => reqrep_rows pat script (fst st) true
      end
  end.

Definition seq_model (pat : N) (inproc smanual rmanual : bool) (msgs : list mspec) (script : list bool) : obs :=
  let sent := map (fun m => (m, send_one pat smanual 1 m)) msgs in
  let srows := map (fun '((id, _, _, _), (code, _)) => [30; 1; id; code]) sent in
  let wire := concat (map (fun '(_, (_, w)) => w) sent) in
  let st0 := fst (anon_step rpq_ops (ORegister 1) (q_new, None)) in
  srows ++ script_rows pat rmanual script (enqueue_all (to_batches inproc wire) st0).

(* ================================================================ several senders: the senders' answers *)
(* per message: [30; sender; id; code] - only what the sending call answered is predicted; the delivery side of
   these scenarios is judged by the implementation-side oracle *)
Definition stack_model (pat : N) (senders : list (bool * list mspec)) : obs :=
  concat (map (fun '(k, (smanual, msgs)) =>
                 map (fun m => let '(id, _, _, _) := m in
                               [30; N.of_nat k + 1; id; fst (send_one pat smanual (N.of_nat k + 1) m)]) msgs)
              (combine (seq 0 (length senders)) senders)).

Inductive c02case :=
| CFb (ops : list fbop)
| CIng (ops : list iop)
| CSeq (pat : N) (inproc smanual rmanual : bool) (msgs : list mspec) (script : list bool)
| CStack (pat : N) (senders : list (bool * list mspec)).

Definition c02_model (c : c02case) : obs :=
  match c with
  | CFb ops => fb_run ops fb_new
  | CIng ops => ing_run ops (q_new, None) []
  | CSeq pat ip sm rm msgs script => seq_model pat ip sm rm msgs script
  | CStack pat senders => stack_model pat senders
  end.

Definition c02_mismatches (cases : list (N * c02case * obs)) : list N :=
  map (fun '(i, _, _) => i) (filter (fun '(_, c, e) => negb (obs_eqb (c02_model c) e)) cases).
