(* Correspondence driver for C18: the same case descriptions harness/src/c18.rs executes on pairs of
   REAL engines (CURVE / NOISE_XX) are run on Model/SecFramer.v instantiated with the toy AEAD.
   The real ciphertext bytes are not comparable, so the observation is symbolic: per emitted record its
   length-prefix value, ciphertext length and plaintext length; per receiver call the delivered
   messages (digests), bytes written outside the record layer, errors; final phase / buffer length. *)
From RZ Require Import Base.Prelude Base.Stepper Model.Codec Model.Engine Model.SecFramer Corr.C03Corr Corr.EngCorr.
Local Open Scope N_scope.

Inductive c18step := SApp (fs : list cfr) | SBatch (gs : list (list cfr)) | STick (t : N).
Inductive imut := IDrop (i : N) | IDup (i : N) | ISwap (i : N).
Inductive bmut := BFlip (pos bit : N) | BTrunc (pos : N) | BInject (pos : N) (data : pl).

Inductive c18case :=
| CFlow (mech dir : N) (maxsz : Z) (hb : option (N * N)) (steps : list c18step)
        (imuts : list imut) (bmuts : list bmut) (cuts : list N) (fb_tick : option N)
| CSessions (mech dir : N) (msg : list cfr)
| CReflect (mech dir warm : N) (msg : list cfr)
| CEarly (mech : N) (msg : list cfr).   (* the first data record arrives together with / right behind the peer's READY *)   (* the victim's own next record played back to it after `warm` exchanges *)

Definition kind_of (mech : N) : ckind := if mech =? 0 then KCurve else KNoise.

(* toy key derivation, shaped like the real one: CURVE from the statics only, Noise from the ephemerals too *)
Definition toy_curve_kx (server : bool) (st : N) : N * N :=
  if server then (st + 100, st + 101) else (st + 101, st + 100).           (* (rx, tx) *)
Definition toy_noise_split (server : bool) (st e1 e2 : N) : N * N :=
  if server then (st + 200 + 2 * (e1 + e2), st + 201 + 2 * (e1 + e2))
  else (st + 201 + 2 * (e1 + e2), st + 200 + 2 * (e1 + e2)).
Definition session_cipher (mech : N) (server : bool) (session : N) : cipher N :=
  if mech =? 0 then curve_data_cipher N N N toy_curve_kx server 7 session session
  else noise_data_cipher N N N toy_noise_split server 7 session session.

(* one endpoint in the Data phase *)
Record ep := { ep_r : rstate N; ep_d : dstate; ep_acc : bytes; ep_hb : hb }.
Definition ep_new (c : cipher N) : ep :=
  {| ep_r := r_init c; ep_d := d_init; ep_acc := [];
     ep_hb := {| h_last_activity := 0; h_last_ping := None; h_waiting := false |} |}.
Definition ep_closed (e : ep) : bool := d_closed (ep_d e).
Definition with_cipher (e : ep) (c : cipher N) : ep :=
  {| ep_r := {| r_c := c; r_dbuf := r_dbuf (ep_r e); r_closed := r_closed (ep_r e) |};
     ep_d := ep_d e; ep_acc := ep_acc e; ep_hb := ep_hb e |}.

Definition hb_cfg (hb : option (N * N)) : ecfg :=
  {| c_server := false; c_stype := []; c_rid := None; c_sec_enabled := true; c_allow_v2 := false;
     c_use_plain := false; c_use_curve := false; c_use_noise := false; c_plain_user := None; c_plain_pass := None;
     c_opaque_ok := true;
     c_hb_ivl := match hb with Some (i, _) => Some (ms i) | None => None end;
     c_hb_timeout := match hb with Some (_, t) => Some (ms t) | None => None end;
     c_cork := false; c_zc := false; c_maxsz := (-1)%Z |}.
Definition data_estate (closed : bool) : estate :=
  {| e_phase := if closed then PClosed else PData; e_version := Some V3; e_rev_sent := true; e_v2_sent := false;
     e_v2_peer := None; e_mech := MNull; e_partial := [] |}.

(* on_tick of this endpoint: Engine.e_tick (it never looks at the framer) *)
Definition ep_tick (hbc : option (N * N)) (e : ep) (t : N) : ep * list eout :=
  let g := {| g_st := data_estate (ep_closed e); g_acc := []; g_hb := ep_hb e |} in
  let '(g', o) := e_tick (hb_cfg hbc) g (ms t) in
  let closed' := match e_phase (g_st g') with PClosed => true | _ => false end in
  ({| ep_r := ep_r e; ep_d := {| d_partial := d_partial (ep_d e); d_closed := closed' |};
      ep_acc := ep_acc e; ep_hb := g_hb g' |}, o).

(* on_network_bytes of this endpoint *)
Definition ep_net (maxsz : Z) (e : ep) (data : bytes) : ep * list eout :=
  if ep_closed e then
    ({| ep_r := ep_r e; ep_d := ep_d e; ep_acc := ep_acc e ++ data; ep_hb := ep_hb e |}, [])
  else
    let '(r', lft, o) := pump (sstep N toy_open maxsz) (smu N) 0%nat (ep_r e) (ep_acc e ++ data) in
    let '(d', eo) := data_fold (ep_d e) o in
    let h := ep_hb e in
    ({| ep_r := r'; ep_d := d'; ep_acc := lft;
        ep_hb := {| h_last_activity := h_last_activity h; h_last_ping := h_last_ping h;
                    h_waiting := if has_pong eo then false else h_waiting h |} |}, eo).

(* rows of the receive side of an EngineOutput: sends first, then app actions *)
Definition recv_rows (eo : list eout) : obs :=
  concat (map (fun x => match x with OSend b _ => [1 :: digest_row b] | _ => [] end) eo) ++
  concat (map (fun x => match x with
                        | ODeliver fs => [6; N.of_nat (length fs)] :: map msg_row fs
                        | OErr _ => [[8; 0]]
                        | OPanic => [[9]]
                        | _ => []
                        end) eo).
Definition sent_bytes (eo : list eout) : bytes :=
  concat (map (fun x => match x with OSend b _ => b | _ => [] end) eo).

(* sender steps: rows and emitted items (kind 0 = one record, 1 = outside the record layer).
   A write call emits one record per plaintext chunk: the wire is walked prefix by prefix, exactly as
   harness/src/c18.rs does (a misaligned rest would be reported as 999999) *)
Fixpoint walk (fuel : nat) (w : bytes) : list N * list bytes :=
  match fuel with
  | O => ([], [])
  | S f =>
      if len w <? 2 then (match w with [] => ([], []) | _ => ([999999], [w]) end) else
      let l := be_val (firstn 2 w) in
      if len w <? 2 + l then ([999999], [w]) else
      let '(ps, its) := walk f (skipn (2 + N.to_nat l) w) in
      (l :: ps, firstn (2 + N.to_nat l) w :: its)
  end.
Definition rec_step (e : ep) (groups : list (list frame)) : ep * obs * list (N * bytes) :=
  match write_msg_batch N toy_seal (r_c (ep_r e)) groups with
  | (SOk [], c') => (with_cipher e c', [[13]], [])
  | (SOk w, c') =>
      let '(ps, its) := walk (S (length w)) w in
      (with_cipher e c', [[10; len w; len (enc_contiguous groups); 0] ++ ps], map (fun x => (0, x)) its)
  | (SErr, c') => (with_cipher e c', [[12]], [])
  | (SPanic, c') => (with_cipher e c', [[9]], [])
  end.
Definition sender_step (mech : N) (hbc : option (N * N)) (e : ep) (s : c18step) : ep * obs * list (N * bytes) :=
  match s with
  | SApp fs => if ep_closed e then (e, [[13]], []) else rec_step e [map cfr_frame fs]
  | SBatch gs => rec_step e (map (map cfr_frame) gs)
  | STick t =>
      let '(e', o) := ep_tick hbc e t in
      match o with
      | [OSend b _] => (e', [11 :: 0 :: digest_row b], [(1, b)])
      | [] => (e', [[13]], [])
      | _ => (e', [[12]], [])
      end
  end.
Fixpoint sender_steps (mech : N) (hbc : option (N * N)) (e : ep) (ss : list c18step) : ep * obs * list (N * bytes) :=
  match ss with
  | [] => (e, [], [])
  | s :: r =>
      let '(e1, rows1, it1) := sender_step mech hbc e s in
      let '(e2, rows2, it2) := sender_steps mech hbc e1 r in (e2, rows1 ++ rows2, it1 ++ it2)
  end.

(* mutations, exactly as harness/src/c18.rs applies them *)
Fixpoint remove_nth {A} (i : nat) (l : list A) : list A :=
  match l, i with [], _ => [] | _ :: t, O => t | x :: t, S i' => x :: remove_nth i' t end.
Definition apply_imut {A} (l : list A) (m : imut) : list A :=
  match m with
  | IDrop i => if N.of_nat (length l) <=? i then l else remove_nth (N.to_nat i) l
  | IDup i => match nth_error l (N.to_nat i) with
              | Some x => firstn (N.to_nat i) l ++ x :: skipn (N.to_nat i) l
              | None => l
              end
  | ISwap i => match nth_error l (N.to_nat i), nth_error l (S (N.to_nat i)) with
               | Some x, Some y => firstn (N.to_nat i) l ++ y :: x :: skipn (S (S (N.to_nat i))) l
               | _, _ => l
               end
  end.
Definition apply_bmut (s : bytes) (m : bmut) : bytes :=
  match m with
  | BFlip pos bit =>
      match nth_error s (N.to_nat pos) with
      | Some x => firstn (N.to_nat pos) s ++ N.lxor x (2 ^ (bit mod 8)) :: skipn (S (N.to_nat pos)) s
      | None => s
      end
  | BTrunc pos => if len s <? pos then s else firstn (N.to_nat pos) s
  | BInject pos d => if len s <? pos then s else firstn (N.to_nat pos) s ++ pl_bytes d ++ skipn (N.to_nat pos) s
  end.

Fixpoint recv_chunks (maxsz : Z) (e : ep) (cs : list bytes) : ep * obs * bytes :=
  match cs with
  | [] => (e, [], [])
  | c :: r =>
      let '(e1, eo) := ep_net maxsz e c in
      let '(e2, rows, back) := recv_chunks maxsz e1 r in
      (e2, recv_rows eo ++ rows, sent_bytes eo ++ back)
  end.

Definition phase_of (e : ep) : N := if ep_closed e then 5 else 4.
Definition b2n' (b : bool) : N := if b then 1 else 0.

Definition c18_model (c : c18case) : obs :=
  match c with
  | CFlow mech dir maxsz hbc steps imuts bmuts cuts fbt =>
      let snd_server := negb (dir =? 0) in
      let s0 := ep_new (session_cipher mech snd_server 0) in
      let r0 := ep_new (session_cipher mech (negb snd_server) 0) in
      let '(s1, srows, items) := sender_steps mech hbc s0 steps in
      let items' := fold_left apply_imut imuts items in
      let stream := fold_left apply_bmut bmuts (concat (map snd items')) in
      let '(r1, rrows, back) := recv_chunks maxsz r0 (cut stream cuts) in
      let '(s2, brows) :=
        match back with
        | [] => (s1, [])
        | _ => let '(s2, eo) := ep_net maxsz s1 back in (s2, recv_rows eo)
        end in
      [[50; 1; 4; 4]] ++ srows ++ rrows ++
      [[99; phase_of r1; len (ep_acc r1); b2n' (h_waiting (ep_hb r1))]] ++
      [[60; len back]] ++ brows ++
      [[98; phase_of s2; len (ep_acc s2); b2n' (h_waiting (ep_hb s2))]] ++
      match fbt with
      | None => []
      | Some t => let '(s3, eo) := ep_tick hbc s2 t in [[61]] ++ recv_rows eo ++ [[97; phase_of s3]]
      end
  | CSessions mech dir msg =>
      let server := negb (dir =? 0) in
      let first (session : N) : bytes :=
        match write_msg_multipart N toy_seal (session_cipher mech server session) (map cfr_frame msg) with
        | (SOk w, _) => w
        | _ => []
        end in
      let w1 := first 1 in let w2 := first 2 in
      [[70; 1; b2n' (negb (len w1 =? 0) && bytes_eqb w1 w2); len w1; len w2]]
  | CReflect mech dir warm msg =>
      let server := negb (dir =? 0) in
      let c0 := session_cipher mech server 1 in
      let c1 := set_rn (set_sn c0 (c_sn c0 + warm)) (c_rn c0 + warm) in      (* `warm` records sent and received *)
      match write_msg_multipart N toy_seal c1 (map cfr_frame msg) with
      | (SOk w, c2) =>
          let l := N.to_nat (nth 0 w 0 * 256 + nth 1 w 0) in
          let ct := firstn l (skipn 2 w) in
          match decrypt N toy_open c2 ct with
          | DcOk _ _ => [[62; 1; 2 * warm; 1; 0; 0]]
          | _ => [[62; 1; 2 * warm; 0; 1; 1]]
          end
      | _ => [[62; 1; 2 * warm; 0; 0; 0]]
      end
  | CEarly mech msg =>
      (* what the client hands to the application is determined by the bytes (engine chunk independence + the record
         layer's chunk independence): exactly the one message, however the READY and the record were cut into reads *)
      [63; 1; 1] :: map msg_row (map cfr_frame msg)
  end.

Definition c18_mismatches (cases : list (N * c18case * obs)) : list N :=
  map (fun '(i, _, _) => i) (filter (fun '(_, c, e) => negb (obs_eqb (c18_model c) e)) cases).
