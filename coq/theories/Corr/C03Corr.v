(* Executable drivers used by the correspondence check for C03: they turn a case description
   (the same JSON the Rust harness executes against the real code) into observation rows. *)
From RZ Require Import Base.Prelude Base.Stepper Model.Codec.
Local Open Scope N_scope.

Inductive pl := PFill (n s : N) | PLit (b : bytes).
Definition pl_bytes (p : pl) : bytes := match p with PFill n s => fill n s | PLit b => b end.
Definition cfr : Type := bool * bool * pl.
Definition cfr_frame (c : cfr) : frame :=
  let '(m, c, p) := c in {| f_more := m; f_cmd := c; f_payload := pl_bytes p |}.
Inductive piece := PcFrame (f : cfr) | PcRaw (p : pl).

Inductive c03case :=
| CEnc (enc : N) (bs : list (list cfr))
| CRt (enc : N) (bs : list (list cfr)) (cuts : list N) (dec : N) (maxsz : Z) (pre : N)
| CRaw (ps : list piece) (cuts : list N) (dec : N) (maxsz : Z) (pre : N).

Definition obs := list (list N).
Definition b2n (b : bool) : N := if b then 1 else 0.
Definition digest_row (l : bytes) : list N :=
  let '(n, a, f8, l8) := digest l in n :: a :: f8 ++ l8.
Definition frame_row (f : frame) : list N := 1 :: b2n (f_more f) :: b2n (f_cmd f) :: digest_row (f_payload f).

Fixpoint cut (data : bytes) (lens : list N) : list bytes :=
  match lens with
  | [] => [data]
  | l :: ls => firstn (N.to_nat l) data :: cut (skipn (N.to_nat l) data) ls
  end.

(* slices the given encoder emits *)
Definition enc_slices (enc : N) (bs : list (list frame)) : list bytes :=
  match enc with
  | 0 => [concat (map enc_codec (concat bs))]
  | 1 => map enc_header_only (concat bs)
  | 2 => [enc_contiguous bs]
  | 3 => enc_vectored bs
  | 4 => concat (map (fun f => let '(h, p) := enc_split f in [h; p]) (concat bs))
  | _ => enc_batch_vectored bs
  end.

Definition out_rows (o : list (option frame)) : obs :=
  map (fun x => match x with Some f => frame_row f | None => [0] end) o.

(* single-shot decoders applied repeatedly at frame boundaries *)
Fixpoint slice_loop (fuel : nat) (chk : bool) (m : Z) (buf : bytes) : obs :=
  match fuel with
  | O => [[9]]
  | S f =>
      match dec_slice chk m buf with
      | DNeed => [[0; len buf]]
      | DErr => [[1; len buf]]
      | DPanic => [[2; len buf]]
      | DFrame fr n => frame_row fr :: slice_loop f chk m (skipn n buf)
      end
  end.
Fixpoint peek_loop (fuel : nat) (chk : bool) (m : Z) (buf : bytes) : obs :=
  match fuel with
  | O => [[9]]
  | S f =>
      match peek_len chk m buf with
      | PNeed => [[0; len buf]]
      | PErr => [[1; len buf]]
      | PPanic => [[2; len buf]]
      | PLen n => if len buf <? n then [[0; len buf]] else [n] :: peek_loop f chk m (skipn (N.to_nat n) buf)
      end
  end.

Definition decode (dec : N) (m : Z) (pre : N) (stream : bytes) (cuts : list N) : obs :=
  match dec with
  | 1 =>
      let '(st, r, o) := run_tokio (firstn (N.to_nat pre) stream) (cut (skipn (N.to_nat pre) stream) cuts) in
      out_rows o ++ [match st with TFailed => [1; 0] | TReadHeader => [0; len r] | TReadBody _ _ => [3; len r] end]
  | 2 | 3 => slice_loop (S (length stream)) true m stream
  | 4 => peek_loop (S (length stream)) true m stream
  | _ =>
      let '(failed, r, o) := run_buffer m (cut stream cuts) in
      out_rows o ++ [if failed then [1; 0] else [0; len r]]
  end.

Definition piece_bytes (p : piece) : bytes :=
  match p with PcFrame f => enc_codec (cfr_frame f) | PcRaw p => pl_bytes p end.

Definition c03_model (c : c03case) : obs :=
  match c with
  | CEnc enc bs => map digest_row (enc_slices enc (map (map cfr_frame) bs))
  | CRt enc bs cuts dec m pre =>
      decode dec m pre (concat (enc_slices enc (map (map cfr_frame) bs))) cuts
  | CRaw ps cuts dec m pre => decode dec m pre (concat (map piece_bytes ps)) cuts
  end.

Definition row_eqb (a b : list N) : bool :=
  (length a =? length b)%nat && forallb (fun '(x, y) => x =? y) (combine a b).
Definition obs_eqb (a b : obs) : bool :=
  (length a =? length b)%nat && forallb (fun '(x, y) => row_eqb x y) (combine a b).

(* indices of the cases whose model observation differs from the expected (implementation) one *)
Definition c03_mismatches (cases : list (N * c03case * obs)) : list N :=
  map (fun '(i, _, _) => i) (filter (fun '(_, c, e) => negb (obs_eqb (c03_model c) e)) cases).
