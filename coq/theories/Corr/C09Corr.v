(* Executable driver for the C09 correspondence.  harness/src/c09.rs runs a scenario on real sockets:
   set-up, the operation under test polled by hand and dropped after its n-th Pending (script steps
   applied to the world between polls), follow-up calls, accounting.  The same scenario is run here
   on Model/Cancel.v.  Polls of the real future and await points of the model are not 1:1 (the real
   path to the peer has more stages with slack, a poll may stop at an await the model does not
   have), so the comparison is by OUTCOME SETS: `c09_allowed` is the set of outcomes the model
   produces for the scenario over every cancellation point n', a bounded amount of extra pipeline
   slack per poll gap and both HashSet orders of PUB's peers; `c09_mismatches` lists the cases whose
   implementation outcome is not in that set. *)
From RZ Require Import Base.Prelude Model.Cancel.
Local Open Scope N_scope.

Inductive skind := KPush | KPub | KReq | KRep | KDealer | KRouter | KPull | KSub.
Inductive sop := SoSend | SoMp | SoParts | SoWaiter | SoPartsFirst | SoPartsMid | SoPartsLast | SoRecv | SoRmp.
Inductive svar := VNone | VBp | VNoPeer.
Inductive sstep := SNop | SRecv (k : nat) | SRecvAll | SSend (nfr : N) | SAnswer (nfr : N) | SWait | SConnect.

Record c09case := mkCase {
  ck : skind; co : sop; cv : svar; ctmo : bool; cmand : bool; cfree : nat;
  cfr : N; cmsgs : N; cscript : list sstep; cn : nat }.

Definition obs := list (list N).

(* ---- frames and classification (same functions as in c09.rs) ---- *)
Definition frames_of (mid cnt : N) : list N := map (fun i => tg mid (N.of_nat i) cnt) (seq 0 (N.to_nat cnt)).

Fixpoint whole_from (mid cnt : N) (i : nat) (fs : list frame) : bool :=
  match fs with
  | [] => true
  | f :: r => (fst f =? tg mid (N.of_nat i) cnt) && whole_from mid cnt (S i) r
  end.
Definition classify (fs : list frame) : N :=
  match fs with
  | [] => 900
  | f :: _ => let mid := fst f / 1000 in
              let cnt := N.of_nat (length fs) in
              if (cnt <? 10) && (fst f <? 256000) && whole_from mid cnt 0 fs then mid else 900
  end.
Definition classify_app (fs : list frame) : N :=
  match fs with
  | f :: (_ :: _) as r => if fst f =? IDENT then classify r else classify fs
  | _ => classify fs
  end.

Definition sock_of (k : skind) : sock :=
  match k with KPush => PUSH | KPub => PUB | KReq => REQ | KRep => REP | KDealer => DEALER
             | KRouter => ROUTER | KPull => PULL | KSub => SUB end.

(* how a message of the peer looks in the subject's ingress queue *)
Definition inbound (k : skind) (mid cnt : N) : item :=
  let pl := untag (frames_of mid cnt) in
  match k with
  | KPull | KSub | KPush | KPub => norm pl
  | KReq | KRep | KRouter => norm ((DELIM, true) :: pl)
  | KDealer => norm ((IDENT, true) :: (DELIM, true) :: pl)
  end.

(* what the peer's socket hands to its application for one reassembled wire message *)
Definition peer_view (k : skind) (fs : list frame) : list frame :=
  match k with
  | KPush | KPub | KPull | KSub => fs
  | KReq => snd (rep_split fs)          (* REP peer: payload after the routing prefix *)
  | KDealer => strip1 fs                (* ROUTER peer (identity frame dropped by the harness) *)
  | KRep | KRouter => dealer_strip fs   (* DEALER peer (REQ peer: the same single delimiter) *)
  end.

Definition peer_log (k : skind) (pushed : list item) : list N :=
  filter (fun x => 100 <=? x) (map (fun m => classify (peer_view k m)) (wire_msgs pushed)).

(* ---- the world between two polls ---- *)
Record drv := mkD { d_s : state; d_mid : N; d_app : list N; d_fol : list N }.

Definition th_of (s : state) : thr := fst (fst s).
Definition pr_of (s : state) : Proto := snd (fst s).
Definition en_of (s : state) : Env := snd s.
Definition parked (s : state) : bool := match th_of s with TPark _ => true | TIdle => false end.
Definition last_ret (s : state) : N := last (p_rets (pr_of s)) 9.

Definition runs (c : Cfg) (t : sock) (es : list ev) (s : state) : state := run c t es s.

Definition env_events (k : skind) (tmo : bool) (st : sstep) (d : drv) : list ev * N :=
  match st with
  | SNop => ([], d_mid d)
  | SRecv j => ([Drain j], d_mid d)
  | SRecvAll => ([Drain 0; Drain 1], d_mid d)
  | SSend nfr => ([Arrive (inbound k (d_mid d) nfr)], d_mid d + 1)
  | SAnswer nfr =>
      (* the REP peer takes the request that is on its way (if any) and answers it *)
      if is_nil (e_out (en_of (d_s d))) then ([], d_mid d)
      else ([Drain 0; Arrive (inbound k (d_mid d) nfr)], d_mid d + 1)
  | SWait => (if tmo then [Tmo] else [], d_mid d)
  | SConnect => ([PeerUp; QDrain; QDrain], d_mid d)
  end.

Definition apply_step (c : Cfg) (k : skind) (tmo : bool) (slack : nat) (st : sstep) (d : drv) : drv :=
  let '(es, mid') := env_events k tmo st d in
  let extra := match st with SWait | SSend _ | SAnswer _ | SConnect => [] | _ => repeat (Drain 0) slack end in
  mkD (runs c (sock_of k) (extra ++ es) (d_s d)) mid' (d_app d) (d_fol d).

(* poll by hand: after the i-th Pending apply script step i (or `auto`); drop after the n-th *)
Fixpoint drive_loop (fuel : nat) (c : Cfg) (k : skind) (tmo : bool) (slack : nat) (n : nat)
         (script : list sstep) (auto : sstep) (p : nat) (d : drv) : drv * N :=
  if negb (parked (d_s d)) then (d, last_ret (d_s d))
  else match fuel with
       | O => (mkD (runs c (sock_of k) [Cancel] (d_s d)) (d_mid d) (d_app d) (d_fol d), 7)
       | S fuel' =>
           let p' := S p in
           if (negb (Nat.eqb n 0)) && Nat.eqb p' n
           then (mkD (runs c (sock_of k) [Cancel] (d_s d)) (d_mid d) (d_app d) (d_fol d), 0)
           else
             let st := nth p script auto in
             let d1 := apply_step c k tmo slack st d in
             let d2 := mkD (runs c (sock_of k) [Poll] (d_s d1)) (d_mid d1) (d_app d1) (d_fol d1) in
             drive_loop fuel' c k tmo slack n script auto p' d2
       end.

Definition drive (c : Cfg) (k : skind) (tmo : bool) (slack n : nat) (script : list sstep) (auto : sstep)
           (o : opk) (d : drv) : drv * N :=
  let d0 := mkD (runs c (sock_of k) [Call o] (d_s d)) (d_mid d) (d_app d) (d_fol d) in
  drive_loop 16 c k tmo slack n script auto 0 d0.

Definition with_fol (x : N) (d : drv) : drv := mkD (d_s d) (d_mid d) (d_app d) (d_fol d ++ [x]).
Definition with_app (xs : list N) (d : drv) : drv := mkD (d_s d) (d_mid d) (d_app d ++ xs) (d_fol d).

(* a send-type call run to completion, the peers reading one message per Pending *)
Definition complete_send (c : Cfg) (k : skind) (tmo : bool) (slack : nat) (o : opk) (d : drv) : drv * N :=
  drive c k tmo slack 0 [] SRecvAll o d.
Definition follow_send c k tmo slack o d : drv :=
  let '(d', r) := complete_send c k tmo slack o d in with_fol r d'.

(* what a successful receive call handed out *)
Definition app_code (mp : bool) (s : state) : list N :=
  match rev (p_app (pr_of s)) with
  | fs :: _ => if mp then [classify_app fs] else map fst fs
  | [] => []
  end.

Definition drive_recv c k tmo slack n script auto (mp : bool) (d : drv) : drv * N :=
  let '(d', r) := drive c k tmo slack n script auto (if mp then ORecvMp else ORecv) d in
  ((if r =? 1 then with_app (app_code mp (d_s d')) d' else d'), r).

(* saturate the path to the peer: cap + 1 prefill messages, the last one completes after one read *)
Fixpoint fill (c : Cfg) (k : skind) (o : N -> opk) (m : nat) (d : drv) : drv :=
  match m with
  | O => d
  | S m' => fill c k o m' (fst (complete_send c k false 0 (o (N.of_nat (S m'))) d))
  end.

Definition mpo (mid cnt : N) : opk := OSendMp (frames_of mid cnt).
Definition rmpo (mid cnt : N) : opk := OSendMp (IDENT :: frames_of mid cnt).
Definition sndo (mid idx cnt : N) (more : bool) : opk := OSend (tg mid idx cnt, more).

Fixpoint drains (m : nat) : list ev := match m with O => [] | S m' => Drain 0 :: drains m' end.

Fixpoint ins (x : N) (l : list N) : list N :=
  match l with [] => [x] | y :: r => if x <=? y then x :: l else y :: ins x r end.
Definition sortN (l : list N) : list N := fold_right ins [] l.

(* read everything that is queued for the application *)
Fixpoint read_all (fuel : nat) (c : Cfg) (k : skind) (mp : bool) (d : drv) : drv :=
  match fuel with
  | O => d
  | S f =>
      let has := match recv_buffered mp (pr_of (d_s d)) with Some _ => true | None => negb (is_nil (e_in (en_of (d_s d)))) end in
      if has then
        let '(d', r) := drive_recv c k false 0 0 [] SNop mp d in
        read_all f c k mp (with_fol r d')
      else d
  end.

Fixpoint send_until (fuel : nat) (c : Cfg) (k : skind) (tmo : bool) (auto : sstep) (total : N) (d : drv) : drv :=
  match fuel with
  | O => d
  | S f => if d_mid d <? 100 + total then send_until f c k tmo auto total (apply_step c k tmo 0 auto d) else d
  end.

Definition outcome (x : c09case) (n slack : nat) (order : bool) : obs :=
  let k := ck x in
  let t := sock_of k in
  let tmo := ctmo x in
  let c := mkCfg 1 1 4 (cmand x) tmo tmo order in
  let peer0 := match cv x with VNoPeer => false | _ => true end in
  let d0 := mkD (TIdle, p0, e0 peer0) 100 [] [] in
  let script := cscript x in
  let fin (d : drv) (r : N) : obs :=
    let p := pr_of (d_s d) in
    let l0 := peer_log k (p_pushed p) in
    let l0 := match k, cv x with KDealer, VNoPeer => sortN l0 | _, _ => l0 end in
    [[1; r]; 2 :: d_fol d; 3 :: l0] ++
    (match k with KPub => [4 :: peer_log k (p_pushed2 p)] | _ => [] end) ++ [5 :: d_app d] in
  match k, co x with
  (* one-way senders *)
  | KPush, _ | KPub, _ | KDealer, SoSend | KDealer, SoMp =>
      let mk := fun mid => match co x with SoSend => sndo mid 0 1 false | _ => mpo mid 3 end in
      let d1 := match cv x with
                | VBp => fill c k (fun m => mpo m 2) 2 d0
                | VNoPeer => match k with KDealer => fst (complete_send c k false 0 (mpo 1 2) d0) | _ => d0 end
                | VNone => d0 end in
      let '(d2, r) := drive c k tmo slack n script SRecvAll (mk 100) d1 in
      let d3 := mkD (runs c t [PeerUp; QDrain; QDrain] (d_s d2)) (d_mid d2) (d_app d2) (d_fol d2) in
      let d4 := follow_send c k tmo slack (mk 101) d3 in
      fin (mkD (runs c t [QDrain; QDrain] (d_s d4)) (d_mid d4) (d_app d4) (d_fol d4)) r
  | KDealer, SoParts =>
      let d1 := match cv x with VBp => fill c k (fun m => mpo m 2) 2 d0 | _ => d0 end in
      let d2 := follow_send c k tmo slack (sndo 100 0 3 true) d1 in
      let d3 := follow_send c k tmo slack (sndo 100 1 3 true) d2 in
      let '(d4, r) := drive c k tmo slack n script SRecvAll (sndo 100 2 3 false) d3 in
      let d5 := if r =? 1 then d4 else follow_send c k tmo slack (sndo 100 2 3 false) d4 in
      fin (follow_send c k tmo slack (mpo 101 3) d5) r
  | KDealer, SoWaiter =>
      (* task A: part, last part (under test); task B: send_multipart waiting for A's transaction *)
      let d1 := match cv x with VBp => fill c k (fun m => mpo m 2) 2 d0 | _ => d0 end in
      let d2 := follow_send c k tmo slack (sndo 100 0 2 true) d1 in
      let '(d3, r) := drive c k tmo slack n script SRecvAll (sndo 100 1 2 false) d2 in
      let w := dwrun ([DPart; DCallB; DLast] ++ (if r =? 0 then [DLastDrop] else [DLastDone]) ++ [DPollB]) dw0 in
      let d4 := if w_done w then follow_send c k tmo slack (mpo 150 2) d3
                else with_fol (if tmo then 2 else 7) d3 in
      fin (follow_send c k tmo slack (mpo 101 3) d4) r
  (* REQ *)
  | KReq, SoSend =>
      let '(d1, r) := drive c k tmo slack n script SConnect (sndo 150 0 1 false) d0 in
      let d2 := mkD (runs c t [PeerUp] (d_s d1)) (d_mid d1) (d_app d1) (d_fol d1) in
      let d3 := if r =? 1 then d2 else follow_send c k tmo slack (sndo 151 0 1 false) d2 in
      let d4 := apply_step c k tmo 0 (SAnswer 1) d3 in
      let '(d5, r2) := drive_recv c k false 0 1 [] SNop true d4 in
      fin (with_fol (if r2 =? 0 then 7 else r2) d5) r
  | KReq, SoRecv | KReq, SoMp =>
      let mp := match co x with SoMp => true | _ => false end in
      let d1 := follow_send c k tmo slack (sndo 150 0 1 false) d0 in
      let '(d2, r) := drive_recv c k tmo slack n script (SAnswer 1) mp d1 in
      let d3 := if r =? 1 then d2 else
                  let '(d', r') := drive_recv c k tmo slack 0 [] (SAnswer 1) mp d2 in with_fol r' d' in
      let d4 := follow_send c k tmo slack (sndo 151 0 1 false) d3 in
      let '(d5, r3) := drive_recv c k tmo slack 0 [] (SAnswer 1) true d4 in
      fin (with_fol r3 d5) r
  (* REP *)
  | KRep, SoRecv | KRep, SoRmp =>
      let mp := match co x with SoRmp => true | _ => false end in
      let '(d1, r) := drive_recv c k tmo slack n script (SSend 1) mp d0 in
      let d2 := if r =? 1 then d1 else
                  let '(d', r') := drive_recv c k tmo slack 0 [] (SSend 1) mp d1 in with_fol r' d' in
      fin (follow_send c k tmo slack (sndo 160 0 1 false) d2) r
  | KRep, SoSend | KRep, SoMp =>
      let reply := fun mid => match co x with SoSend => sndo mid 0 1 false | _ => mpo mid 3 end in
      (* a request is taken, then answered *)
      let serve := fun (o : opk) (d : drv) =>
        let da := apply_step c k tmo 0 (SSend 1) d in
        let '(db, _) := drive c k false 0 0 [] SNop ORecvMp da in
        fst (complete_send c k false 0 o db) in
      let d1 := match cv x with VBp => serve (mpo 2 2) (serve (mpo 1 2) d0) | _ => d0 end in
      let da := apply_step c k tmo 0 (SSend 1) d1 in
      let '(db, _) := drive c k false 0 0 [] SNop ORecvMp da in
      let '(d2, r) := drive c k tmo slack n script SRecvAll (reply 200) db in
      let d3 := if r =? 1 then d2 else follow_send c k tmo slack (mpo 201 2) d2 in
      let dc := apply_step c k tmo 0 (SSend 1) d3 in
      let '(d4, r4) := drive c k false 0 0 [] SNop ORecvMp dc in
      fin (follow_send c k tmo slack (mpo 202 2) (with_fol r4 d4)) r
  (* ROUTER sends *)
  | KRouter, SoMp | KRouter, SoPartsFirst | KRouter, SoPartsMid | KRouter, SoPartsLast =>
      let d1 := match cv x with VBp => fill c k (fun m => rmpo m 2) 2 d0 | _ => d0 end in
      let d2 := mkD (runs c t (drains (cfree x)) (d_s d1)) (d_mid d1) (d_app d1) (d_fol d1) in
      let idm := OSend (IDENT, true) in
      let '(d3, r) :=
        match co x with
        | SoMp => drive c k tmo slack n script SRecvAll (rmpo 100 3) d2
        | SoPartsFirst =>
            let '(d', r) := drive c k tmo slack n script SRecvAll idm d2 in
            if r =? 1 then
              (follow_send c k tmo slack (sndo 100 1 2 false) (follow_send c k tmo slack (sndo 100 0 2 true) d'), r)
            else (d', r)
        | SoPartsMid =>
            let da := follow_send c k tmo slack idm d2 in
            let '(d', r) := drive c k tmo slack n script SRecvAll (sndo 100 0 2 true) da in
            if r =? 0 then
              (follow_send c k tmo slack (sndo 100 1 2 false) (follow_send c k tmo slack (sndo 100 0 2 true) d'), r)
            else if r =? 1 then (follow_send c k tmo slack (sndo 100 1 2 false) d', r)
            else (d', r)
        | _ =>
            let da := follow_send c k tmo slack (sndo 100 0 2 true) (follow_send c k tmo slack idm d2) in
            let '(d', r) := drive c k tmo slack n script SRecvAll (sndo 100 1 2 false) da in
            if r =? 0 then (follow_send c k tmo slack (sndo 100 1 2 false) d', r) else (d', r)
        end in
      fin (follow_send c k tmo slack (rmpo 101 3) d3) r
  (* receivers *)
  | _, _ =>
      let mp := match co x with SoMp | SoRmp => true | _ => false end in
      let auto := SSend (cfr x) in
      let '(d1, r) := drive_recv c k tmo slack n script auto mp d0 in
      let d2 := send_until 6 c k tmo auto (cmsgs x) d1 in
      (* the second message may have to wait for room in the queue: read, let it in, read *)
      let d3 := read_all 12 c k mp d2 in
      let d4 := send_until 6 c k tmo auto (cmsgs x) d3 in
      fin (read_all 12 c k mp d4) r
  end.

Fixpoint obs_eqb (a b : obs) : bool :=
  match a, b with
  | [], [] => true
  | x :: a', y :: b' => (if list_eq_dec N.eq_dec x y then true else false) && obs_eqb a' b'
  | _, _ => false
  end.

Definition swap34 (o : obs) : obs :=
  match o with
  | r1 :: r2 :: (_ :: a) :: (_ :: b) :: r => r1 :: r2 :: (3 :: b) :: (4 :: a) :: r
  | _ => o
  end.

Definition allowed_with (ns slacks : list nat) (x : c09case) : list obs :=
  flat_map (fun n =>
    flat_map (fun slack =>
      match ck x with
      | KPub => let a := outcome x n slack true in let b := outcome x n slack false in
                [a; swap34 a; b; swap34 b]
      | _ => [outcome x n slack true]
      end) slacks) ns.

(* every cancellation point from "never" to two past the script, 0..2 extra reads per poll gap *)
Definition c09_allowed (x : c09case) : list obs :=
  allowed_with (seq 0 (length (cscript x) + 3)) [0%nat; 1%nat; 2%nat] x.

Definition c09_model (x : c09case) : obs := outcome x (cn x) 0 true.

Definition c09_ok (x : c09case) (o : obs) : bool := existsb (obs_eqb o) (c09_allowed x).

(* informative only: cases whose outcome differs from the model run with the SAME n and no slack *)
Definition c09_inexact (cases : list (N * c09case * obs)) : list N :=
  map (fun t => fst (fst t)) (filter (fun t => negb (obs_eqb (snd t) (c09_model (snd (fst t))))) cases).
Definition c09_mismatches_s0 (cases : list (N * c09case * obs)) : list N :=
  map (fun t => fst (fst t)) (filter (fun t => negb (existsb (obs_eqb (snd t))
     (allowed_with (seq 0 (length (cscript (snd (fst t))) + 3)) [0%nat] (snd (fst t))))) cases).

Definition c09_mismatches (cases : list (N * c09case * obs)) : list N :=
  map (fun t => fst (fst t)) (filter (fun t => negb (c09_ok (snd (fst t)) (snd t))) cases).
