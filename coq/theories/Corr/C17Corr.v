(* Executable drivers used by the correspondence check for C17: case description (the same JSON the
   Rust harness executes on the real code) -> observation rows, and the comparison. *)
From RZ Require Import Base.Prelude Model.Backoff Model.Isolation.
Local Open Scope N_scope.

Inductive c17case :=
| CBo (base max att : N) (ops : list N)                 (* ReconnectState: ops 1 = failure, 0 = success *)
| CIso (scn : N)                                        (* stack scenario: fault injected next to a healthy connection *)
| CLag (sockets workers : N)                            (* scenario 31: burst of socket creations by the application *)
| CTiming (base_ms max_ms need slack_lo slack_hi : N)
| CRetry (base_ms max_ms hangs : N).                   (* scenario 22: the delays the connecter reports (ConnectRetried) *)  (* scenario 20: measured gaps between reconnect attempts *)

Definition obs := list (list N).
Definition b2n (b : bool) : N := if b then 1 else 0.

(* ---- ReconnectState ---- *)
(* `Instant::now()` is CLOCK_MONOTONIC: some seconds since boot; the generator keeps every delay at least
   2^40 s away from the i64 overflow boundary, so any small value gives the same outcome. *)
Definition NOW : N * N := (1000000, 0).

Fixpoint bo_rows (base max : N) (st : rstate) (ops : list N) : obs :=
  match ops with
  | [] => []
  | 0 :: r => let st' := on_success st in
              [0; attempts st'; b2n (match next_at st' with Some _ => true | None => false end)] :: bo_rows base max st' r
  | _ :: r =>
      match on_failure base max NOW st with
      | Panic => [[2]]
      | Done (d, st') =>
          [1; d / NS; d mod NS; attempts st';
           b2n (match next_at st', instant_add NOW d with
                | Some t, Some t' => (fst t =? fst t') && (snd t =? snd t')
                | _, _ => false end)] :: bo_rows base max st' r
      end
  end.

(* ---- stack scenarios as input sequences for the core model ---- *)
Definition LISTENER : endpoint := {| e_id := 1; e_uri := 10; e_kind := Listener; e_outbound := false |}.
Definition HEALTHY : endpoint := {| e_id := 2; e_uri := 20; e_kind := Session; e_outbound := false |}.
Definition victim0 : core :=
  {| ph := Running; eps := [LISTENER; HEALTHY]; recon := []; inproc_names := [7] |}.
Definition CFG : cfg := {| reconnect_ivl := Some 100000000; reconnect_ivl_max := Some 400000000 |}.

Definition inbound (k : N) : endpoint := {| e_id := 100 + k; e_uri := 1000 + k; e_kind := Session; e_outbound := false |}.
Definition outbound (k : N) : endpoint := {| e_id := 200 + k; e_uri := 300; e_kind := Session; e_outbound := true |}.

(* an accepted connection whose session then dies with `er` *)
Definition inbound_fault (k : N) (handshaken : bool) (er : errclass) : list input :=
  [CmdNewConnSca (inbound k) true; EvActorStarted] ++
  (if handshaken then [EvPeerIdentity true (Some (1000 + k))] else []) ++
  [EvActorStopping true (100 + k) (Some (1000 + k)) (Some er)].

Definition scenario_inputs (scn : N) : list input :=
  match scn with
  | 1 => inbound_fault 0 false ErrProtocol                      (* garbage greeting *)
  | 2 => inbound_fault 0 false ErrProtocol                      (* garbage after greeting *)
  | 3 => [CmdNewConnSca (inbound 0) true; EvActorStarted; EvPeerIdentity true (Some 1000)]
         (* PUB -> PULL over tcp: ZMTP 3.x READY Socket-Type is not validated by rzmq, the connection simply stays *)
  | 4 => [EvActorStarted; EvInprocRequest 7 false false true (inbound 0)]   (* PUB -> PULL over inproc *)
  | 5 => inbound_fault 0 false ErrReset
  | 6 => inbound_fault 0 true ErrReset
  | 7 => inbound_fault 0 false ErrAuth
  | 8 => [CmdUserOther]                                         (* refused inproc connect: answered by the connect task *)
  | 9 => [CmdUserOther; CmdNewConnSca (outbound 0) true; EvActorStopping true 200 (Some 300) (Some ErrProtocol);
          TickReconnectDue 300; CmdNewConnSca (outbound 1) true; EvActorStopping true 201 (Some 300) (Some ErrReset);
          TickReconnectDue 300; CmdNewConnSca (outbound 2) true; EvActorStopping true 202 (Some 300) (Some ErrProtocol)]
  | 10 => [CmdUserOther; EvActorStarted; EvInprocRequest 8 false false true (inbound 0)]  (* name 8 is bound by the OTHER socket *)
  | 11 => concat (map (fun k => inbound_fault (N.of_nat k) false (if Nat.even k then ErrReset else ErrProtocol)) (seq 0 40))
  | 12 => [CmdUserOther; CmdNewConnSca (outbound 0) true; EvPeerIdentity true (Some 300);
           EvActorStopping true 200 (Some 300) (Some ErrClosed);
           TickReconnectDue 300; EvConnAttemptFailed true 300 ErrRefused;
           TickReconnectDue 300; EvConnAttemptFailed true 300 ErrRefused;
           TickReconnectDue 300; CmdNewConnSca (outbound 1) true; EvPeerIdentity true (Some 300)]
  | 13 => inbound_fault 0 false ErrProtocol                     (* ZMTP/2.0 peer of incompatible type *)
  | 15 => [CmdUserOther; CmdNewConnSca (outbound 0) true;       (* the peer closes orderly BEFORE the handshake completes *)
           EvActorStopping true 200 (Some 300) (Some ErrClosed);
           TickReconnectDue 300; EvConnAttemptFailed true 300 ErrRefused;
           TickReconnectDue 300; CmdNewConnSca (outbound 1) true; EvPeerIdentity true (Some 300)]
  | 16 => [CmdUserOther; CmdNewConnSca (outbound 0) true;       (* connect() called twice for one endpoint; both closed by the peer *)
           CmdUserOther; CmdNewConnSca (outbound 1) true;
           EvActorStopping true 200 (Some 300) (Some ErrClosed);
           EvActorStopping true 201 (Some 300) (Some ErrClosed);
           TickReconnectDue 300; EvConnAttemptFailed true 300 ErrRefused;
           TickReconnectDue 300; CmdNewConnSca (outbound 2) true; EvPeerIdentity true (Some 300)]
  | 14 => concat (map (fun k => inbound_fault (N.of_nat k) false (if Nat.even k then ErrReset else ErrProtocol)) (seq 0 120))
          (* the same burst against a polling socket (RCVTIMEO = 0) on a 4-worker runtime *)
  | 30 => concat (map (fun k => [EvActorStarted; EvInprocRequest 8 false true true (inbound (N.of_nat k));
                                 EvActorStarted; EvActorStopping false (500 + N.of_nat k) None None;
                                 EvSocketClosing false; EvActorStopping false (900 + N.of_nat k) None None]) (seq 0 100))
  | _ => []
  end.

Definition has_ep (e : endpoint) (s : core) : bool :=
  existsb (fun x => (e_id x =? e_id e) && (e_uri x =? e_uri e)) (eps s).

Definition iso_row (scn : N) (s : core) : list N :=
  let up := phase_eqb (ph s) Running in
  match scn with
  | 12 | 15 | 16 => (* traffic resumed: a live outbound session for the target again, back-off reset *)
      [scn; b2n (up && existsb (fun x => (e_uri x =? 300) && e_outbound x) (eps s)
                 && match recon_get 300 (recon s) with Some (0, None) => true | _ => false end);
       b2n up]
  | _ => [scn; b2n (up && has_ep HEALTHY s); b2n (up && has_ep LISTENER s)]
  end.

(* tokio broadcast capacity of the context's event bus (runtime/event_bus.rs) *)
Definition EVENT_BUS_CAPACITY : N := 256.
Definition lag_inputs (sockets workers : N) : list input :=
  repeat EvActorStarted (N.to_nat (N.min sockets EVENT_BUS_CAPACITY)) ++
  (if (EVENT_BUS_CAPACITY <? sockets) && (workers =? 0) then [EvLagged] else []).

(* reconnect pacing: gap_i against delay(i) *)
Fixpoint gaps_ok (base max : N) (i : N) (slack_lo slack_hi : N) (gaps : list N) : bool :=
  match gaps with
  | [] => true
  | g :: r => let d := delay base max i / 1000000 in
              (d <=? g + slack_lo) && (g <=? d + slack_hi) && gaps_ok base max (i + 1) slack_lo slack_hi r
  end.

Definition c17_model (c : c17case) : obs :=
  match c with
  | CBo base max att ops => bo_rows base max {| attempts := att; next_at := None |} ops
  | CIso scn => [iso_row scn (run CFG victim0 (scenario_inputs scn))]
  | CLag sockets workers => [iso_row 31 (run CFG victim0 (lag_inputs sockets workers))]
  | CRetry _ _ _ => [[22; 1; 1]]
  | CTiming b m need _ _ => [20 :: map (fun i => delay (b * 1000000) (m * 1000000) (N.of_nat i) / 1000000) (seq 0 (N.to_nat need))]
  end.

Definition row_eqb (a b : list N) : bool :=
  (length a =? length b)%nat && forallb (fun '(x, y) => x =? y) (combine a b).
Definition obs_eqb (a b : obs) : bool :=
  (length a =? length b)%nat && forallb (fun '(x, y) => row_eqb x y) (combine a b).

(* scenario 21 (peer drops the connection right after accepting): the session's ActorStopping event and
   its NewConnectionEstablished command race; the model has both orders, the observation must be one of them *)
Definition race_row (is : list input) : list N :=
  let s := run CFG victim0 is in
  [21; b2n (match recon_get 300 (recon s) with Some (_, Some _) => true | _ => false end);
   b2n (phase_eqb (ph s) Running)].
Definition race_in_order : list input :=
  [CmdUserOther; CmdNewConnSca (outbound 0) true; EvActorStopping true 200 (Some 300) (Some ErrClosed)].
Definition race_overtaken : list input :=
  [CmdUserOther; EvActorStopping true 200 (Some 300) (Some ErrClosed); CmdNewConnSca (outbound 0) true].

(* scenario 22: TcpConnecter::run_connect_loop after `hangs` lost connections: the connecter inherits k attempts
   (k is decided by how many of the hang-ups SocketCore had recorded when it spawned this connecter: 0..hangs+1),
   starts from conn_initial and advances with conn_next after every wait *)
Fixpoint conn_seq (n : nat) (base cur : N) (maxopt : option N) : list N :=
  match n with
  | O => []
  | S n' => cur :: match conn_next base cur maxopt with
                   | Some c' => conn_seq n' base c' maxopt
                   | None => []
                   end
  end.
Definition retry_ok (base_ms max_ms hangs : N) (intervals : list N) : bool :=
  let base := base_ms * 1000000 in
  let mo := Some (max_ms * 1000000) in
  existsb (fun k => match conn_initial base mo (N.of_nat k) with
                    | Some c0 => row_eqb (map (fun d => d / 1000000) (conn_seq (length intervals) base c0 mo)) intervals
                    | None => false
                    end) (seq 0 (N.to_nat hangs + 2)).

Definition c17_agrees (c : c17case) (e : obs) : bool :=
  match c with
  | CIso 21 => obs_eqb [race_row race_in_order] e || obs_eqb [race_row race_overtaken] e
  (* scenario 30: whether the victim's event-bus receiver falls 256 events behind during the burst depends on
     the scheduler; the model has both behaviours *)
  | CIso 30 => obs_eqb [iso_row 30 (run CFG victim0 (scenario_inputs 30))] e
               || obs_eqb [iso_row 30 (run CFG victim0 (scenario_inputs 30 ++ [EvLagged]))] e
               (* ... or the healthy connection's SESSION actor lags (sessionx/actor.rs: Lagged -> fatal error)
                  and only that connection is lost *)
               || obs_eqb [iso_row 30 (run CFG victim0 (scenario_inputs 30 ++ [EvActorStopping true 2 (Some 20) (Some ErrInternal)]))] e
  | CRetry b m hangs =>
      match e with
      | [22 :: 1 :: 1 :: intervals] => retry_ok b m hangs intervals
      | _ => false
      end
  | CTiming b m need lo hi =>
      match e with
      | [20 :: gaps] => (N.to_nat need <=? length gaps)%nat && gaps_ok (b * 1000000) (m * 1000000) 0 lo hi gaps
      | _ => false
      end
  | _ => obs_eqb (c17_model c) e
  end.

Definition c17_mismatches (cases : list (N * c17case * obs)) : list N :=
  map (fun '(i, _, _) => i) (filter (fun '(_, c, e) => negb (c17_agrees c e)) cases).
