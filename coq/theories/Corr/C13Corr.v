(* Executable drivers for the C13 correspondence: the same case descriptions that
   harness/src/c13.rs executes on the real LoadBalancer / OutgoingMessageOrchestrator are run on
   the models, producing the same observation rows. *)
From RZ Require Import Base.Prelude Model.Balancer Model.Route Model.LbWait.
Local Open Scope N_scope.

Inductive hop := HAdd (u : N) | HRemove (u : N) | HNext | HTry | HRoute (wait : bool) | HResume.

Inductive witem := WPoll (gap : list eop) | WEnv (ops : list eop).

Inductive c13case :=
| CHist (ops : list hop) (acc closed sacc sclosed : list N) (env : list (N * list mop))
| CWait (items : list witem)
| CWaitMT (gap : bool)
| CWaitN (n : nat).                 (* n tasks parked in wait_for_connection, then ONE add_connection *)

Definition obs := list (list N).
Definition b2n (b : bool) : N := if b then 1 else 0.

(* readiness script: bit p of the t-th mask *)
Definition mask_ready (acc closed : list N) (t : nat) (p : N) : ready :=
  if N.testbit (nth t closed 0) p then Closed
  else if N.testbit (nth t acc 0) p then Accept else Full.

Fixpoint env_lookup (env : list (N * list mop)) (t : nat) : list mop :=
  match env with
  | [] => []
  | (k, ops) :: r => if k =? N.of_nat t then ops else env_lookup r t
  end.

Definition mk_oracle (acc closed sacc sclosed : list N) (env : list (N * list mop)) : oracle :=
  mkOracle (mask_ready acc closed) (mask_ready sacc sclosed) (env_lookup env).

Definition res_code (r : ready) : N := match r with Full => 0 | Accept => 1 | Closed => 2 end.
Definition att_row (a : att) : list N :=
  [N.of_nat (at_t a); at_peer a; b2n (at_slow a); res_code (at_res a)].
Definition st_row (b : bal) : list N :=
  N.of_nat (next_idx b) :: N.of_nat (length (peers b)) :: peers b.
Definition out_code (o : outcome) : N * N :=
  match o with
  | Returned => (0, 0)
  | Delivered p => (1, p)
  | DeliveredSlow p => (2, p)
  | ReturnedErr p => (3, p)
  | Dropped p => (4, p)
  | WaitForPeer => (5, 0)
  end.
Definition is_wait (o : outcome) : bool := match o with WaitForPeer => true | _ => false end.

Definition mk_row (opc arg : N) (code : N * N) (b : bal) (log : list att) : list N :=
  [opc; arg; fst code; snd code] ++ st_row b ++ [N.of_nat (length log)] ++ concat (map att_row log).

(* state of a history: balancer, number of send calls made so far, is a waiting send parked? *)
Definition hstate : Type := bal * nat * bool.

Definition hstep (o : oracle) (s : hstate) (h : hop) : hstate * list N :=
  let '(b, t, pend) := s in
  match h with
  | HAdd u => let b' := add u b in ((b', t, pend), mk_row 0 u (0, 0) b' [])
  | HRemove u => let b' := remove u b in ((b', t, pend), mk_row 1 u (0, 0) b' [])
  | HNext =>
      let '(r, b') := get_next b in
      ((b', t, pend), mk_row 2 0 (match r with Some p => (1, p) | None => (0, 0) end) b' [])
  | HTry =>
      let r := try_route_sync o b t in
      ((r_bal r, r_time r, pend), mk_row 3 0 (out_code (r_out r)) (r_bal r) (r_log r))
  | HRoute w =>
      let r := route_message o w b t in
      ((r_bal r, r_time r, pend || is_wait (r_out r)),
       mk_row 4 (b2n w) (out_code (r_out r)) (r_bal r) (r_log r))
  | HResume =>
      if pend then
        (* the parked future is polled again: still parked while there is no peer, otherwise
           wait_for_connection returns and the loop of route_message continues from the top *)
        match peers b with
        | [] => ((b, t, true), mk_row 5 0 (5, 0) b [])
        | _ :: _ =>
            let r := route_resume o true b t in
            ((r_bal r, r_time r, is_wait (r_out r)),
             mk_row 5 0 (out_code (r_out r)) (r_bal r) (r_log r))
        end
      else ((b, t, false), mk_row 5 0 (9, 0) b [])
  end.

Fixpoint hrun (o : oracle) (s : hstate) (hs : list hop) : obs :=
  match hs with
  | [] => []
  | h :: hs' => let '(s', row) := hstep o s h in row :: hrun o s' hs'
  end.

(* ---- wait_for_connection schedules ---- *)
Definition wstatus (s : wst) : N :=
  match w_pc s with PIdle => 3 | PDone true => 1 | PDone false => 2 | _ => 0 end.
Definition npeers (s : wst) : N := N.of_nat (length (peers (w_bal s))).

Definition restart (s : wst) : wst :=
  match w_pc s with PDone _ => set_pc s PIdle | _ => s end.

(* did this poll reach the schedule point between the check and the await? *)
Definition reaches_gap (s : wst) : bool := fst (poll_gap s []).

Fixpoint wrun (s : wst) (items : list witem) : obs :=
  match items with
  | [] => []
  | WPoll gap :: r =>
      let s0 := restart s in
      let s' := poll s0 gap in
      [0; wstatus s'; npeers s'; b2n (reaches_gap s0)] :: wrun s' r
  | WEnv ops :: r =>
      let s' := srun (map SE ops) s in
      [1; wstatus s; npeers s'; 0] :: wrun s' r
  end.

Definition c13_model (c : c13case) : obs :=
  match c with
  | CHist ops acc closed sacc sclosed env =>
      hrun (mk_oracle acc closed sacc sclosed env) (bal0, 0%nat, false) ops
  | CWait items => wrun (w0 true) items
  | CWaitMT gap =>
      let s := if gap then settle 8 (srun [SW; SW; SW; SE (EAdd 1)] (w0 true))
               else settle 8 (srun [SE (EAdd 1)] (settle 8 (w0 true))) in
      [[b2n (lost s); npeers s]]
  | CWaitN n =>
      (* every waiter runs to its await (3 steps each), one peer is added, every waiter is polled until it settles:
         [n; waiters that returned Ok; waiters still parked] *)
      let park := concat (map (fun i => [MW i; MW i; MW i]) (seq 0 n)) in
      let wake := concat (repeat (map MW (seq 0 n)) 8) in
      let m := mrun (park ++ [ME (EAdd 1)] ++ wake) (mw0 n) in
      let done := length (filter (fun p => match p with PDone true => true | _ => false end) (m_pcs m)) in
      [[N.of_nat n; N.of_nat done; N.of_nat (n - done)]]
  end.

Definition row_eqb (a b : list N) : bool :=
  (length a =? length b)%nat && forallb (fun '(x, y) => x =? y) (combine a b).
Definition obs_eqb (a b : obs) : bool :=
  (length a =? length b)%nat && forallb (fun '(x, y) => row_eqb x y) (combine a b).

Definition c13_mismatches (cases : list (N * c13case * obs)) : list N :=
  map (fun '(i, _, _) => i) (filter (fun '(_, c, e) => negb (obs_eqb (c13_model c) e)) cases).
