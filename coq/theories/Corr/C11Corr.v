(* Executable drivers for the C11 correspondence check: case description (the JSON the Rust harness
   executes on the real code) -> observation rows.  Two things the model cannot know are read from the
   implementation's observation ("hints"): which reverse entry HashMap iteration met first in
   remove_peer_by_identity, and the "pipe:N" placeholder the ROUTER reported for an anonymous peer. *)
From RZ Require Import Base.Prelude Model.Codec Model.RouterMap Model.Envelope Corr.C03Corr.
Local Open Scope N_scope.

(* ------------------------------------------------------------------ rows *)
(* PeerInfo's owner pipe (pipe_read_id) is internal bookkeeping: the harness does not print it, so the
   rows below carry uri and strategy of a forward entry only *)
Definition lit_row (tag : N) (f : frame) : list N := tag :: b2n (fst f) :: snd f.
Definition dig_row (tag : N) (f : frame) : list N := tag :: b2n (fst f) :: digest_row (snd f).

Fixpoint ident_ltb (a b : ident) : bool :=
  match a, b with
  | [], [] => false
  | [], _ :: _ => true
  | _ :: _, [] => false
  | x :: a', y :: b' => if x <? y then true else if y <? x then false else ident_ltb a' b'
  end.
Section Sort.
  Context {A : Type} (ltb : A -> A -> bool).
  Fixpoint insert_sorted (x : A) (l : list A) : list A :=
    match l with
    | [] => [x]
    | y :: t => if ltb x y then x :: y :: t else y :: insert_sorted x t
    end.
  Definition isort (l : list A) : list A := fold_right insert_sorted [] l.
End Sort.

Definition strat_code (s : strat) : N :=
  match s with SDefault => 0 | SReq => 1 | SDealer => 2 | SRouter => 3 end.
Definition strat_of_code (c : N) : strat :=
  match c with 1 => SReq | 2 => SDealer | 3 => SRouter | _ => SDefault end.
Definition ptype_of_code (t : N) : option ptype :=
  match t with 0 => None | 1 => Some TReq | 2 => Some TDealer | 3 => Some TRouter | _ => Some TOther end.

Definition dump_rows (m : rmap) (removed : N) : obs :=
  let f := isort (fun a b => ident_ltb (fst a) (fst b)) (fwd m) in
  let r := isort (fun a b => fst a <? fst b) (rev m) in
  [100; N.of_nat (length f); N.of_nat (length r); removed]
    :: map (fun '(id, (u, s, _)) => 1 :: u :: strat_code s :: id) f
    ++ map (fun '(p, id) => 2 :: p :: id) r.

(* ------------------------------------------------------------------ RouterMap histories *)
Inductive mop :=
| MAdd (id : ident) (p u : N)
| MUpd (p : N) (id : ident) (u t : N)
| MRmp (p : N)
| MRmi (id : ident)
| MSend (id : ident) (idmore manual : bool) (payload : list frame)
| MGet (id : ident) (p : N).

(* rows the op itself prints before the dump *)
Definition mop_rows (m : rmap) (o : mop) : obs :=
  match o with
  | MSend id idmore manual payload =>
      match fget id m with
      | Some (_, s, _) => [3; 1] :: map (lit_row 7) (strat_prepare s manual (idmore, id) payload)
      | None => [[3; 0]]
      end
  | MGet id p =>
      [match fget id m with Some (u, s, _) => [4; 1; u; strat_code s] | None => [4; 0] end;
       match rget p m with Some i => 5 :: 1 :: i | None => [5; 0] end]
  | _ => []
  end.
(* the pipe whose reverse entry remove_peer_by_identity dropped, as reported by the header row (+1) *)
Definition removed_of (hints : obs) : N :=
  match hints with (100 :: _ :: _ :: r :: _) :: _ => r | _ => 0 end.
Definition mop_apply (m : rmap) (o : mop) (hint : pipe) : rmap :=
  match o with
  | MAdd id p u => add_peer id p u m
  | MUpd p id u t => update_peer_identity p id u (ptype_of_code t) m
  | MRmp p => remove_peer_by_read_pipe p m
  | MRmi id => remove_peer_by_identity hint id m
  | _ => m
  end.
Definition lost_pipe (m m' : rmap) : N :=
  match filter (fun p => match rget p m' with None => true | Some _ => false end) (map fst (rev m)) with
  | p :: _ => p + 1
  | [] => 0
  end.
Fixpoint map_run (m : rmap) (ops : list mop) (hints : obs) : obs :=
  match ops with
  | [] => []
  | o :: t =>
      let pre := mop_rows m o in
      let hints1 := skipn (length pre) hints in
      let m' := mop_apply m o (removed_of hints1 - 1) in
      let removed := match o with MRmi _ => lost_pipe m m' | _ => 0 end in
      let d := dump_rows m' removed in
      pre ++ d ++ map_run m' t (skipn (length d) hints1)
  end.

(* ------------------------------------------------------------------ stack-level scenarios *)
Definition cframe : Type := bool * pl.
Definition cf (c : cframe) : frame := (fst c, pl_bytes (snd c)).
Record speer := { sp_req : bool; sp_rid : option pl; sp_manual : bool }.
Inductive sstep :=
| SJoin (k : N)
| SClose (k : N)
| SC2R (k : N) (payload : list cframe)
| SR2C (target : option N) (to_id : ident) (parts : bool) (payload : list cframe).

(* identity the ROUTER reported in front of the first message of peer k *)
Fixpoint learned (o : obs) (k : N) : option ident :=
  match o with
  | (10 :: _ :: k' :: 0 :: _) :: (31 :: _ :: id) :: t => if k' =? k then Some id else learned t k
  | _ :: t => learned t k
  | [] => None
  end.

Record pst := { ps_joined : bool; ps_closed : bool; ps_expecting : bool }.
Definition pst0 := {| ps_joined := false; ps_closed := false; ps_expecting := false |}.

Section Stack.
  Variables (tcp mandatory router_manual : bool) (peers : list speer) (hints : obs).

  Definition peer (k : N) : speer := nth (N.to_nat k) peers {| sp_req := false; sp_rid := None; sp_manual := false |}.
  Definition rid_of (k : N) : option ident :=
    match sp_rid (peer k) with
    | Some p => match pl_bytes p with [] => None | b => Some b end
    | None => None
    end.
  (* what the ROUTER calls peer k *)
  Definition pid (k : N) : ident :=
    match rid_of k with
    | Some r => r
    | None => match learned hints k with Some i => i | None => [63; k] end
    end.
  (* transient placeholder of a tcp pipe before the handshake completes *)
  Definition transient (k : N) : ident :=
    match rid_of k with Some _ => [0; k] | None => pid k end.
  Definition pipe_of (k : N) : pipe := k + 1.
  Definition ptype_k (k : N) : option ptype :=
    if tcp then Some (if sp_req (peer k) then TReq else TDealer) else None.

  Definition upd_nth {A} (k : N) (f : A -> A) (l : list A) : list A :=
    let n := N.to_nat k in firstn n l ++ match skipn n l with x :: t => f x :: t | [] => [] end.
  Definition pget (k : N) (ps : list pst) : pst := nth (N.to_nat k) ps pst0.

  Definition join_map (k : N) (m : rmap) : rmap :=
    if tcp then update_peer_identity (pipe_of k) (pid k) (pipe_of k) (ptype_k k)
                  (add_peer (transient k) (pipe_of k) (pipe_of k) m)
    else add_peer (pid k) (pipe_of k) (pipe_of k) m.

  (* part-wise send as the harness drives it: stop at the first error *)
  Fixpoint parts_run (st : rmap * option uri) (fs : list frame) : (rmap * option uri) * list N * list part_outcome :=
    match fs with
    | [] => (st, [], [])
    | f :: t =>
        let '(st1, o) := router_send_part mandatory router_manual (fun _ => COk) 0 st f in
        match o with
        | PInvalid => (st1, [2], [o])
        | PUnreachable => (st1, [1], [o])
        | _ => let '(st2, codes, os) := parts_run st1 t in (st2, 0 :: codes, o :: os)
        end
    end.
  Definition complete (w : list frame) : bool :=
    match List.rev w with f :: _ => negb (fst f) | [] => false end.

  (* what peer k's application gets out of a wire message *)
  Definition peer_decode (k : N) (w : list frame) : list frame :=
    if sp_req (peer k) then req_recv_multipart w else dealer_process_incoming (sp_manual (peer k)) w.

  Fixpoint poll (target : option N) (deliv : uri -> list frame) (ks : list N) (ps : list pst) : list pst * obs :=
    match ks with
    | [] => (ps, [])
    | k :: t =>
        let s := pget k ps in
        let is_target := match target with Some x => x =? k | None => false end in
        let live := ps_joined s && negb (ps_closed s) in
        let polled := live && (negb (sp_req (peer k)) || (is_target && ps_expecting s)) in
        let ps1 := if polled && sp_req (peer k)
                   then upd_nth k (fun s => {| ps_joined := ps_joined s; ps_closed := ps_closed s; ps_expecting := false |}) ps
                   else ps in
        let '(ps2, rows) := poll target deliv t ps1 in
        let mine :=
          if polled then
            let w := deliv (pipe_of k) in
            if complete w then let app := peer_decode k w in [21; k; N.of_nat (length app)] :: map (dig_row 32) app
            else [[21; k; 999]]
          else [] in
        (ps2, mine ++ rows)
    end.

  Fixpoint seqN (n : nat) (from : N) : list N :=
    match n with O => [] | S n' => from :: seqN n' (from + 1) end.

  Fixpoint stack_run (m : rmap) (ps : list pst) (steps : list sstep) (s : N) : obs :=
    match steps with
    | [] => []
    | st :: rest =>
        match st with
        | SJoin k =>
            [5; k; 0] :: stack_run (join_map k m)
                           (upd_nth k (fun _ => {| ps_joined := true; ps_closed := false; ps_expecting := false |}) ps) rest (s + 1)
        | SClose k =>
            [6; k] :: stack_run (remove_peer_by_read_pipe (pipe_of k) m)
                        (upd_nth k (fun x => {| ps_joined := ps_joined x; ps_closed := true; ps_expecting := false |}) ps) rest (s + 1)
        | SC2R k payload =>
            let fs := map cf payload in
            let wire := if sp_req (peer k) then req_send (hd (false, []) fs) else dealer_prepare (sp_manual (peer k)) fs in
            let label := match rget (pipe_of k) m with Some i => i | None => [63; k] end in
            let app := router_recv router_manual (ptype_k k) label wire in
            let ps' := if sp_req (peer k)
                       then upd_nth k (fun x => {| ps_joined := ps_joined x; ps_closed := ps_closed x; ps_expecting := true |}) ps
                       else ps in
            ([10; s; k; 0] :: match app with f :: t => lit_row 31 f :: map (dig_row 32) t | [] => [] end)
              ++ stack_run m ps' rest (s + 1)
        | SR2C target to_id parts payload =>
            let id := match target with Some k => pid k | None => to_id end in
            let fs := map cf payload in
            let '(m', codes, deliv) :=
              if parts then
                let '(st', codes, os) := parts_run (m, None) ((true, id) :: fs) in
                (fst st', codes, fun u => wire_to u os)
              else
                let '(m', o) := router_send_multipart mandatory router_manual (fun _ => COk) 0 m ((nonnil fs, id) :: fs) in
                match o with
                | SInvalid => (m', [2], fun _ => [])
                | SUnreachable => (m', [1], fun _ => [])
                | SDropped => (m', [0], fun _ => [])
                | SSent u w => (m', [0], fun v => if v =? u then w else [])
                end in
            let '(ps', rows) := poll target deliv (seqN (length peers) 0) ps in
            ((20 :: s :: codes) :: rows) ++ stack_run m' ps' rest (s + 1)
        end
    end.
End Stack.

(* ------------------------------------------------------------------ cases *)
Inductive c11case :=
| CMap (ops : list mop)
| CStrat (code : N) (manual : bool) (idm : frame) (payload : list frame)
| CFraming (which : N) (manual : bool) (frames : list frame)
| CStack (tcp mandatory router_manual : bool) (peers : list speer) (steps : list sstep).

Definition framing_model (which : N) (manual : bool) (fs : list frame) : list frame :=
  match which with
  | 0 => router_auto_encode fs
  | 1 => router_auto_decode fs
  | 2 => dealer_auto_encode fs
  | 3 => dealer_auto_decode fs
  | 4 => latch_encode true manual fs
  | 5 => latch_decode true manual fs
  | 6 => latch_encode false manual fs
  | _ => latch_decode false manual fs
  end.

Definition c11_model_h (hints : obs) (c : c11case) : obs :=
  match c with
  | CMap ops => map_run rm_empty ops hints
  | CStrat code manual idm payload => map (lit_row 7) (strat_prepare (strat_of_code code) manual idm payload)
  | CFraming which manual fs => map (lit_row 7) (framing_model which manual fs)
  | CStack tcp mandatory rman peers steps =>
      stack_run tcp mandatory rman peers hints rm_empty (map (fun _ => pst0) peers) steps 0
  end.
(* model view without hints (used only to print a case) *)
Definition c11_model (c : c11case) : obs := c11_model_h [] c.

Definition c11_mismatches (cases : list (N * c11case * obs)) : list N :=
  map (fun '(i, _, _) => i) (filter (fun '(_, c, e) => negb (obs_eqb (c11_model_h e c) e)) cases).
