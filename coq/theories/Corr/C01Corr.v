(* Executable drivers used by the correspondence check for C01: they turn a case description
   (the same JSON the Rust harness executes against the real code) into observation rows.
     CPair    - kind D: whole connections; the model predicts "received = accepted, in order"
     CEgress  - kind A: op sequences on EgressBuffer + EgressDriver (scripted writer)
     CIngress - kind A: poll / cancel / pop schedules on IngressDriver + per-pipe queue
     CTrace   - kind C: batch-assembly transitions logged by real sessions *)
From RZ Require Import Base.Prelude Base.Stepper Model.Codec Model.Batch Model.Egress Model.IngressDriver.
Local Open Scope N_scope.

Definition obs := list (list N).
Definition b2n (b : bool) : N := if b then 1 else 0.
Definition digest_row (l : bytes) : list N :=
  let '(n, a, f8, l8) := digest l in n :: a :: f8 ++ l8.

(* 999 in an implementation row = "not observable at this point" (wildcard) *)
Definition row_eqb (a b : list N) : bool :=
  (length a =? length b)%nat && forallb (fun '(x, y) => (y =? 999) || (x =? y)) (combine a b).
Definition obs_eqb (a b : obs) : bool :=
  (length a =? length b)%nat && forallb (fun '(x, y) => row_eqb x y) (combine a b).

(* ---------------- pair ---------------- *)
(* message descriptor: (direction code 5 | 15, seq, len, adler of the payload) *)
Definition mdesc : Type := N * N * N * N.

(* the sender stops at the first send that is not accepted, so the accepted messages of a direction
   are a prefix of those sent; the driver summarises the status rows as [4; dir; number accepted] *)
Definition accepted_count (o : obs) (dir : N) : nat :=
  match find (fun r => match r with [4; d; _] => d =? dir | _ => false end) o with
  | Some [_; _; k] => N.to_nat k
  | _ => 0%nat
  end.

Definition pair_model_dir (ms : list mdesc) (o : obs) (dir : N) : obs :=
  map (fun '(d, seq, ln, ad) => [d + 1; ln; ad; (if ln <? 16 then 4294967295 else seq); 1])
      (firstn (accepted_count o dir) (filter (fun '(d, _, _, _) => d =? dir) ms)).
Definition pair_model (ms : list mdesc) (o : obs) : obs :=
  pair_model_dir ms o 5 ++ pair_model_dir ms o 15.
Definition received_rows (dir : N) (o : obs) : obs :=
  filter (fun r => match r with d :: _ => d =? dir + 1 | [] => false end) o.
Definition pair_check (ms : list mdesc) (o : obs) : bool :=
  obs_eqb (received_rows 5 (pair_model ms o)) (received_rows 5 o) &&
  obs_eqb (received_rows 15 (pair_model ms o)) (received_rows 15 o).

(* DEALER with sends accepted before the connection exists (Model/Dealer.v, the code as it is): the
   pending queue neither drops nor duplicates (dealer_no_loss_no_dup) but may hold messages back
   and let later ones overtake (dealer_queue_refuted): what is received is a duplicate-free
   selection of the accepted messages, in any order *)
Fixpoint nodup_rows (l : obs) : bool :=
  match l with
  | [] => true
  | r :: rest => negb (existsb (row_eqb r) rest) && nodup_rows rest
  end.
Definition pair_check_dealer_early (ms : list mdesc) (o : obs) : bool :=
  let pred := received_rows 5 (pair_model ms o) in
  let got := received_rows 5 o in
  forallb (fun r => existsb (fun p => row_eqb p r) pred) got && nodup_rows got.

(* ---------------- egress ---------------- *)
Inductive cop := CPush (n seed cnt : N) | CPrio (n seed : N) | CDrive (script : list N) (max_iov : N).

Definition state_row (e : egress) : list N :=
  [2; e_msgs e; e_total e; b2n (match e_chunks e with [] => true | _ => false end);
   match e_chunks e with [] => 0 | c :: _ => N.of_nat (length (c_data c) - e_off e) end].

(* what fill_slices offers: the first `max_iov` chunks (capped at 64), head from the offset *)
Definition offered (e : egress) (max_iov : nat) : bytes :=
  skipn (e_off e) (concat (map c_data (firstn (Nat.min max_iov 64) (e_chunks e)))).

(* EgressDriver::poll against the scripted writer; returns (state, outcome, write rows) *)
Fixpoint drive (fuel : nat) (e : egress) (script : list N) (max_iov : nat) : egress * N * obs :=
  match fuel with
  | O => (e, 9, [])
  | S f =>
      match e_chunks e with
      | [] => (e, 1, [])                                   (* is_empty: poll_flush -> Ready(Ok) *)
      | _ =>
          match script with
          | [] => (e, 0, [])                               (* writer Pending *)
          | n :: rest =>
              let off := offered e max_iov in
              let k := Nat.min (N.to_nat n) (length off) in
              match k with
              | O => (e, 2, [[3; 0; 1]])                   (* Ok(0) -> Err(ConnectionClosed) *)
              | _ =>
                  let '(e', _) := eg_advance e k in
                  let '(e'', oc, rows) := drive f e' rest max_iov in
                  (e'', oc, (3 :: digest_row (firstn k off)) :: rows)
              end
          end
      end
  end.

Fixpoint egress_model (e : egress) (ops : list cop) : obs :=
  match ops with
  | [] => []
  | CPush n s c :: rest => let e' := eg_push e (fill n s) c in state_row e' :: egress_model e' rest
  | CPrio n s :: rest =>
      match eg_push_priority e (fill n s) with
      | EOk e' => state_row e' :: egress_model e' rest
      | EPanic => [[96]]
      end
  | CDrive script mi :: rest =>
      let '(e', oc, rows) := drive (S (length script)) e script (N.to_nat mi) in
      ([1; oc; N.of_nat (length rows)] :: rows) ++ state_row e' :: egress_model e' rest
  end.

(* ---------------- ingress ---------------- *)
Inductive iop := IEnq (id frames : N) | IPoll | ICancel | IPop.

Definition itm : Type := N * nat.            (* (id, number of frames) *)
Definition iw (x : itm) : nat := snd x.

Definition lens_row (s : istate itm) : list N := [N.of_nat (length (i_ib s)); N.of_nat (length (i_q s))].

Fixpoint ingress_model (cap : nat) (hs : bool) (s : istate itm) (alive : bool) (ops : list iop) : obs :=
  match ops with
  | [] => []
  | IEnq id fr :: rest =>
      let s1 := i_step iw cap hs s (DCancel itm) in
      let s2 := i_step iw cap hs s1 (DEnq (id, Nat.max (N.to_nat fr) 1)) in
      ([0; 1] ++ lens_row s2) :: ingress_model cap hs s2 false rest
  | ICancel :: rest =>
      let s1 := i_step iw cap hs s (DCancel itm) in
      ([2; b2n alive] ++ lens_row s1) :: ingress_model cap hs s1 false rest
  | IPop :: rest =>
      let r := match i_q s with [] => 0 | (id, _) :: _ => id + 1 end in
      let s1 := i_step iw cap hs s (DPop itm) in
      ([3; r] ++ lens_row s1) :: ingress_model cap hs s1 alive rest
  | IPoll :: rest =>
      match i_ib s with
      | [] => [1; 3; 0; N.of_nat (length (i_q s))] :: ingress_model cap hs s false rest
      | _ =>
          let s1 := i_poll iw cap hs s in
          match i_last s1 with
          | RReady n => ([1; 1000 + N.of_nat n] ++ lens_row s1) :: ingress_model cap hs s1 false rest
          | _ => ([1; 0] ++ lens_row s1) :: ingress_model cap hs s1 true rest
          end
      end
  end.

(* ---------------- batch traces ---------------- *)
Definition tmsg : Type := N * N.             (* (wire size, tag) *)
Definition tsize (m : tmsg) : N := fst m.
Definition tmsg_eqb (a b : tmsg) : bool := (fst a =? fst b) && (snd a =? snd b).
Fixpoint tl_eqb (a b : list tmsg) : bool :=
  match a, b with
  | [], [] => true
  | x :: a', y :: b' => tmsg_eqb x y && tl_eqb a' b'
  | _, _ => false
  end.

Record trec := {
  t_branch : N; t_pending : N; t_sndhwm : N; t_count : N; t_max_count : N; t_phys : N; t_logical : N;
  t_start : N; t_carry_before : list tmsg; t_batch : list tmsg; t_carry_after : list tmsg
}.

Definition trace_ok (r : trec) : bool :=
  let cfg := {| b_sndhwm := N.to_nat (t_sndhwm r); b_count := N.to_nat (t_count r);
                b_logical := t_logical r; b_physical := t_phys r |} in
  let pending := N.to_nat (t_pending r) in
  let sl := N.to_nat (t_start r) in
  (N.of_nat (max_count_of cfg pending) =? t_max_count r) && gate_open cfg pending &&
  match t_branch r with
  | 0 =>
      let pulled := skipn sl (t_batch r) ++ skipn (length (t_carry_before r) - sl) (t_carry_after r) in
      let '(b, c', p') := assemble_carry tsize cfg pending (t_carry_before r) pulled in
      tl_eqb b (t_batch r) && tl_eqb c' (t_carry_after r) && match p' with [] => true | _ => false end
      && negb (match t_carry_before r with [] => true | _ => false end)
  | _ =>
      match t_carry_before r, t_batch r with
      | [], first :: rest =>
          let '(b, c', p') := assemble_recv tsize cfg pending first (rest ++ t_carry_after r) in
          tl_eqb b (t_batch r) && tl_eqb c' (t_carry_after r) && match p' with [] => true | _ => false end
      | _, _ => false
      end
  end.

(* ---------------- dispatch ---------------- *)
Inductive c01case :=
| CPair (ms : list mdesc)
| CPairDealerEarly (ms : list mdesc)
| CEgress (ops : list cop)
| CIngress (cap : N) (sender : bool) (ops : list iop)
| CTrace (recs : list trec).

Definition c01_model (c : c01case) (o : obs) : obs :=
  match c with
  | CPair ms | CPairDealerEarly ms => pair_model ms o
  | CEgress ops => egress_model eg_new ops
  | CIngress cap hs ops => ingress_model (N.to_nat cap) hs (i_new itm) false ops
  | CTrace recs => map (fun r => [b2n (trace_ok r)]) recs
  end.

Definition c01_check (c : c01case) (o : obs) : bool :=
  match c with
  | CPair ms => pair_check ms o
  | CPairDealerEarly ms => pair_check_dealer_early ms o
  | CTrace recs => forallb trace_ok recs
  | _ => obs_eqb (c01_model c o) o
  end.

Definition c01_mismatches (cases : list (N * c01case * obs)) : list N :=
  map (fun '(i, _, _) => i) (filter (fun '(_, c, e) => negb (c01_check c e)) cases).
