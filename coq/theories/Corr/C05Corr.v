(* Correspondence driver for C05: two engine models and a delivery schedule, rows as harness/src/pair.rs *)
From RZ Require Import Base.Prelude Base.Stepper Model.Codec Model.Engine Model.Pair Corr.C03Corr Corr.EngCorr.
Local Open Scope N_scope.

Definition to_pstep (x : N * N) : pstep_t :=
  let '(d, k) := x in if d =? 0 then ToB (N.to_nat k) 0 else ToA (N.to_nat k) 0.

Definition side_rows (tag : N) (o : list eout) : obs :=
  let net := concat (map (eout_rows false) (filter is_net o)) in
  let app := concat (map (eout_rows false) (filter (fun x => negb (is_net x)) o)) in
  [tag; N.of_nat (length net); N.of_nat (length app)] :: net ++ app.

(* the schedule steps of the harness clamp k to what is in flight; then drain eagerly *)
Definition clamp (s : psys) (x : pstep_t) : pstep_t :=
  match x with
  | ToB k t => ToB (Nat.min k (length (ab s))) t
  | ToA k t => ToA (Nat.min k (length (ba s))) t
  end.
Fixpoint prun_clamped (ca cb : ecfg) (s : psys) (xs : list pstep_t) : psys :=
  match xs with
  | [] => s
  | x :: r => prun_clamped ca cb (pstep ca cb s (clamp s x)) r
  end.

Definition pair_model (ca cb : ecfg) (sched : list (N * N)) : obs :=
  let s := eager ca cb 16 (prun_clamped ca cb p_init (map to_pstep sched)) in
  side_rows 70 (oa s) ++ side_rows 71 (ob s) ++
  [[99; phasecode (e_phase (g_st (pa s))); phasecode (e_phase (g_st (pb s)));
    len (g_acc (pa s)); len (g_acc (pb s)); len (ab s); len (ba s)]].

Definition pair_mismatches (cases : list (N * (ecfg * ecfg * list (N * N)) * obs)) : list N :=
  map (fun '(i, _, _) => i)
      (filter (fun '(_, (ca, cb, sc), e) => negb (obs_eqb (pair_model ca cb sc) e)) cases).

(* socket-type verdicts: [v3; v2; inproc] for a (connector, binder) pair of type names *)
Definition verdict_rows (a b : bytes) : obs :=
  [[b2n (compat_v3 a b); b2n (compat_v2 a b); b2n (compat_inproc a b)]].
Definition typepair_model (transport : N) (connector binder : bytes) : obs :=
  [[if transport =? 2 then b2n (compat_inproc connector binder) else b2n (compat_v3 connector binder)]].
Definition typepair_mismatches (cases : list (N * (N * bytes * bytes) * obs)) : list N :=
  map (fun '(i, _, _) => i)
      (filter (fun '(_, (t, a, b), e) => negb (obs_eqb (typepair_model t a b) e)) cases).
