(* Correspondence drivers for C20: the same cases as harness/src/c20.rs (kinds pool / ring / handler)
   evaluated on the models; observation rows in the same format. *)
From RZ Require Import Base.Prelude Base.Stepper Model.Codec Model.Engine Model.Actor Model.Spill Model.UringPool
  Model.UringShell Corr.C03Corr Corr.EngCorr.
Local Open Scope N_scope.

Definition nn (n : nat) : N := N.of_nat n.

(* ------------------------------------------------------------------ pool *)
Inductive cpop := CAcq (len : nat) | CLease | CHand (h : nat) | CDrop (h : nat) | CRel (id : nat).

Definition pool_snap (p : pool) (head : list N) : list N :=
  head ++ [77] ++ map nn (p_free p) ++ [88] ++ map b2n (p_inuse p).

Definition opt_row (o : option nat) : N := match o with Some i => nn i + 1 | None => 0 end.

Fixpoint pool_rows (p : pool) (leases : list (option (nat * bool))) (ops : list cpop) : obs :=
  match ops with
  | [] => []
  | o :: rest =>
      match o with
      | CAcq len =>
          let '(p1, r) := pool_acquire p len in pool_snap p1 [1; opt_row r] :: pool_rows p1 leases rest
      | CLease =>
          let '(p1, r) := pool_lease p in
          pool_snap p1 [2; opt_row r] ::
            pool_rows p1 (match r with Some id => leases ++ [Some (id, false)] | None => leases end) rest
      | CHand h =>
          match nth h leases None with
          | Some (id, _) => pool_snap p [3; nn id + 1] :: pool_rows p (set_nth leases h (Some (id, true))) rest
          | None => pool_snap p [3; 0] :: pool_rows p leases rest
          end
      | CDrop h =>
          match nth h leases None with
          | Some (id, fl) =>
              let '(p1, _) := pool_step p (PDrop id fl) in
              pool_snap p1 [4; nn id + 1; b2n fl] :: pool_rows p1 (set_nth leases h None) rest
          | None => pool_snap p [4; 0; 0] :: pool_rows p leases rest
          end
      | CRel id => let p1 := pool_release p id in pool_snap p1 [5; 0] :: pool_rows p1 leases rest
      end
  end.

Definition pool_model (count cap : nat) (ops : list cpop) : obs :=
  let p := pool_new count cap in pool_snap p [0; 0] :: pool_rows p [] ops.

(* ------------------------------------------------------------------ ring *)
Inductive crop :=
  | CKernel (n : nat) | CTakeLast | CTake (bid filled : nat) | CReprovLast | CReprov (bid : nat) | CDropChunk (h : nat).

Definition ring_snap (r : ring) (head : list N) : list N :=
  head ++ [77] ++ map (fun s => match s with Some b => nn b + 1 | None => 0 end) (r_slots r) ++
  [88] ++ map (fun b => nn b + 1) (r_free r) ++ [99; r_tail r].

Definition NOBID : nat := 60000.

Fixpoint ring_rows (r : ring) (chunks : list (option nat)) (lastk : option (nat * nat)) (ops : list crop) : obs :=
  match ops with
  | [] => []
  | o :: rest =>
      match o with
      | CKernel n =>
          let n' := Nat.min (Nat.max n 1) (r_cap r) in
          let '(r1, res) := ring_kernel r in
          match res with
          | Some bid => ring_snap r1 [1; nn bid + 1; nn n'] :: ring_rows r1 chunks (Some (bid, n')) rest
          | None => ring_snap r1 [1; 0; 105] :: ring_rows r1 chunks None rest
          end
      | CTakeLast | CTake _ _ =>
          let '(bid, filled) := match o with
                                | CTake b f => (b, f)
                                | _ => match lastk with Some x => x | None => (NOBID, 1%nat) end
                                end in
          let lastk' := match o with CTakeLast => None | _ => lastk end in
          let '(r1, res) := ring_take r bid filled in
          match res with
          | RBytes buf f => ring_snap r1 [2; nn buf + 1; nn f] :: ring_rows r1 (chunks ++ [Some buf]) lastk' rest
          | _ => ring_snap r1 [2; 0; 0] :: ring_rows r1 chunks lastk' rest
          end
      | CReprovLast | CReprov _ =>
          let bid := match o with
                     | CReprov b => b
                     | _ => match lastk with Some x => fst x | None => NOBID end
                     end in
          let lastk' := match o with CReprovLast => None | _ => lastk end in
          let '(r1, res) := ring_reprovide r bid in
          ring_snap r1 [3; match res with RUnit => 1 | _ => 0 end; 0] :: ring_rows r1 chunks lastk' rest
      | CDropChunk h =>
          match nth h chunks None with
          | Some buf =>
              let '(r1, pooled) := ring_chunk_drop r buf in
              ring_snap r1 [4; 1; b2n pooled] :: ring_rows r1 (set_nth chunks h None) lastk rest
          | None => ring_snap r [4; 0; 0] :: ring_rows r chunks lastk rest
          end
      end
  end.

Definition ring_model (entries cap : nat) (ops : list crop) : obs :=
  match ring_new entries cap with
  | None => [[94]]
  | Some r => ring_snap r [0; 0; 0] :: ring_rows r [] None ops
  end.

(* ------------------------------------------------------------------ handler *)
Inductive chop :=
  | HStart | HRead (ps : list piece) | HEof | HAttach | HPrepare | HResume | HPoll | HClose | HIoErr | HDropRx
  | HPop (k : nat).

(* the socket's ingress pipe: a bounded queue; the receiver may go away *)
Record pipe := { q_items : list msgt; q_cap : nat; q_open : bool }.
(* The sender holds a Weak handle to the pipe slot.  After deregister_pipe the slot stays alive for as long as
   the ready list references it, i.e. while messages are queued; only then does try_send answer Closed. *)
Definition pipe_alive (p : pipe) : bool := q_open p || negb (match q_items p with [] => true | _ => false end).
Definition pipe_answer (p : pipe) : tres :=
  if negb (pipe_alive p) then TClosed else if (length (q_items p) <? q_cap p)%nat then TOk else TFull.
Definition pipe_push (p : pipe) (ms : list msgt) : pipe :=
  {| q_items := q_items p ++ ms; q_cap := q_cap p; q_open := q_open p |}.

(* the oracle answers that this pipe gives to a sequence of deliveries / a drain *)
Fixpoint oracle_deliver (s : spill msgt) (p : pipe) (ms : list msgt) : list tres :=
  match ms with
  | [] => []
  | m :: rest =>
      let r := pipe_answer p in
      let '(s1, o1) := sp_deliver s m r in
      r :: oracle_deliver s1 (pipe_push p o1) rest
  end.
Fixpoint oracle_drain (p : pipe) (n : nat) : list tres :=
  match n with
  | O => []
  | S k => let r := pipe_answer p in
           r :: match r with TOk => oracle_drain (pipe_push p [[]]) k | _ => [] end
  end.

Definition ctrl_rows (c : ctrl) : list N :=
  match c with
  | KEstablished id => [5; match id with Some _ => 1 | None => 0 end] ++ digest_row (opt_or_empty id)
  | KError e => [8; errcode e]
  | KPeerClosed => [8; 20]
  end.

Definition head_row (code : N) (h : ush) (o : uout) (extra : N) : list N :=
  [90; code; nn (uo_close o); b2n (uo_errclose o); nn (length (s_q (u_sp h))); b2n (s_thr (u_sp h));
   b2n (s_closing (u_sp h)); b2n (s_deadline (u_sp h)); b2n (s_attached (u_sp h)); extra].

Definition out_rows (code : N) (h : ush) (o : uout) (extra : N) : obs :=
  head_row code h o extra :: concat (map (eout_rows false) (uo_net o)) ++ map ctrl_rows (uo_ctrl o).

Definition is_drained (p : pipe) : bool := if pipe_alive p then (length (q_items p) <? q_cap p)%nat else true.

Fixpoint handler_rows (cfg : ecfg) (h : ush) (p : pipe) (attached_once : bool) (ops : list chop) : obs :=
  match ops with
  | [] => []
  | o :: rest =>
      match o with
      | HStart => let '(h1, u) := u_step cfg h UStart in out_rows 1 h1 u 0 ++ handler_rows cfg h1 p attached_once rest
      | HRead ps =>
          let d := concat (map piece_bytes ps) in
          let ds := deliveries (snd (e_net cfg (u_eng h) d 0)) in
          let rs := oracle_deliver (u_sp h) p ds in
          let '(h1, u) := u_step cfg h (UNet d 0 rs) in
          out_rows 2 h1 u 0 ++ handler_rows cfg h1 (pipe_push p (uo_pipe u)) attached_once rest
      | HEof => let '(h1, u) := u_step cfg h UEof in out_rows 3 h1 u 0 ++ handler_rows cfg h1 p attached_once rest
      | HAttach =>
          if attached_once then out_rows 4 h uo_nil 0 ++ handler_rows cfg h p true rest
          else let '(h1, u) := u_step cfg h UAttach in out_rows 4 h1 u 1 ++ handler_rows cfg h1 p true rest
      | HPrepare =>
          let rs := oracle_drain p (length (s_q (u_sp h))) in
          let '(h1, u) := u_step cfg h (UPrepare rs (is_drained (pipe_push p (firstn (length (filter (fun r => match r with TOk => true | _ => false end) rs)) (s_q (u_sp h)))))) in
          out_rows 5 h1 u 0 ++ handler_rows cfg h1 (pipe_push p (uo_pipe u)) attached_once rest
      | HResume => let '(h1, u) := u_step cfg h UResume in out_rows 6 h1 u 0 ++ handler_rows cfg h1 p attached_once rest
      | HPoll =>
          let res := snd (sp_throttle (u_sp h) (is_drained p)) in
          let '(h1, u) := u_step cfg h (UPoll (is_drained p)) in
          out_rows 7 h1 u (b2n res) ++ handler_rows cfg h1 p attached_once rest
      | HClose => let '(h1, u) := u_step cfg h UCloseInit in out_rows 8 h1 u 0 ++ handler_rows cfg h1 p attached_once rest
      | HIoErr => let '(h1, u) := u_step cfg h UIoErr in out_rows 9 h1 u 0 ++ handler_rows cfg h1 p attached_once rest
      | HDropRx =>
          out_rows 10 h uo_nil 0 ++
          (* deregister_pipe: the sender's Weak handle dies (try_send answers Closed); messages already queued
             stay reachable through the ready list and can still be popped *)
          handler_rows cfg h {| q_items := q_items p; q_cap := q_cap p; q_open := false |} attached_once rest
      | HPop k =>
          let got := firstn k (q_items p) in
          out_rows 11 h uo_nil (nn (length got)) ++ concat (map (fun m => eout_rows false (ODeliver m)) got) ++
          handler_rows cfg h {| q_items := skipn k (q_items p); q_cap := q_cap p; q_open := q_open p |} attached_once rest
      end
  end.

Definition handler_model (cfg : ecfg) (cap : nat) (ops : list chop) : obs :=
  handler_rows cfg (u_new 0) {| q_items := []; q_cap := cap; q_open := true |} false ops.

(* ------------------------------------------------------------------ dispatch *)
Inductive c20case :=
  | KPool (count cap : nat) (ops : list cpop)
  | KRing (entries cap : nat) (ops : list crop)
  | KHandler (cfg : ecfg) (cap : nat) (ops : list chop).

Definition c20_model (c : c20case) : obs :=
  match c with
  | KPool n c ops => pool_model n c ops
  | KRing n c ops => ring_model n c ops
  | KHandler cfg c ops => handler_model cfg c ops
  end.

Definition c20_mismatches (cases : list (N * c20case * obs)) : list N :=
  map (fun '(i, _, _) => i) (filter (fun '(_, c, e) => negb (obs_eqb (c20_model c) e)) cases).
