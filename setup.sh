#!/bin/bash
# setup_cmd: build the Coq development (full .vo build) and the Rust harness, offline.
set -e
cd "$(dirname "$0")"
mkdir -p .cache evidence replays
export CARGO_NET_OFFLINE=true
( cd coq && rm -f Makefile.gen Makefile.gen.conf .Makefile.gen.d && timeout 3000 make -j16 all )
( cd harness && [ -f Cargo.lock ] || cp ${VERIF_REPO:-/repo}/Cargo.lock Cargo.lock; timeout 3000 cargo build --offline --quiet 2>&1 | grep -E "^error|warning: unused" | head -20 || true )
test -x .cache/target/debug/vh
echo "setup ok"
